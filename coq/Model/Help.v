(** Model for property C20 (help agrees with the program).  Executable definitions only.

    Mirrors
      common/instruction_setup.py          instruction_set_from_name_and_setup_constructor_list, SingleInstructionSetup
      section_document/element_parsers/parser_for_dictionary_of_instructions.py   _lookup_parser  (`name in dict`)
      help/program_modes/test_case/the_test_case_help.py     _phase_instruction_set_help
      help/program_modes/common/contents_structure.py        SectionInstructionSet (sorted), name_2_description
      test_suite/file_reading/suite_file_reading.py          [conf] = sequence (suite conf parser, case conf parser)
      util/value_lookup.py                                   lookup
      cli/program_modes/help/argument_parsing.py             Parser.apply and its helpers
      help/html_doc/cross_ref_target_renderer.py             HtmlTargetRenderer
    Names are Coq [string]s (ASCII).  Python dicts are association lists that keep first-insertion order and the
    last value, as Python does. *)
From Coq Require Import List Bool String Ascii Arith NArith ZArith.
Import ListNotations.
Local Open Scope string_scope.

(** ** ASCII case mapping: Python [str.upper] / [str.lower] on ASCII text *)
Definition upper_ascii (c : ascii) : ascii :=
  let n := N_of_ascii c in if (97 <=? n)%N && (n <=? 122)%N then ascii_of_N (n - 32) else c.
Definition lower_ascii (c : ascii) : ascii :=
  let n := N_of_ascii c in if (65 <=? n)%N && (n <=? 90)%N then ascii_of_N (n + 32) else c.
Fixpoint upper (s : string) : string :=
  match s with EmptyString => EmptyString | String c r => String (upper_ascii c) (upper r) end.
Fixpoint lower (s : string) : string :=
  match s with EmptyString => EmptyString | String c r => String (lower_ascii c) (lower r) end.

(** Python [pat in s] on strings. *)
Fixpoint contains (pat s : string) : bool :=
  String.prefix pat s || match s with EmptyString => false | String _ r => contains pat r end.

(** Python [' '.join(l)]. *)
Definition join_sp (l : list string) : string := String.concat " " l.

Definition mem (x : string) (l : list string) : bool := existsb (String.eqb x) l.

(** ** Python dictionaries *)
Section Dict.
  Context {V : Type}.
  Definition dict := list (string * V).
  Fixpoint dict_set (k : string) (v : V) (d : dict) : dict :=
    match d with
    | [] => [(k, v)]
    | (k', v') :: d' => if String.eqb k k' then (k', v) :: d' else (k', v') :: dict_set k v d'
    end.
  (** a dict comprehension / [dict(pairs)] *)
  Definition dict_of_pairs (l : list (string * V)) : dict :=
    fold_left (fun d kv => dict_set (fst kv) (snd kv) d) l [].
  Fixpoint dict_get (k : string) (d : dict) : option V :=
    match d with
    | [] => None
    | (k', v) :: d' => if String.eqb k k' then Some v else dict_get k d'
    end.
  Definition dict_keys (d : dict) : list string := map fst d.
  Definition dict_mem (k : string) (d : dict) : bool := mem k (dict_keys d).
End Dict.
Arguments dict V : clear implicits.

(** ** [list.sort(key=...)] : stable, by code point order *)
Section Sort.
  Context {A : Type}.
  Variable key : A -> string.
  Fixpoint insert_by (x : A) (l : list A) : list A :=
    match l with
    | [] => [x]
    | y :: l' => if String.leb (key x) (key y) then x :: y :: l' else y :: insert_by x l'
    end.
  Definition sort_by (l : list A) : list A := fold_right insert_by [] l.
End Sort.

(** ** One list of (name, setup constructor) gives both the parser dictionary and the help *)
Section InstructionSets.
  Context {parser doc : Type}.
  Variable doc_name : doc -> string.                 (* InstructionDocumentation.instruction_name() *)
  Definition setup := (parser * doc)%type.            (* SingleInstructionSetup(parser, documentation) *)
  Definition ctor_list := list (string * (string -> setup)).

  (** instruction_set_from_name_and_setup_constructor_list *)
  Definition instruction_set_from (l : ctor_list) : dict setup :=
    dict_of_pairs (map (fun nc => (fst nc, snd nc (fst nc))) l).

  (** InstructionParserForDictionaryOfInstructions._lookup_parser: unknown instruction iff [name not in dict] *)
  Definition parser_accepts (d : dict setup) (name : string) : bool := dict_mem name d.

  (** _phase_instruction_set_help: SectionInstructionSet(map(documentation, dict.values())), sorted by name *)
  Definition section_instruction_set (d : dict setup) : list doc :=
    sort_by doc_name (map (fun kv => snd (snd kv)) d).
  (** what the help lists *)
  Definition listed_names (d : dict setup) : list string := map doc_name (section_instruction_set d).
  (** SectionInstructionSet.name_2_description *)
  Definition name_2_description (s : list doc) : dict doc := dict_of_pairs (map (fun x => (doc_name x, x)) s).
  Definition help_keys (d : dict setup) : list string := dict_keys (name_2_description (section_instruction_set d)).

  (** suite [conf]: ParserFromSequenceOfParsers (suite configuration parser, case [conf] parser): a name is
      unknown iff every parser of the sequence says so *)
  Definition sequence_accepts (ds : list (dict setup)) (name : string) : bool :=
    existsb (fun d => parser_accepts d name) ds.
End InstructionSets.

(** The concrete instance used with regenerated data: a setup is observed as (key, name of its documentation). *)
Definition obs_dict (pairs : list (string * string)) : dict (unit * string) :=
  dict_of_pairs (map (fun p => (fst p, (tt, snd p))) pairs).
Definition obs_doc_name (d : string) : string := d.

(** ** util/value_lookup.py : lookup *)
Inductive lookup_result :=
| Found (key : string) (exact : bool)
| NoMatch
| MultipleMatches (keys : list string).

Fixpoint lookup_go (up : string) (keys : list string) (matches : list string) : lookup_result :=
  match keys with
  | [] => match matches with
          | [] => NoMatch
          | [k] => Found k false
          | _ => MultipleMatches matches
          end
  | k :: r => let uk := upper k in
              if String.eqb up uk then Found k true
              else if contains up uk then lookup_go up r (matches ++ [k])
              else lookup_go up r matches
  end.
Definition lookup (pattern : string) (keys : list string) : lookup_result :=
  lookup_go (upper pattern) keys [].

(** ** The help data structure as far as argument parsing looks at it *)
Record keywords := {
  kw_help : string; kw_htmldoc : string; kw_case : string; kw_suite : string; kw_symbol : string;
  kw_spec : string; kw_instructions : string }.

Record section_help := {
  sh_name : string;
  sh_instructions : option (list string)   (* None: has_instructions is False; Some: keys of name_2_description *)
}.

Record app_help := {
  ah_entities : list (string * list string);   (* entity_type_id_2_entity_type_conf: id -> singular names of all_entities *)
  ah_phases : list section_help;               (* test_case_help.phase_helps_in_order_of_execution *)
  ah_suite_sections : list section_help        (* test_suite_help.section_helps *)
}.

Inductive request :=
| RProgram | RHelpHelp | RHtmlDoc | RCaseCli | RCaseSpec | RSuiteCli | RSuiteSpec | RSymbol | RInstructionSet
| REntityList (t : string)
| REntity (t name : string) (include_name : bool)
| RSuiteSection (s : string)
| RSuiteInstruction (name : string)
| RPhase (p : string)
| RPhaseInstructionList (p : string)
| RInstruction (name : string) (include_name : bool)
| RInstructionSearch (name : string) (phases : list string).

Inductive parse_result := POk (r : request) | PHelpError.

Definition entity_dict (a : app_help) : dict (list string) := dict_of_pairs (ah_entities a).
(** TestCaseHelp.phase_name_2_phase_help *)
Definition phase_dict (a : app_help) : dict section_help :=
  dict_of_pairs (map (fun s => (sh_name s, s)) (ah_phases a)).

Definition parse_entity_help (a : app_help) (t : string) (args : list string) : parse_result :=
  match args with
  | [] => POk (REntityList t)
  | _ => match dict_get t (entity_dict a) with
         | None => PHelpError   (* unreachable: the caller has checked membership *)
         | Some names => match lookup (join_sp args) names with
                         | Found k exact => POk (REntity t k (negb exact))
                         | _ => PHelpError
                         end
         end
  end.

Definition parse_suite_help (kw : keywords) (a : app_help) (args : list string) : parse_result :=
  match args with
  | [] => POk RSuiteCli
  | s :: rest =>
      if String.eqb s (kw_spec kw) && Nat.eqb (List.length rest) 0 then POk RSuiteSpec else
      match find (fun h => String.eqb (sh_name h) s) (ah_suite_sections a) with
      | None => PHelpError
      | Some h =>
          match rest with
          | [] => POk (RSuiteSection s)
          | [name] => match sh_instructions h with
                      | None => PHelpError
                      | Some keys => match lookup name keys with
                                     | Found k _ => POk (RSuiteInstruction k)
                                     | _ => PHelpError
                                     end
                      end
          | _ => PHelpError
          end
      end
  end.

Definition parse_instruction_in_phase (kw : keywords) (a : app_help) (phase name : string) : parse_result :=
  match dict_get phase (phase_dict a) with
  | None => PHelpError
  | Some h => match sh_instructions h with
              | None => PHelpError
              | Some keys =>
                  if String.eqb name (kw_instructions kw) then POk (RPhaseInstructionList phase)
                  else match lookup name keys with
                       | Found k exact => POk (RInstruction k (negb exact))
                       | _ => PHelpError
                       end
              end
  end.

Definition parse_instruction_search (a : app_help) (name : string) : parse_result :=
  let phases := flat_map (fun h => match sh_instructions h with
                                   | Some keys => if mem name keys then [sh_name h] else []
                                   | None => []
                                   end) (ah_phases a) in
  match phases with
  | [] => PHelpError
  | _ => POk (RInstructionSearch name phases)
  end.

(** Parser.apply *)
Definition parse_help (kw : keywords) (a : app_help) (args : list string) : parse_result :=
  match args with
  | [] => POk RProgram
  | a0 :: rest =>
      let c := lower a0 in
      if String.eqb c (kw_help kw) then POk RHelpHelp
      else if dict_mem c (entity_dict a) then parse_entity_help a c rest
      else if String.eqb c (kw_htmldoc kw) then match rest with [] => POk RHtmlDoc | _ => PHelpError end
      else if String.eqb c (kw_case kw) then
             match rest with
             | [] => POk RCaseCli
             | [x] => if String.eqb x (kw_spec kw) then POk RCaseSpec else PHelpError
             | _ => PHelpError
             end
      else if String.eqb c (kw_suite kw) then parse_suite_help kw a rest
      else if String.eqb c (kw_symbol kw) then match rest with [] => POk RSymbol | _ => PHelpError end
      else match rest with
           | [x] => parse_instruction_in_phase kw a c x
           | _ :: _ => PHelpError
           | [] =>
               if String.eqb c (kw_instructions kw) then POk RInstructionSet
               else if dict_mem c (phase_dict a) then POk (RPhase c)
               else parse_instruction_search a c
           end
  end.

(** ** help/html_doc/cross_ref_target_renderer.py : HtmlTargetRenderer *)
Inductive cross_ref :=
| XEntity (entity_type entity_name : string)
| XPhase (phase : string)
| XPhaseInstruction (phase instruction : string)
| XSuiteSection (section : string)
| XSuiteSectionInstruction (section instruction : string)
| XCustom (target : string)
| XPredefinedPart (part : string).

Fixpoint replace_space (s : string) : string :=
  match s with
  | EmptyString => EmptyString
  | String c r => String (if Ascii.eqb c " "%char then "-"%char else c) (replace_space r)
  end.

Definition html_target (x : cross_ref) : string :=
  match x with
  | XEntity t n => "entity" ++ "." ++ t ++ "." ++ replace_space n
  | XPhase p => "test-case.phase." ++ p
  | XPhaseInstruction p i => "test-case.instruction." ++ p ++ "." ++ i
  | XSuiteSection s => "test-suite.section." ++ s
  | XSuiteSectionInstruction s i => "test-suite.instruction." ++ s ++ "." ++ i
  | XCustom t => "custom." ++ t
  | XPredefinedPart p => "help-part." ++ p
  end.

(** ** The regenerated inventory (types; the data is in Gen/C20_inventory.v) *)
(** one way of running a test case (`exactly CASE`, `--act`, `--keep`, `--suite S CASE`, implicit exactly.suite,
    `exactly suite S`, `exactly symbol CASE`): the names probed in that way and those the program accepted *)
Record mode_obs := {
  mo_mode : string;
  mo_probed : list string;
  mo_accepted : list string
}.

Record phase_inv := {
  pi_name : string;
  pi_in_help : bool;                        (* the help has a phase of that name *)
  pi_has_dict : bool;                       (* the program has a parser dictionary for the phase *)
  pi_dict : list (string * string);         (* (dictionary key, instruction_name() of the value's documentation) *)
  pi_accepted : list string;                (* candidates the running program does not call unknown *)
  pi_has_help_instr : bool;                 (* SectionDocumentation.has_instructions *)
  pi_help_struct : list string;             (* instruction_set.instruction_documentations, in order *)
  pi_help_keys : list string;               (* keys of name_2_description *)
  pi_help_rendered : list string;           (* parsed from `exactly help PHASE instructions` *)
  pi_help_rendered_all : list string;       (* parsed from `exactly help instructions`, under [PHASE] *)
  pi_modes : list mode_obs                  (* a complete use of each accepted name, in every other way of running a case *)
}.

Record suite_inv := {
  si_name : string;
  si_takes_names : bool;                    (* false: the section takes arbitrary text (file names, act source) *)
  si_own_dict : list (string * string);
  si_corresponds : list string;             (* case phases the section's documentation points to ("see also") *)
  si_accepted : list string;
  si_has_help_instr : bool;
  si_help_struct : list string;
  si_help_keys : list string;
  si_modes : list mode_obs                  (* the names written with an instruction description in front *)
}.

Record entity_inv := {
  ei_type : string;
  ei_accepted : list string;                (* what the running program accepts / has *)
  ei_help_struct : list string;             (* entities_help.all_entities *)
  ei_help_rendered : list string;           (* parsed from `exactly help TYPE` *)
  ei_modes : list mode_obs                  (* acceptance in every other way of running a case (where that means something) *)
}.

Record help_run := {
  hr_argv : list string;
  hr_expected_valid : bool;                 (* enumerated as a request for something that exists? *)
  hr_exit : Z;
  hr_nonempty : bool;
  hr_exception : bool                       (* an exception escaped MainProgram.execute *)
}.

Record inventory := {
  inv_kw : keywords;
  inv_exit_ok : Z;
  inv_exit_invalid_usage : Z;
  inv_candidates : list string;
  inv_phases : list phase_inv;
  inv_suite_sections : list suite_inv;
  inv_entity_types_program : list string;   (* all_entity_types.ALL_ENTITY_TYPES_IN_DISPLAY_ORDER *)
  inv_entities : list entity_inv;           (* one per key of entity_type_id_2_entity_type_conf *)
  inv_requests : list help_run;
  inv_html_ids : list string;
  inv_html_hrefs : list string              (* internal hrefs, without '#', with repetitions *)
}.

(** the argument parser's view of the inventory *)
Definition app_of (i : inventory) : app_help := {|
  ah_entities := map (fun e => (ei_type e, ei_help_struct e)) (inv_entities i);
  ah_phases := map (fun p => {| sh_name := pi_name p;
                                sh_instructions := if pi_has_help_instr p then Some (pi_help_keys p) else None |})
                   (filter pi_in_help (inv_phases i));
  ah_suite_sections := map (fun s => {| sh_name := si_name s;
                                        sh_instructions := if si_has_help_instr s then Some (si_help_keys s) else None |})
                           (inv_suite_sections i) |}.

Definition find_phase (i : inventory) (name : string) : option phase_inv :=
  find (fun p => String.eqb (pi_name p) name) (inv_phases i).
Definition find_suite_section (i : inventory) (name : string) : option suite_inv :=
  find (fun s => String.eqb (si_name s) name) (inv_suite_sections i).

(** what the model says the parser of a case phase / suite section accepts, from the observed dictionaries *)
Definition model_accepts_case (i : inventory) (phase name : string) : option bool :=
  match find_phase i phase with
  | Some p => if pi_has_dict p then Some (parser_accepts (obs_dict (pi_dict p)) name)
              else Some false   (* a name the help gives a phase that the parser does not have: nothing is accepted there *)
  | None => None
  end.

Definition phase_dicts_of (i : inventory) (phases : list string) : list (dict (unit * string)) :=
  flat_map (fun n => match find_phase i n with
                     | Some p => if pi_has_dict p then [obs_dict (pi_dict p)] else []
                     | None => []
                     end) phases.

Definition model_accepts_suite (i : inventory) (section name : string) : option bool :=
  match find_suite_section i section with
  | Some s => if si_takes_names s
              then Some (sequence_accepts (obs_dict (si_own_dict s) :: phase_dicts_of i (si_corresponds s)) name)
              else None
  | None => None
  end.

(** names the help documents for a suite section: its own list and, by reference, those of the case phases it
    says it corresponds to *)
Definition suite_documented (i : inventory) (s : suite_inv) : list string :=
  si_help_struct s ++ flat_map (fun n => match find_phase i n with Some p => pi_help_struct p | None => [] end)
                               (si_corresponds s).

Definition exit_of (i : inventory) (r : parse_result) : Z :=
  match r with POk _ => inv_exit_ok i | PHelpError => inv_exit_invalid_usage i end.
