(** * Model for property C18: error routing, integer expressions, replacement templates.

    Executable definitions only.  Mirrors (structure, branch order):

    (a) routing of exceptions through the [try]/[except] chains of
      - section_document/element_parsers/parser_for_dictionary_of_instructions.py
            ([_extract_name], [_parse])
      - section_document/impl/document_parser.py ([read_section_elements_until_next_section_or_eof])
      - processing/processors.py ([_SourceReader.apply], [_Parser.apply] + [_ParseErrorHandler])
      - processing/processing_utils.py ([AccessorFromParts._apply],
            [ProcessorFromAccessorAndExecutor.apply])
      - execution/impl/single_instruction_executor.py ([execute_element])
      - execution/impl/phase_step_execution.py ([execute_action_and_catch_internal_error_exception])
      - execution/partial_execution/impl/act_helper.py ([ActHelper.parse])
      - execution/partial_execution/impl/executor.py ([execute]: the PhaseStepFailureException blocks)
      - test_suite/processing.py ([_process_case])
    (b) impls/types/integer/evaluate_integer.py ([python_evaluate]) over an abstract syntax of
        Python integer arithmetic (Python's own parser is not modelled: the harness renders the
        syntax tree to text);
    (c) impls/types/string_transformer/impl/replace/impl.py ([_StrReplacer._sub]) with CPython's
        [re._parser.parse_template] (3.12) as the classifier of replacement templates.

    The class names each [except] clause mentions are read from the source on every run
    (coq/Gen/C18_tables.v) and compared with the chains defined here (Props/C18.v). *)
From Coq Require Import ZArith NArith List Bool.
From Exactly Require Import Model.Outcome.
Import ListNotations.

(** ** Exception classes

    The classes named by the [except] clauses of the routing layers, the classes those layers
    raise, and the builtin classes that mistakes in a test case were seen to provoke. *)
Inductive pyexc :=
| EBaseException | ESystemExit | EKeyboardInterrupt | EException
(* exactly's own *)
| EHardError               (* test_case.hard_error.HardErrorException *)
| ESingleInstrInvalidArg   (* SingleInstructionInvalidArgumentException *)
| ESectionElementError | EUnrecognizedSES | ERecognizedSES
| EInvalidInstrSyntax | EUnknownInstr | EInvalidInstrArg | EArgParsingImpl
| EParseError | EFileSourceError | EFileAccessError
| EProcessError | EAccessorError | EPhaseStepFailure
| EActorParseException     (* test_case.phases.act.actor.ParseException *)
| ENotAnInteger
(* builtin *)
| ESyntaxError | EValueError | EUnicodeError | ETypeError | ENameError
| EArithmeticError | EZeroDivision | EOverflow
| ELookupError | EIndexError | EKeyError
| EReError | EMemoryError | ERuntimeError | ERecursionError | ENotImplemented
| EOSError | EFileNotFound | EAttributeError | EAssertionError.

Definition all_pyexc : list pyexc :=
  [EBaseException; ESystemExit; EKeyboardInterrupt; EException; EHardError; ESingleInstrInvalidArg;
   ESectionElementError; EUnrecognizedSES; ERecognizedSES; EInvalidInstrSyntax; EUnknownInstr;
   EInvalidInstrArg; EArgParsingImpl; EParseError; EFileSourceError; EFileAccessError; EProcessError;
   EAccessorError; EPhaseStepFailure; EActorParseException; ENotAnInteger; ESyntaxError; EValueError;
   EUnicodeError; ETypeError; ENameError; EArithmeticError; EZeroDivision; EOverflow; ELookupError;
   EIndexError; EKeyError; EReError; EMemoryError; ERuntimeError; ERecursionError; ENotImplemented;
   EOSError; EFileNotFound; EAttributeError; EAssertionError].

Definition pyexc_idx (e : pyexc) : N :=
  match e with
  | EBaseException => 0 | ESystemExit => 1 | EKeyboardInterrupt => 2 | EException => 3
  | EHardError => 4 | ESingleInstrInvalidArg => 5 | ESectionElementError => 6 | EUnrecognizedSES => 7
  | ERecognizedSES => 8 | EInvalidInstrSyntax => 9 | EUnknownInstr => 10 | EInvalidInstrArg => 11
  | EArgParsingImpl => 12 | EParseError => 13 | EFileSourceError => 14 | EFileAccessError => 15
  | EProcessError => 16 | EAccessorError => 17 | EPhaseStepFailure => 18 | EActorParseException => 19
  | ENotAnInteger => 20 | ESyntaxError => 21 | EValueError => 22 | EUnicodeError => 23 | ETypeError => 24
  | ENameError => 25 | EArithmeticError => 26 | EZeroDivision => 27 | EOverflow => 28 | ELookupError => 29
  | EIndexError => 30 | EKeyError => 31 | EReError => 32 | EMemoryError => 33 | ERuntimeError => 34
  | ERecursionError => 35 | ENotImplemented => 36 | EOSError => 37 | EFileNotFound => 38
  | EAttributeError => 39 | EAssertionError => 40
  end%N.

Definition pyexc_eqb (a b : pyexc) : bool := N.eqb (pyexc_idx a) (pyexc_idx b).

(** The direct base class ([__bases__[0]]; every class here has exactly one base in this list). *)
Definition parent (e : pyexc) : option pyexc :=
  match e with
  | EBaseException => None
  | ESystemExit | EKeyboardInterrupt | EException => Some EBaseException
  | EUnrecognizedSES | ERecognizedSES => Some ESectionElementError
  | EInvalidInstrSyntax | EUnknownInstr => Some EUnrecognizedSES
  | EInvalidInstrArg | EArgParsingImpl => Some ERecognizedSES
  | EFileSourceError | EFileAccessError => Some EParseError
  | EUnicodeError => Some EValueError
  | EZeroDivision | EOverflow => Some EArithmeticError
  | EIndexError | EKeyError => Some ELookupError
  | ERecursionError | ENotImplemented => Some ERuntimeError
  | EFileNotFound => Some EOSError
  | _ => Some EException
  end.

(** [e], its base, the base of its base, ... ([fuel] = number of steps; 5 reaches the root). *)
Fixpoint ancestors (fuel : nat) (e : pyexc) : list pyexc :=
  e :: match fuel with
       | O => []
       | S f => match parent e with None => [] | Some p => ancestors f p end
       end.

(** [issubclass(e, c)] *)
Definition subclass (e c : pyexc) : bool := existsb (pyexc_eqb c) (ancestors 5 e).

(** ** Exceptions with the payload the routing layers look at *)
Inductive payload :=
| PNone
| PAcc (a : access_error)    (* AccessorError.error *)
| PStep (s : fail_status).   (* PhaseStepFailureException.failure.status *)

Record exc := Exc { e_cls : pyexc; e_pl : payload }.

Inductive res (A : Type) :=
| Ret (a : A)
| Raise (e : exc).
Arguments Ret {A} _.
Arguments Raise {A} _.

(** What one [except] clause does. *)
Inductive hact (A : Type) :=
| HReraise                       (* [raise] *)
| HRaise (f : exc -> exc)        (* raise another exception *)
| HReturn (f : exc -> A).        (* return a value *)
Arguments HReraise {A}.
Arguments HRaise {A} _.
Arguments HReturn {A} _.

(** One clause: the classes it names ([except (A, B)]) and its action. *)
Definition handler (A : Type) : Type := list pyexc * hact A.

Definition clause_matches (cs : list pyexc) (e : exc) : bool := existsb (subclass (e_cls e)) cs.

(** Python's [try: ... except C1: ... except C2: ...]: the first clause naming a base class of the
    exception's class handles it; with no such clause the exception propagates. *)
Fixpoint handle {A} (chain : list (handler A)) (e : exc) : res A :=
  match chain with
  | [] => Raise e
  | (cs, a) :: rest =>
      if clause_matches cs e
      then match a with
           | HReraise => Raise e
           | HRaise f => Raise (f e)
           | HReturn f => Ret (f e)
           end
      else handle rest e
  end.

Definition try_ {A} (chain : list (handler A)) (r : res A) : res A :=
  match r with
  | Ret a => Ret a
  | Raise e => handle chain e
  end.

(** an exception passing through code without handlers, at another result type *)
Definition pass {A B} (r : res A) (k : A -> res B) : res B :=
  match r with
  | Ret a => k a
  | Raise e => Raise e
  end.

Definition mk (c : pyexc) : exc -> exc := fun _ => Exc c PNone.

(** ** The chains (one per anchored function; the class lists are tied to the source) *)

(** [InstructionParserForDictionaryOfInstructions._extract_name] *)
Definition chain_extract_name : list (handler unit) :=
  [([EException], HRaise (mk EInvalidInstrSyntax))].

(** [InstructionParserForDictionaryOfInstructions._parse] *)
Definition chain_instr_parse : list (handler unit) :=
  [([ESingleInstrInvalidArg], HRaise (mk EInvalidInstrArg));
   ([EException], HRaise (mk EArgParsingImpl))].

(** [ParserFromSequenceOfParsers.parse]: an unrecognised-element error of the last parser tried
    (the instruction parser) is raised again after the loop. *)
Definition chain_seq_parsers : list (handler unit) :=
  [([EUnrecognizedSES], HReraise)].

(** [document_parser ... read_section_elements_until_next_section_or_eof] *)
Definition chain_doc_parser : list (handler unit) :=
  [([ESectionElementError], HRaise (mk EFileSourceError))].

(** [processors._Parser.apply] with [_ParseErrorHandler]: source error -> ProcessError,
    access error -> AccessorError(FILE_ACCESS_ERROR). *)
Definition chain_parser_apply : list (handler unit) :=
  [([EParseError],
    HRaise (fun e => if subclass (e_cls e) EFileAccessError
                     then Exc EAccessorError (PAcc FILE_ACCESS_ERROR)
                     else Exc EProcessError PNone))].

(** [processors._SourceReader.apply] ([IOError] is [OSError]) *)
Definition chain_source_reader : list (handler unit) :=
  [([EOSError], HRaise (mk EProcessError))].

(** [AccessorFromParts._apply(f, error_type, ...)] *)
Definition chain_accessor_apply (t : access_error) : list (handler unit) :=
  [([EProcessError], HRaise (fun _ => Exc EAccessorError (PAcc t)))].

(** What [ProcessorFromAccessorAndExecutor.apply] returns; the flags of an executed result that
    the exit value does not depend on are left out. *)
Inductive pres :=
| RAccess (a : access_error)
| RExecuted (s : full_status)
| RInternal.

(** [ProcessorFromAccessorAndExecutor.apply]: the inner [try] around the accessor ... *)
Definition chain_processor_inner : list (handler pres) :=
  [([EAccessorError],
    HReturn (fun e => match e_pl e with PAcc a => RAccess a | _ => RInternal end))].
(** ... and the outer last-resort [try]. *)
Definition chain_processor_outer : list (handler pres) :=
  [([EException], HReturn (fun _ => RInternal))].

(** [single_instruction_executor.execute_element] *)
Definition chain_execute_element : list (handler fail_status) :=
  [([EHardError], HReturn (fun _ => FHard));
   ([EException], HReturn (fun _ => FInternal))].

(** [phase_step_execution.execute_action_and_catch_internal_error_exception] *)
Definition chain_action : list (handler unit) :=
  [([EPhaseStepFailure], HReraise);
   ([EHardError], HRaise (fun _ => Exc EPhaseStepFailure (PStep FHard)));
   ([EException], HRaise (fun _ => Exc EPhaseStepFailure (PStep FInternal)))].

(** [ActHelper.parse]: the actor's ParseException is a syntax error *)
Definition chain_act_parse : list (handler unit) :=
  [([EActorParseException], HRaise (fun _ => Exc EPhaseStepFailure (PStep FSyntax)))].

(** [executor._PartialExecutor.execute]: every [except PhaseStepFailureException as ex: return
    self._final_failure_result_from(ex.failure)] *)
Definition chain_executor : list (handler (option fail_status)) :=
  [([EPhaseStepFailure],
    HReturn (fun e => match e_pl e with PStep s => Some s | _ => Some FInternal end))].

(** [test_suite.processing._process_case] *)
Definition chain_suite_process_case : list (handler pres) :=
  [([EException], HReturn (fun _ => RInternal))].

(** ** Where an exception is raised *)
Inductive site :=
| SSourceRead     (* reading the test case file *)
| SNameExtract    (* the instruction-name extractor, on an instruction line *)
| SInstrParse     (* the [parse] method of an instruction's parser *)
| SSectionParser  (* the element parser of a section, outside an instruction parser (e.g. the act phase's) *)
| SDocParser      (* elsewhere in the document parser: what leaves it (unknown phase, syntax of a phase header, ...) *)
| SConfInstr      (* [main] of a [conf] instruction *)
| SInstrStep      (* symbol-usages / validate-pre-sds / validate-post-setup / main of an instruction
                     of [setup], [before-assert], [assert], [cleanup] *)
| SActParse       (* the actor's [parse] *)
| SActStep        (* symbol-usages / validate / prepare / execute of the action to check *)
| SSdsSetup.      (* construction of the sandbox, between the guarded blocks of the executor *)

Definition all_site := [SSourceRead; SNameExtract; SInstrParse; SSectionParser; SDocParser; SConfInstr; SInstrStep;
                        SActParse; SActStep; SSdsSetup].

(** The accessor ([AccessorFromParts.apply]) for an exception raised while reading / parsing. *)
Definition accessor (s : site) (e : exc) : res unit :=
  match s with
  | SSourceRead =>
      try_ (chain_accessor_apply FILE_ACCESS_ERROR) (try_ chain_source_reader (Raise e))
  | SNameExtract =>
      try_ (chain_accessor_apply ACC_SYNTAX_ERROR)
        (try_ chain_parser_apply
           (try_ chain_doc_parser (try_ chain_seq_parsers (try_ chain_extract_name (Raise e)))))
  | SInstrParse =>
      try_ (chain_accessor_apply ACC_SYNTAX_ERROR)
        (try_ chain_parser_apply
           (try_ chain_doc_parser (try_ chain_seq_parsers (try_ chain_instr_parse (Raise e)))))
  | SSectionParser =>
      try_ (chain_accessor_apply ACC_SYNTAX_ERROR) (try_ chain_parser_apply (try_ chain_doc_parser (Raise e)))
  | SDocParser =>
      try_ (chain_accessor_apply ACC_SYNTAX_ERROR) (try_ chain_parser_apply (Raise e))
  | _ => Ret tt
  end.

(** One step of a phase ([run_instructions_phase_step]): [execute_element] turns the exception into
    a status, which travels as a PhaseStepFailureException. *)
Definition instr_step (e : exc) : res unit :=
  match try_ chain_execute_element (Raise e) with
  | Ret st => Raise (Exc EPhaseStepFailure (PStep st))
  | Raise e' => Raise e'
  end.

(** The executor ([full_execution.execute]) for an exception raised while executing;
    [mode] is the [status] set by the [conf] phase. *)
Definition executor (mode : tc_status) (s : site) (e : exc) : res full_status :=
  match s with
  | SConfInstr =>
      (* execute_configuration_phase: [execute_phase] returns the failure, no exception involved *)
      pass (try_ chain_execute_element (Raise e))
           (fun st => Ret (full_status_of (Some st) mode None))
  | SInstrStep =>
      pass (try_ chain_executor (pass (instr_step e) (fun _ => Ret None)))
           (fun ps => Ret (full_status_of None mode ps))
  | SActParse =>
      pass (try_ chain_executor
              (pass (try_ chain_action (try_ chain_act_parse (Raise e))) (fun _ => Ret None)))
           (fun ps => Ret (full_status_of None mode ps))
  | SActStep =>
      pass (try_ chain_executor (pass (try_ chain_action (Raise e)) (fun _ => Ret None)))
           (fun ps => Ret (full_status_of None mode ps))
  | SSdsSetup => Raise e
  | _ => Ret PASS
  end.

(** [ProcessorFromAccessorAndExecutor.apply] *)
Definition processor (mode : tc_status) (s : site) (e : exc) : res pres :=
  try_ chain_processor_outer
    (pass (try_ chain_processor_inner (pass (accessor s e) (fun _ => Ret (RExecuted PASS))))
       (fun r =>
          match r with
          | RExecuted _ => pass (executor mode s e) (fun st => Ret (RExecuted st))
          | _ => Ret r
          end)).

(** Stand-alone run: the result reporter gets what [processor] returns; an exception that leaves
    [processor] leaves the program ([Raise] = uncaught). *)
Definition route (mode : tc_status) (s : site) (e : exc) : res pres := processor mode s e.

(** The same case as a member of a suite. *)
Definition route_suite (mode : tc_status) (s : site) (e : exc) : res pres :=
  try_ chain_suite_process_case (processor mode s e).

Definition proc_result_of (r : pres) : proc_result :=
  match r with
  | RAccess a => AccessErr a
  | RExecuted s => Executed s false None
  | RInternal => InternalErr
  end.

(** exit code and identifier of a routed result *)
Definition pres_exit (r : pres) : Z * ident := exit_value (proc_result_of r).

(** An exception as the layers can meet it: the two payload-carrying classes carry their payload. *)
Definition wf_exc (e : exc) : bool :=
  match e_cls e, e_pl e with
  | EAccessorError, PAcc _ => true
  | EAccessorError, _ => false
  | EPhaseStepFailure, PStep _ => true
  | EPhaseStepFailure, _ => false
  | _, PNone => true
  | _, _ => false
  end.

Definition all_payload : list payload :=
  PNone :: map PAcc all_access_error ++ map PStep all_fail_status.

Definition all_exc : list exc :=
  flat_map (fun c => map (Exc c) all_payload) all_pyexc.

Definition pres_eqb (a b : pres) : bool :=
  match a, b with
  | RAccess x, RAccess y => access_error_eqb x y
  | RExecuted x, RExecuted y => full_status_eqb x y
  | RInternal, RInternal => true
  | _, _ => false
  end.

Definition is_internal (r : pres) : bool :=
  match r with
  | RInternal | RExecuted INTERNAL_ERROR => true
  | _ => false
  end.

(** The table of class names per chain, in the form the source is read in: function -> its [try]
    statements in source order -> the clauses of each -> the classes a clause names. *)
Definition classes_of {A} (chain : list (handler A)) : list (list pyexc) := map fst chain.

(** ** (b) Integer expressions *)
Inductive binop := OAdd | OSub | OMul | OFloorDiv | OMod | OPow | OTrueDiv.

(** Result of Python's evaluation.  [RNonInt]: the evaluation yields a value that is not an [int]
    (float, complex) or raises an exception of float arithmetic (ZeroDivisionError, OverflowError,
    TypeError - all subclasses of Exception); float arithmetic itself is not modelled. *)
Inductive ires :=
| RInt (z : Z)
| RExc (c : pyexc)
| RNonInt.

Inductive iexpr :=
| IOracle (r : ires)   (* a text outside the modelled syntax (non-ASCII digit-like characters, calls,
                          garbage ...): what Python's own [eval] does with it, tabulated from the
                          running interpreter by the harness *)
| ILit (z : Z)         (* decimal literal, z >= 0 *)
| IFloatLit            (* a float literal (1.5, 1e3): a value that is not an int *)
| IName                (* an undefined name *)
| INeg (e : iexpr)     (* -e *)
| IPos (e : iexpr)     (* +e *)
| IInv (e : iexpr)     (* ~e *)
| IBin (op : binop) (a b : iexpr).

Local Open Scope Z_scope.

Definition int_binop (op : binop) (x y : Z) : ires :=
  match op with
  | OAdd => RInt (x + y)
  | OSub => RInt (x - y)
  | OMul => RInt (x * y)
  | OFloorDiv => if y =? 0 then RExc EZeroDivision else RInt (x / y)
  | OMod => if y =? 0 then RExc EZeroDivision else RInt (x mod y)
  | OPow => if 0 <=? y then RInt (x ^ y)
            else if x =? 0 then RExc EZeroDivision   (* 0 ** -1 *)
            else RNonInt                             (* int ** negative int is a float *)
  | OTrueDiv => if y =? 0 then RExc EZeroDivision else RNonInt
  end.

(** Operands are evaluated left to right; the first exception wins.  Once a non-int is involved
    the result is a non-int or an exception of class Exception ([RNonInt]). *)
Fixpoint py_eval (e : iexpr) : ires :=
  match e with
  | IOracle r => r
  | ILit z => RInt z
  | IFloatLit => RNonInt
  | IName => RExc ENameError
  | INeg a => match py_eval a with RInt x => RInt (- x) | r => r end
  | IPos a => py_eval a
  | IInv a => match py_eval a with RInt x => RInt (- x - 1) | r => r end
  | IBin op a b =>
      match py_eval a with
      | RExc c => RExc c
      | RInt x => match py_eval b with
                  | RExc c => RExc c
                  | RInt y => int_binop op x y
                  | RNonInt => RNonInt
                  end
      | RNonInt => RNonInt
      end
  end.

(** The exception classes the oracle leaves of an expression can raise. *)
Fixpoint oracle_excs (e : iexpr) : list pyexc :=
  match e with
  | IOracle (RExc c) => [c]
  | INeg a | IPos a | IInv a => oracle_excs a
  | IBin _ a b => oracle_excs a ++ oracle_excs b
  | _ => []
  end.

(** [python_evaluate]: the clauses after [eval]; [fixed = false] is the chain before commit 58541f0. *)
Definition chain_python_evaluate (fixed : bool) : list (handler Z) :=
  [([ESyntaxError], HRaise (mk ENotAnInteger));
   ([EValueError], HRaise (mk ENotAnInteger));
   ([ETypeError], HRaise (mk ENotAnInteger));
   ([ENameError], HRaise (mk ENotAnInteger))]
  ++ (if fixed then [([ENotAnInteger], HReraise); ([EException], HRaise (mk ENotAnInteger))] else []).

Inductive icls :=
| CValue (z : Z)
| CNotInt               (* NotAnIntegerException: reported as a validation error *)
| CEscapes (c : pyexc)  (* another exception leaves python_evaluate *)
| CUnmodelled.          (* float arithmetic with a chain that does not catch every Exception *)

Definition python_evaluate (fixed : bool) (e : iexpr) : icls :=
  match py_eval e with
  | RInt z => CValue z
  | RExc c =>
      match handle (chain_python_evaluate fixed) (Exc c PNone) with
      | Ret z => CValue z
      | Raise e' => if pyexc_eqb (e_cls e') ENotAnInteger then CNotInt else CEscapes (e_cls e')
      end
  | RNonInt =>
      (* a non-int value: [raise NotAnIntegerException(s)] inside the try, re-raised unchanged;
         or an exception of float arithmetic *)
      if clause_matches (concat (classes_of (chain_python_evaluate fixed))) (Exc EException PNone)
      then CNotInt else CUnmodelled
  end.

(** Effect of a text-driven argument on the step of the instruction that evaluates it. *)
Inductive sres :=
| SOk                      (* no failure caused by the argument *)
| SFail (s : fail_status)
| SUncaught (c : pyexc)    (* not an Exception: leaves execute_element (and everything above) *)
| SUnknown.                (* outside the model: float arithmetic with an old chain, oracle miss *)

(** through [execute_element] *)
Definition step_of_exception (e : exc) : sres :=
  match try_ chain_execute_element (Raise e) with
  | Ret st => SFail st
  | Raise e' => SUncaught (e_cls e')
  end.

(** What the integer argument does to the instruction's validation step ([IntegerSdv]'s validator
    turns NotAnIntegerException into a validation error; anything else goes through
    [execute_element]). *)
Definition integer_validation (fixed : bool) (e : iexpr) : sres :=
  match python_evaluate fixed e with
  | CValue _ => SOk
  | CNotInt => SFail FValidation
  | CEscapes c => step_of_exception (Exc c PNone)
  | CUnmodelled => SUnknown
  end.

Local Close Scope Z_scope.

(** ** (c) Replacement templates: [re._parser.parse_template] of CPython 3.12

    Characters are code points.  [ngroups] = [pattern.groups], [names] = keys of
    [pattern.groupindex]; [ident] answers [str.isidentifier] for names with a non-ASCII character
    (Unicode data base: an oracle; a miss is [TOracleMiss]). *)
Definition tchar := N.
Definition ttext := list tchar.

Inductive tres := TOk | TReError | TIndexError | TOracleMiss.

Local Open Scope N_scope.

Definition BSL : tchar := 92.
Definition is_digit (c : tchar) : bool := (48 <=? c) && (c <=? 57).
Definition is_oct (c : tchar) : bool := (48 <=? c) && (c <=? 55).
Definition is_ascii_letter (c : tchar) : bool := ((65 <=? c) && (c <=? 90)) || ((97 <=? c) && (c <=? 122)).
Definition digit_val (c : tchar) : N := c - 48.
(** keys of [ESCAPES]: \a \b \f \n \r \t \v \\ *)
Definition is_std_escape (c : tchar) : bool :=
  existsb (N.eqb c) [97; 98; 102; 110; 114; 116; 118; 92].

Fixpoint ttext_eqb (a b : ttext) : bool :=
  match a, b with
  | [], [] => true
  | x :: a', y :: b' => N.eqb x y && ttext_eqb a' b'
  | _, _ => false
  end.

Fixpoint decimal_val (acc : N) (t : ttext) : N :=
  match t with
  | [] => acc
  | c :: t' => decimal_val (10 * acc + digit_val c) t'
  end.

Definition is_ascii_ident_start (c : tchar) : bool := is_ascii_letter c || N.eqb c 95.
Definition is_ascii_ident (name : ttext) : bool :=
  match name with
  | [] => false
  | c :: r => is_ascii_ident_start c && forallb (fun d => is_ascii_ident_start d || is_digit d) r
  end.

Fixpoint assoc_ttext {B} (k : ttext) (l : list (ttext * B)) : option B :=
  match l with
  | [] => None
  | (k', v) :: l' => if ttext_eqb k k' then Some v else assoc_ttext k l'
  end.

Inductive tmode := MNorm | MName (acc_rev : ttext).

Section Template.
  Context (ngroups : N) (names : list ttext) (ident : list (ttext * bool)).

  (** [addgroup(index, pos)] (the MAXGROUPS test of the \g<N> branch raises the same class) *)
  Definition addgroup (index : N) (k : tres) : tres :=
    if ngroups <? index then TReError else k.

  (** after ">" of \g<name>: [rest] is what follows *)
  Definition group_name (name : ttext) (rest : ttext) (k : tres) : tres :=
    match name with
    | [] => TReError                                  (* missing group name *)
    | _ =>
      (* the tokenizer has read one token ahead: a lone backslash at the end raises first *)
      if ttext_eqb rest [BSL] then TReError
      else if forallb is_digit name then addgroup (decimal_val 0 name) k
      else
        let is_id := if forallb (fun c => c <? 128) name then Some (is_ascii_ident name)
                     else assoc_ttext name ident in
        match is_id with
        | None => TOracleMiss
        | Some false => TReError                      (* bad character in group name *)
        | Some true => if existsb (ttext_eqb name) names then k else TIndexError
        end
    end.

  Fixpoint template_go (m : tmode) (t : ttext) : tres :=
    match m, t with
    | MNorm, [] => TOk
    | MNorm, c :: r =>
        if N.eqb c BSL then
          match r with
          | [] => TReError                            (* bad escape (end of pattern) *)
          | d :: r' =>
              if N.eqb d 103 (* g *) then
                match r' with
                | lt :: r'' => if N.eqb lt 60 then template_go (MName []) r'' else TReError  (* missing < *)
                | [] => TReError
                end
              else if N.eqb d 48 then template_go MNorm r'   (* \0, \0o, \0oo: never an error *)
              else if is_digit d then
                match r' with
                | d2 :: r'' =>
                    if is_digit d2 then
                      match r'' with
                      | d3 :: _ =>
                          if is_oct d && is_oct d2 && is_oct d3
                          then if 255 <? 64 * digit_val d + 8 * digit_val d2 + digit_val d3
                               then TReError          (* octal escape value outside of range *)
                               else template_go MNorm r'
                          else addgroup (10 * digit_val d + digit_val d2) (template_go MNorm r')
                      | [] => addgroup (10 * digit_val d + digit_val d2) (template_go MNorm r')
                      end
                    else addgroup (digit_val d) (template_go MNorm r')
                | [] => addgroup (digit_val d) (template_go MNorm r')
                end
              else if is_std_escape d then template_go MNorm r'
              else if is_ascii_letter d then TReError  (* bad escape *)
              else template_go MNorm r'
          end
        else template_go MNorm r
    | MName _, [] => TReError                         (* missing >, unterminated name *)
    | MName acc, c :: r =>
        if N.eqb c BSL then TReError                  (* a backslash token inside the name: bad character / unterminated *)
        else if N.eqb c 62 (* > *) then group_name (rev acc) r (template_go MNorm r)
        else template_go (MName (c :: acc)) r
    end.

  Definition parse_template (t : ttext) : tres := template_go MNorm t.
End Template.

Local Close Scope N_scope.

(** [_StrReplacer._sub]: [fixed = false] is the code before commit 57480c0 (no [try] at all). *)
Definition chain_replace_sub (fixed : bool) : list (handler unit) :=
  if fixed then [([EReError; EIndexError], HRaise (mk EHardError))] else [].

(** Applying [replace REGEX TEMPLATE] to a text with at least one line, inside an instruction's
    main step. *)
Definition replace_step (fixed : bool) (ngroups : N) (names : list ttext) (ident : list (ttext * bool))
           (t : ttext) : sres :=
  let raised c := match try_ (chain_replace_sub fixed) (Raise (Exc c PNone)) with
                  | Ret _ => SOk
                  | Raise e' => step_of_exception e'
                  end in
  match parse_template ngroups names ident t with
  | TOk => SOk
  | TReError => raised EReError
  | TIndexError => raised EIndexError
  | TOracleMiss => SUnknown
  end.
