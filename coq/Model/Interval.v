(** * Model of the "interval with inversion" algebra and of the matcher-interval analysis.

    Mirrors (file by file, branch by branch):
      - exactly_lib/util/interval/w_inversion/intervals.py      (classes -> [c_*] constructors)
      - exactly_lib/util/interval/w_inversion/combinations.py   ([union], [intersection], [of_])
      - exactly_lib/impls/types/condition/comparators.py        ([cmp_interval])
      - exactly_lib/impls/types/interval/matcher_interval.py    ([eval], [eval_neg], [bin_op])
      - exactly_lib/impls/types/line_matcher/model_construction.py ([adapt_to_line_num_range], reader)
      - exactly_lib/impls/types/line_matcher/impl/line_number.py, line_nums_interval.py

    This file contains executable definitions ONLY (no proofs), so that the correspondence
    check can still run it when a proof is broken. *)
From Coq Require Import ZArith List Bool.
Import ListNotations.
Local Open Scope Z_scope.

(** A plain [IntInterval]: empty, or non-empty with optional (inclusive) bounds. *)
Inductive itv := Emp | NE (lo hi : option Z).

(** An [IntIntervalWInversion] object.  Every such Python object is observed only through
    [is_empty]/[lower]/[upper] (its plain part, [pos]) and through [.inversion], of which in
    turn only the plain part and [.inversion] (giving back the object) are observed; so a
    pair of plain intervals represents it exactly. *)
Record wi := WI { pos : itv; inv : itv }.

Definition inversion (a : wi) : wi := WI (inv a) (pos a).

(** The classes of intervals.py with the inversion each class implements. *)
Definition c_empty : wi := WI Emp (NE None None).
Definition c_unlimited : wi := WI (NE None None) Emp.
Definition c_upper (u : Z) : wi := WI (NE None (Some u)) (NE (Some (u + 1)) None).
Definition c_lower (l : Z) : wi := WI (NE (Some l) None) (NE None (Some (l - 1))).
Definition c_finite (l u : Z) : wi := WI (NE (Some l) (Some u)) (NE None None).
(** [WithCustomInversion(p, i)]: only the plain parts of [p] and [i] are ever read. *)
Definition custom (p i : wi) : wi := WI (pos p) (pos i).
Definition c_point (x : Z) : wi := c_finite x x.
Definition unlimited_with_unlimited_inversion : wi := custom c_unlimited c_unlimited.
Definition unlimited_with_finite_inversion (f : wi) : wi := custom c_unlimited f.

(** combinations._of *)
Definition of_ (lo hi : option Z) : wi :=
  match lo, hi with
  | None, None => c_unlimited
  | None, Some u => c_upper u
  | Some l, None => c_lower l
  | Some l, Some u => c_finite l u
  end.

(** [len(non_none) != 2 -> None, else f] *)
Definition both (f : Z -> Z -> Z) (x y : option Z) : option Z :=
  match x, y with Some a, Some b => Some (f a b) | _, _ => None end.
(** [not non_none -> None, else f over those present] *)
Definition anyof (f : Z -> Z -> Z) (x y : option Z) : option Z :=
  match x, y with
  | Some a, Some b => Some (f a b)
  | Some a, None => Some a
  | None, Some b => Some b
  | None, None => None
  end.

Definition union (a b : wi) : wi :=
  match pos a, pos b with
  | Emp, _ => b
  | _, Emp => a
  | NE la ua, NE lb ub => of_ (both Z.min la lb) (both Z.max ua ub)
  end.

Definition intersection (a b : wi) : wi :=
  match pos a, pos b with
  | Emp, _ => a
  | _, Emp => b
  | NE la ua, NE lb ub =>
      let lo := anyof Z.max la lb in
      let hi := anyof Z.min ua ub in
      match lo, hi with
      | Some l, Some u => if l >? u then c_empty else of_ lo hi
      | _, _ => of_ lo hi
      end
  end.

(** functools.reduce(op, x :: xs) for a non-empty operand list *)
Definition reduce (op : wi -> wi -> wi) (x : wi) (xs : list wi) : wi := fold_left op xs x.

(** comparators.py: the interval of [<op> rhs] *)
Inductive cmp := CEq | CNe | CLt | CLe | CGt | CGe.

Definition cmp_interval (c : cmp) (x : Z) : wi :=
  match c with
  | CEq => c_point x
  | CNe => unlimited_with_finite_inversion (c_point x)
  | CLt => c_upper (x - 1)
  | CLe => c_upper x
  | CGt => c_lower (x + 1)
  | CGe => c_lower x
  end.

Definition cmp_holds (c : cmp) (lhs rhs : Z) : bool :=
  match c with
  | CEq => lhs =? rhs
  | CNe => negb (lhs =? rhs)
  | CLt => lhs <? rhs
  | CLe => lhs <=? rhs
  | CGt => lhs >? rhs
  | CGe => lhs >=? rhs
  end.

(** ** Matcher expressions.  [Conj]/[Disj] carry >= 1 operand by construction (the parser
    builds them with >= 2; [functools.reduce] without initial value needs >= 1). *)
Section Matchers.
  (** a leaf of the host type: for integer matchers a comparison, for line matchers
      [line-num IM] or a matcher of unknown class (contents). *)
  Variable leaf : Type.
  Inductive mexpr :=
  | MConst (b : bool)
  | MNeg (m : mexpr)
  | MConj (m : mexpr) (ms : list mexpr)
  | MDisj (m : mexpr) (ms : list mexpr)
  | MLeaf (l : leaf).

  (** Boolean semantics given the truth value of leaves. *)
  Variable leaf_holds : leaf -> bool.
  Fixpoint holds (m : mexpr) : bool :=
    match m with
    | MConst b => b
    | MNeg m => negb (holds m)
    | MConj m ms => holds m && forallb holds ms
    | MDisj m ms => holds m || existsb holds ms
    | MLeaf l => leaf_holds l
    end.

  (** *** _IntervalComputer / _NegationEvaluator.
      [leaf_interval l = Some i]: the leaf is a [WithIntInterval] whose [.interval] is [i];
      [None]: a matcher of unknown class. *)
  Variable leaf_interval : leaf -> option wi.
  Variable unknown : wi.               (* interval_of_unknown_class *)
  Variable adapt : wi -> wi.           (* interval_adaption *)

  (** [self._interval_of_unknown_class] as built in [_IntervalComputer.__init__] *)
  Definition unknown' : wi := custom (adapt unknown) (adapt (inversion unknown)).

  (** [_bin_op] after the fix: pos = reduce op of the operands, inversion = adapted reduce of
      the dual operator over the operands' inversions. *)
  Definition bin_op (op dual : wi -> wi -> wi) (x : wi) (xs : list wi) : wi :=
    let unadapted := reduce op x xs in
    let inversion_ := reduce dual (inversion x) (map inversion xs) in
    custom unadapted (adapt inversion_).

  (** [_bin_op] as it was before commit "fix: interval of negated &&/|| ...": the inversion is
      the one implied by the class of the combined interval. *)
  Definition bin_op_prefix (op : wi -> wi -> wi) (x : wi) (xs : list wi) : wi :=
    let unadapted := reduce op x xs in
    custom unadapted (adapt (inversion unadapted)).

  Section Eval.
    Variable fixed : bool.  (* true: the current code; false: the code before the fix *)
    Definition bin (op dual : wi -> wi -> wi) x xs :=
      if fixed then bin_op op dual x xs else bin_op_prefix op x xs.

    (** [eval m] = [m.accept(_IntervalComputer)];
        [eval_neg m] = [m.accept(_NegationEvaluator)] (not yet adapted).  The Python code
        builds the De Morgan dual ([Disjunction([Negation(o) ...])]) and evaluates it with
        [_IntervalComputer]; unfolding that one step gives the structural recursion below:
        visit_disjunction of the rebuilt node = bin union over [eval (Negation o)]
        = bin union over [adapt (eval_neg o)]. *)
    Fixpoint eval (m : mexpr) : wi :=
      match m with
      | MConst b => adapt (if b then c_unlimited else c_empty)
      | MNeg m => adapt (eval_neg m)
      | MConj m ms => bin intersection union (eval m) (map eval ms)
      | MDisj m ms => bin union intersection (eval m) (map eval ms)
      | MLeaf l => match leaf_interval l with
                   | Some i => adapt i
                   | None => unknown'
                   end
      end
    with eval_neg (m : mexpr) : wi :=
      match m with
      | MConst b => if negb b then c_unlimited else c_empty
      | MNeg m => eval m
      | MConj m ms => bin union intersection (adapt (eval_neg m)) (map (fun o => adapt (eval_neg o)) ms)
      | MDisj m ms => bin intersection union (adapt (eval_neg m)) (map (fun o => adapt (eval_neg o)) ms)
      | MLeaf l => match leaf_interval l with
                   | Some i => inversion i
                   | None => custom (inversion unknown') unknown'
                   end
      end.
  End Eval.
End Matchers.

Arguments MConst {leaf}. Arguments MNeg {leaf}. Arguments MConj {leaf}. Arguments MDisj {leaf}.
Arguments MLeaf {leaf}.

(** ** Integer matchers: leaves are comparisons ([ICmp]) or matchers of unknown class
    ([IUnknown k], value given by an oracle). *)
Inductive ileaf := ICmp (c : cmp) (rhs : Z) | IUnknown (k : nat).
Definition imatcher := mexpr ileaf.

Definition ileaf_interval (l : ileaf) : option wi :=
  match l with ICmp c rhs => Some (cmp_interval c rhs) | IUnknown _ => None end.
Definition ileaf_holds (oracle : nat -> Z -> bool) (x : Z) (l : ileaf) : bool :=
  match l with ICmp c rhs => cmp_holds c x rhs | IUnknown k => oracle k x end.

Definition no_adaption (x : wi) : wi := x.

(** line_number._get_int_interval_of_int_matcher *)
Definition interval_of_imatcher (fixed : bool) (m : imatcher) : wi :=
  eval ileaf ileaf_interval unlimited_with_unlimited_inversion no_adaption fixed m.

Definition imatches (oracle : nat -> Z -> bool) (m : imatcher) (x : Z) : bool :=
  holds ileaf (ileaf_holds oracle x) m.

(** ** Line matchers *)
Inductive lleaf := LNum (m : imatcher) | LUnknown (k : nat).
Definition lmatcher := mexpr lleaf.

Definition FIRST_LINE_NUMBER : Z := 1.

(** model_construction.adapt_to_line_num_range *)
Definition adapt_limit (x : Z) : Z := Z.max FIRST_LINE_NUMBER x.
Definition adapt_to_line_num_range (i : wi) : wi :=
  match pos i with
  | Emp => i
  | NE lo hi =>
      if match hi with Some u => u <? FIRST_LINE_NUMBER | None => false end then c_empty
      else
        let lower := option_map adapt_limit lo in
        let lower := match lower with
                     | Some l => if l =? FIRST_LINE_NUMBER then None else lower
                     | None => None end in
        let upper := option_map adapt_limit hi in
        match lower, upper with
        | None, None => c_unlimited
        | None, Some u => c_upper u
        | Some l, None => c_lower l
        | Some l, Some u => if l >? u then c_empty else c_finite l u
        end
  end.

Definition lleaf_interval (fixed : bool) (l : lleaf) : option wi :=
  match l with LNum m => Some (interval_of_imatcher fixed m) | LUnknown _ => None end.

(** line_nums_interval.interval_of_matcher (only the plain part of the result is used) *)
Definition interval_of_lmatcher (fixed : bool) (m : lmatcher) : wi :=
  eval lleaf (lleaf_interval fixed) unlimited_with_unlimited_inversion adapt_to_line_num_range fixed m.

(** A line-matcher model: (line number, contents).  Contents are abstract; matchers of unknown
    class are given by an oracle on (matcher id, line number, contents). *)
Section Lines.
  Variable line : Type.
  Variable ioracle : nat -> Z -> bool.
  Variable loracle : nat -> Z -> line -> bool.

  Definition lleaf_holds (n : Z) (l : line) (lf : lleaf) : bool :=
    match lf with LNum m => imatches ioracle m n | LUnknown k => loracle k n l end.
  Definition lmatches (m : lmatcher) (n : Z) (l : line) : bool :=
    holds lleaf (lleaf_holds n l) m.

  (** model_construction._lines_interval etc.: the numbered lines the reader yields. *)
  Fixpoint enumerate_from (n : Z) (ls : list line) : list (Z * line) :=
    match ls with [] => [] | l :: ls' => (n, l) :: enumerate_from (n + 1) ls' end.

  (** skip [k] lines ([for _ in lines: ln += 1; if ln == num_to_skip: break]) *)
  Fixpoint skip_lines (k : nat) (ls : list line) : list line :=
    match k, ls with
    | O, _ => ls
    | S k', [] => []
    | S k', _ :: ls' => skip_lines k' ls'
    end.
  (** yield lines numbered from [ln+1] until [is_last] *)
  Fixpoint take_until (upper : option Z) (ln : Z) (ls : list line) : list (Z * line) :=
    match ls with
    | [] => []
    | l :: ls' =>
        let ln' := ln + 1 in
        (ln', l) :: match upper with
                    | Some u => if ln' =? u then [] else take_until upper ln' ls'
                    | None => take_until upper ln' ls'
                    end
    end.

  Definition read_interval (i : itv) (ls : list line) : list (Z * line) :=
    match i with
    | Emp => []
    | NE None None => enumerate_from FIRST_LINE_NUMBER ls
    | NE lo hi =>
        let num_to_skip := match lo with None => 0 | Some l => l - 1 end in
        (* [if num_to_skip > 0] ... ; ln counts the skipped lines *)
        let k := Z.to_nat num_to_skip in
        let skipped := Nat.min k (length ls) in
        take_until hi (Z.of_nat skipped) (skip_lines k ls)
    end.

  (** filter/line_matcher._ContentsViaAsLines._transform_lines *)
  Definition filter_impl (fixed : bool) (m : lmatcher) (ls : list line) : list line :=
    map snd (filter (fun nl => lmatches m (fst nl) (snd nl))
               (read_interval (pos (interval_of_lmatcher fixed m)) ls)).

  (** The specification: keep exactly the lines the matcher accepts. *)
  Definition filter_spec (m : lmatcher) (ls : list line) : list line :=
    map snd (filter (fun nl => lmatches m (fst nl) (snd nl)) (enumerate_from 1 ls)).
End Lines.

(** Membership in a plain interval (used by specifications and by the property predicates
    evaluated on the implementation's output). *)
Definition mem (x : Z) (i : itv) : bool :=
  match i with
  | Emp => false
  | NE lo hi =>
      (match lo with Some l => l <=? x | None => true end) &&
      (match hi with Some u => x <=? u | None => true end)
  end.
