(** Model of the test-case document reader (property C07).  Executable definitions ONLY.

    Mirrors, in this order:
      exactly_lib/section_document/parse_source.py                       -> layer (a) [psrc], character level
      exactly_lib/section_document/syntax.py                             -> [is_empty_line] [is_comment_line] [is_header_line] [extract_section_name]
      processing/parse/act_phase_source_parser.py                        -> [un_escape] [act_step]
      section_document/element_parsers/section_element_parsers.py        -> comment/empty grouping [nonact_step], [instr_lines] (parse_and_compute_source)
      processing/parse/file_inclusion_directive_parser.py                -> [incl_step]
      element_parsers/optional_description_and_instruction_parser.py     -> [instr_step] [skip_cursor] [skip_lines] (as of fix 79a014d)
      element_parsers/parser_for_dictionary_of_instructions.py           -> [ending_at] (source of an error report)
      section_document/impl/document_parser.py                           -> [loop] (_Impl), [include_file] (parse_file, _include_files), [merge] (_add_raw_doc)
      section_document/source_location.py                                -> [loc], [fileinfo], chains

    The reader works on a file as the list of its lines (Python [contents.split('\n')]: always non-empty,
    a final "" after a terminating newline).  Characters are code points ([N]).
    What is NOT modelled and enters as a Section variable (oracle):
      [iparse]   : the instruction parsers of a phase (how many lines an instruction occupies / where its
                   parse error is reported);
      [fs]       : pathlib + the file system (normalised display of a path token, existence, resolved identity);
      [contents] : file contents by resolved identity. *)
From Coq Require Import NArith List Bool Arith.
Import ListNotations.
Local Open Scope N_scope.

Definition text := list N.

(** * Characters *)
Definition NL : N := 10.
Definition c_space : N := 32.
Definition c_tab : N := 9.
Definition c_hash : N := 35.
Definition c_lbr : N := 91.
Definition c_rbr : N := 93.
Definition c_bslash : N := 92.
Definition c_btick : N := 96.

(** Python [str.isspace]: the ASCII white space and the other code points Python 3.12 classifies as space
    (NEL, NBSP, U+1680, U+2000-200A, U+2028, U+2029, U+202F, U+205F, U+3000). *)
Definition is_space (c : N) : bool :=
  ((9 <=? c) && (c <=? 13)) || ((28 <=? c) && (c <=? 32)) ||
  (c =? 133) || (c =? 160) || (c =? 5760) || ((8192 <=? c) && (c <=? 8202)) ||
  (c =? 8232) || (c =? 8233) || (c =? 8239) || (c =? 8287) || (c =? 12288).
(** [\w] on ASCII *)
Definition is_word (c : N) : bool :=
  ((48 <=? c) && (c <=? 57)) || ((65 <=? c) && (c <=? 90)) || ((97 <=? c) && (c <=? 122)) || (c =? 95).
(** [[ \t]] *)
Definition is_sptab (c : N) : bool := (c =? c_space) || (c =? c_tab).

Fixpoint text_eqb (a b : text) : bool :=
  match a, b with
  | [], [] => true
  | x :: a', y :: b' => (x =? y) && text_eqb a' b'
  | _, _ => false
  end.

Fixpoint drop_while (p : N -> bool) (l : text) : text :=
  match l with
  | [] => []
  | c :: r => if p c then drop_while p r else l
  end.

Fixpoint take_while (p : N -> bool) (l : text) : text :=
  match l with
  | [] => []
  | c :: r => if p c then c :: take_while p r else []
  end.

Fixpoint count_while (p : N -> bool) (l : text) : nat :=
  match l with
  | [] => 0%nat
  | c :: r => if p c then S (count_while p r) else 0%nat
  end.

Definition rstrip (l : text) : text := rev (drop_while is_space (rev l)).

(** * syntax.py *)
(** EMPTY_LINE_RE = [ \t]*$ ; COMMENT_LINE_RE = [ \t]*# ; SECTION_LINE_RE = [ \t]*\[   (re.match) *)
Definition is_empty_line (l : text) : bool := forallb is_sptab l.
Definition is_comment_line (l : text) : bool :=
  match drop_while is_sptab l with c :: _ => c =? c_hash | [] => false end.
Definition is_header_line (l : text) : bool :=
  match drop_while is_sptab l with c :: _ => c =? c_lbr | [] => false end.
Definition is_empty_or_comment (l : text) : bool := is_empty_line l || is_comment_line l.

(** _SECTION_NAME_RE = \w[\w -.]*\w|\w : first a word character, then the longest run of characters of
    the class [\w -.] (the range from space to '.'), cut back to its last word character. *)
Definition in_name_class (c : N) : bool := is_word c || ((32 <=? c) && (c <=? 46)).
Definition trim_trailing_nonword (l : text) : text := rev (drop_while (fun c => negb (is_word c)) (rev l)).

(** [extract_section_name_from_section_line]: [None] = ValueError.  Precondition: [is_header_line l]. *)
Definition extract_section_name (l : text) : option text :=
  match drop_while is_sptab l with
  | _ :: after =>
      match after with
      | c :: r =>
          if is_word c then
            let name := c :: trim_trailing_nonword (take_while in_name_class r) in
            match skipn (length name) after with
            | c2 :: r2 => if (c2 =? c_rbr) && is_empty_line r2 then Some name else None
            | [] => None
            end
          else None
      | [] => None
      end
  | [] => None
  end.

(** * Sections (phases) and their names (checked against the running code by the harness). *)
Inductive sec := SConf | SSetup | SAct | SBefore | SAssert | SCleanup.
Definition all_secs : list sec := [SConf; SSetup; SAct; SBefore; SAssert; SCleanup].
Definition sec_eqb (a b : sec) : bool :=
  match a, b with
  | SConf, SConf | SSetup, SSetup | SAct, SAct | SBefore, SBefore | SAssert, SAssert | SCleanup, SCleanup => true
  | _, _ => false
  end.
Definition sec_name (s : sec) : text :=
  match s with
  | SConf => [99;111;110;102]                                       (* conf *)
  | SSetup => [115;101;116;117;112]                                 (* setup *)
  | SAct => [97;99;116]                                             (* act *)
  | SBefore => [98;101;102;111;114;101;45;97;115;115;101;114;116]   (* before-assert *)
  | SAssert => [97;115;115;101;114;116]                             (* assert *)
  | SCleanup => [99;108;101;97;110;117;112]                         (* cleanup *)
  end.
Definition sec_of_name (n : text) : option sec := find (fun s => text_eqb (sec_name s) n) all_secs.

Inductive header := HBad | HUnknown | HSec (s : sec).
Definition header_of (l : text) : header :=
  match extract_section_name l with
  | None => HBad
  | Some n => match sec_of_name n with None => HUnknown | Some s => HSec s end
  end.

(** * act_phase_source_parser.py *)
Definition un_escape_at_beginning (s : text) : text :=
  match s with
  | a :: b :: r => if (a =? c_bslash) && (b =? c_lbr) then c_lbr :: r
                   else if (a =? c_bslash) && (b =? c_bslash) then c_bslash :: r
                   else s
  | _ => s
  end.
Definition un_escape (s : text) : text :=
  match s with
  | [] => s
  | c :: _ =>
      if negb (is_space c) then un_escape_at_beginning s
      else let sp := take_while is_space s in
           let non := drop_while is_space s in
           match non with [] => sp | _ => sp ++ un_escape_at_beginning non end
  end.

(** * Lines, joining and splitting *)
Fixpoint join_lines (ls : list text) : text :=
  match ls with
  | [] => []
  | [l] => l
  | l :: r => l ++ NL :: join_lines r
  end.

(** Python [s.split('\n')]: never empty *)
Fixpoint split_lines_aux (cur : text) (s : text) : list text :=
  match s with
  | [] => [rev cur]
  | c :: r => if c =? NL then rev cur :: split_lines_aux [] r else split_lines_aux (c :: cur) r
  end.
Definition split_lines (s : text) : list text := split_lines_aux [] s.

(** Python [s.split()] (runs of white space separate, no empty tokens) *)
Fixpoint split_ws_aux (cur : text) (s : text) : list text :=
  match s with
  | [] => match cur with [] => [] | _ => [rev cur] end
  | c :: r => if is_space c
              then match cur with [] => split_ws_aux [] r | _ => rev cur :: split_ws_aux [] r end
              else split_ws_aux (c :: cur) r
  end.
Definition split_ws (s : text) : list text := split_ws_aux [] s.

(** index of the first occurrence *)
Fixpoint find_char (c : N) (l : text) : option nat :=
  match l with
  | [] => None
  | x :: r => if x =? c then Some 0%nat else option_map S (find_char c r)
  end.

(** * Source locations *)
Record lineseq := LineSeq { ls_first : N; ls_lines : list text }.
(** [SourceLocation] of an inclusion directive: the including file (as written) and the directive's line *)
Record loc := Loc { l_path : text; l_src : lineseq }.
Inductive ekind := KInstr | KComment | KEmpty.
Record element := Element {
  e_kind : ekind;
  e_src : lineseq;         (* element.source *)
  e_path : text;           (* source_location_info.file_path_rel_referrer *)
  e_chain : list loc;      (* source_location_info.file_inclusion_chain *)
  e_desc : option text }.  (* instruction_info.description (None: no description / not an instruction of a phase other than act) *)

Inductive access_why := Missing | Cyclic.
Inductive error :=
| ESource (s : option sec) (src : lineseq) (path : text) (chain : list loc)   (* FileSourceError *)
| EAccess (s : option sec) (path : text) (chain : list loc) (why : access_why) (* FileAccessError *)
| ECrash          (* an exception that is not a ParseError escapes (none is known after fix 79a014d; kept so that one is observable) *)
| EFuel           (* model artefact: out of fuel.  Proved unreachable (Proofs/DocTerm.v) *)
| EOracle.        (* model artefact: oracle miss / ill-formed oracle answer.  Fail-closed in the harness *)

Inductive res (A : Type) := Ok (a : A) | Err (e : error).
Arguments Ok {A} a.
Arguments Err {A} e.

(** Answer of the instruction parser of a phase applied at a position:
    [IOk k]      the instruction occupies [k >= 1] whole lines (from the position to the end of the k-th line);
    [IErrLine]   SectionElementError whose source is the current line (unknown instruction, invalid syntax);
    [IErrAt n]   InvalidInstructionArgumentException raised after [n] characters had been consumed;
    [IMiss]      the oracle table has no entry. *)
Inductive ires := IOk (k : nat) | IErrLine | IErrAt (n : nat) | IMiss.

Inductive fsres :=
| FsMiss
| FsEntry (display : text) (target : option (N * N)).  (* str(Path(token)); Some (resolved file id, directory id of the unresolved path) / None = cannot be read *)

(** Result of the element parser of a section at the current line *)
Inductive step :=
| SElem (k : ekind) (src : lineseq) (consumed : nat)   (* an element; [consumed >= 1] lines from the current one *)
| SIncl (src : lineseq) (tok : text)                   (* inclusion directive (one line) naming [tok] *)
| SErr (src : lineseq)                                 (* SectionElementError *)
| SCrash
| SOracle.

Definition rawdoc := sec -> list element.
Definition empty_doc : rawdoc := fun _ => [].
Definition add_elem (s : sec) (e : element) (d : rawdoc) : rawdoc :=
  fun s' => if sec_eqb s s' then d s' ++ [e] else d s'.
(** _add_raw_doc *)
Definition merge (d inc : rawdoc) : rawdoc := fun s => d s ++ inc s.

Record fileinfo := FileInfo {
  fi_path : text;          (* file_path_rel_referrer *)
  fi_chain : list loc;     (* file_inclusion_chain *)
  fi_dir : N }.            (* directory that inclusion paths are relative to *)

(** doc-level end of file with the column at 0: no current line, or the source string is empty *)
Definition at_eof (ls : list text) : bool :=
  match ls with
  | [] => true
  | [l] => match l with [] => true | _ => false end
  | _ => false
  end.

(** StandardSyntaxCommentAndEmptyLineParser._consume_and_return_current_line: the following lines
    while there is a current line (also the empty one after a final newline) satisfying the predicate *)
Fixpoint take_while_lines (p : text -> bool) (ls : list text) : list text :=
  match ls with [] => [] | l :: r => if p l then l :: take_while_lines p r else [] end.

(** ** _DescriptionExtractor: the description text.  The text between the opening back-tick (first non-space
      character of the element's first line) and the next back-tick — on the same or a later line, whatever the
      lines in between look like — with surrounding white space removed ([str.strip], newlines included). *)
Definition strip (t : text) : text := drop_while is_space (rstrip t).
Fixpoint desc_tail (ls : list text) : option text :=
  match ls with
  | [] => None
  | l :: r => match find_char c_btick l with
              | Some p => Some (NL :: firstn p l)
              | None => option_map (fun t => NL :: l ++ t) (desc_tail r)
              end
  end.
Definition instr_desc (l0 : text) (rest : list text) : option text :=
  match skipn (count_while is_space l0) l0 with
  | ch :: r0 =>
      if ch =? c_btick then
        match find_char c_btick r0 with
        | Some p => Some (strip (firstn p r0))
        | None => option_map (fun t => strip (r0 ++ t)) (desc_tail rest)
        end
      else None
  | [] => None
  end.
(** the description recorded with the element that starts at line [l0] of a phase *)
Definition elem_desc (s : sec) (l0 : text) (rest : list text) : option text :=
  match s with
  | SAct => None
  | _ => if is_empty_line l0 || is_comment_line l0 then None else instr_desc l0 rest
  end.

Section Reader.
  Variable iparse : sec -> text -> list text -> ires.
  Variable fs : N -> text -> fsres.
  Variable contents : N -> option (list text).

  (** ** ActPhaseParser.parse: everything up to the next header line or end of file is ONE element *)
  Fixpoint act_take (ls : list text) : list text :=
    match ls with
    | [] => []
    | l :: r => if at_eof ls then [] else if is_header_line l then [] else un_escape l :: act_take r
    end.
  Definition act_step (n : N) (l0 : text) (rest : list text) : step :=
    let ls := un_escape l0 :: act_take rest in
    SElem KInstr (LineSeq n ls) (length ls).

  (** ** _ErrMsgSourceConstructor.ending_at *)
  Definition ending_at (m : N) (lm : text) (c : nat) (restm : list text) (nchars : nat) : lineseq :=
    if (nchars <? length lm)%nat then LineSeq m [lm]
    else LineSeq m (split_lines (rstrip (firstn nchars (join_lines (skipn c lm :: restm))))).

  (** ** parse_and_compute_source + InstructionParserForDictionaryOfInstructions at line [m], column [c];
         [n] = line of the element parser's first line *)
  Definition instr_at (s : sec) (n m : N) (lm : text) (c : nat) (restm : list text) : step :=
    match iparse s (skipn c lm) restm with
    | IOk k =>
        match k with
        | O => SOracle
        | S k' => if (k' <=? length restm)%nat
                  then SElem KInstr (LineSeq m (skipn c lm :: firstn k' restm)) (N.to_nat (m - n) + k)
                  else SOracle
        end
    | IErrLine => SErr (LineSeq m [lm])
    | IErrAt nchars => SErr (ending_at m lm c restm nchars)
    | IMiss => SOracle
    end.

  (** ** _consume_space_and_comment_lines, the loop after the current line has been consumed *)
  Fixpoint skip_lines (s : sec) (n m : N) (err : lineseq) (ls : list text) : step :=
    match ls with
    | [] => SErr err
    | l :: r =>
        if at_eof ls then SErr err
        else if is_empty_or_comment l then skip_lines s n (m + 1) (LineSeq m [l]) r
        else instr_at s n m l (count_while is_space l) r
    end.

  (** _consume_space_and_comment_lines at line [m] column [c] *)
  Definition skip_cursor (s : sec) (n : N) (l0 : text) (m : N) (lm : text) (c : nat) (restm : list text) : step :=
    match skipn c lm, restm with
    | [], [] => SErr (LineSeq n [l0])                                (* is_at_eof *)
    | _, _ =>
        let c' := (c + count_while is_space (skipn c lm))%nat in
        if (c' <? length lm)%nat then instr_at s n m lm c' restm     (* not is_at_eol *)
        else skip_lines s n (m + 1) (LineSeq n [l0]) restm
    end.

  (** search the end delimiter in the following lines *)
  Fixpoint find_btick_lines (m : N) (ls : list text) : option (N * text * nat * list text) :=
    match ls with
    | [] => None
    | l :: r => match find_char c_btick l with
                | Some p => Some (m, l, S p, r)
                | None => find_btick_lines (m + 1) r
                end
    end.

  (** ** InstructionWithOptionalDescriptionParser.parse *)
  Definition instr_step (s : sec) (n : N) (l0 : text) (rest : list text) : step :=
    let c0 := count_while is_space l0 in
    match skipn c0 l0 with
    | [] => skip_cursor s n l0 n l0 c0 rest                          (* remaining_source[:1] is '' or a newline: no description *)
    | ch :: r0 =>
        if ch =? c_btick then
          match find_char c_btick r0 with
          | Some p => skip_cursor s n l0 n l0 (c0 + 1 + p + 1) rest
          | None => match find_btick_lines (n + 1) rest with
                    | Some (m, lm, c, restm) => skip_cursor s n l0 m lm c restm
                    | None => SErr (LineSeq n [l0])
                    end
          end
        else skip_cursor s n l0 n l0 c0 rest
    end.

  (** ** FileInclusionDirectiveParser.parse ([None] = not a directive) *)
  Definition including_token : text := [105;110;99;108;117;100;105;110;103].
  Definition incl_step (n : N) (l0 : text) : option step :=
    match split_ws l0 with
    | t :: args =>
        if text_eqb t including_token then
          match args with
          | [tok] => Some (SIncl (LineSeq n [l0]) tok)
          | _ => Some (SErr (LineSeq n [l0]))
          end
        else None
    | [] => None
    end.

  (** ** ParserFromSequenceOfParsers [comment/empty; inclusion; description+instruction] *)
  Definition nonact_step (s : sec) (n : N) (l0 : text) (rest : list text) : step :=
    if is_empty_line l0 then
      let more := take_while_lines is_empty_line rest in SElem KEmpty (LineSeq n (l0 :: more)) (S (length more))
    else if is_comment_line l0 then
      let more := take_while_lines is_comment_line rest in SElem KComment (LineSeq n (l0 :: more)) (S (length more))
    else match incl_step n l0 with
         | Some st => st
         | None => instr_step s n l0 rest
         end.

  Definition elem_step (s : sec) (n : N) (l0 : text) (rest : list text) : step :=
    match s with
    | SAct => act_step n l0 rest
    | _ => nonact_step s n l0 rest
    end.

  (** ** _Impl: the loops of apply / switch_section... / read_rest... / read_section_elements..., as one loop.
      [inc] = _include_files for the current file. *)
  Fixpoint loop (inc : sec -> lineseq -> text -> res rawdoc)
           (fuel : nat) (fi : fileinfo) (cur : sec) (n : N) (ls : list text) (doc : rawdoc) : res rawdoc :=
    match fuel with
    | O => Err EFuel
    | S fuel' =>
        match ls with
        | [] => Ok doc
        | l0 :: rest =>
            if at_eof ls then Ok doc
            else if is_header_line l0 then
              match header_of l0 with
              | HBad => Err (ESource None (LineSeq n [l0]) (fi_path fi) (fi_chain fi))
              | HUnknown => Err (ESource None (LineSeq n [l0]) (fi_path fi) (fi_chain fi))
              | HSec s => loop inc fuel' fi s (n + 1) rest doc
              end
            else
              match elem_step cur n l0 rest with
              | SElem k src consumed =>
                  loop inc fuel' fi cur (n + N.of_nat consumed) (skipn consumed ls)
                       (add_elem cur (Element k src (fi_path fi) (fi_chain fi) (elem_desc cur l0 rest)) doc)
              | SIncl src tok =>
                  match inc cur src tok with
                  | Ok d => loop inc fuel' fi cur (n + 1) rest (merge doc d)
                  | Err e => Err e
                  end
              | SErr src => Err (ESource (Some cur) src (fi_path fi) (fi_chain fi))
              | SCrash => Err ECrash
              | SOracle => Err EOracle
              end
        end
    end.

  Definition read_lines (inc : sec -> lineseq -> text -> res rawdoc) (fi : fileinfo) (default : sec) (ls : list text)
    : res rawdoc :=
    loop inc (S (length ls)) fi default 1 ls empty_doc.

  (** ** parse_file + _include_files.  [visited] = resolved identities of the chain of including files. *)
  Fixpoint include_file (depth : nat) (visited : list N) (fi : fileinfo) (cur : sec) (src : lineseq) (tok : text)
    : res rawdoc :=
    match depth with
    | O => Err EFuel
    | S depth' =>
        let chain' := fi_chain fi ++ [Loc (fi_path fi) src] in
        match fs (fi_dir fi) tok with
        | FsMiss => Err EOracle
        | FsEntry display None => Err (EAccess (Some cur) display chain' Missing)
        | FsEntry display (Some (fid, dir')) =>
            if existsb (N.eqb fid) visited then Err (EAccess (Some cur) display chain' Cyclic)
            else match contents fid with
                 | None => Err EOracle
                 | Some ls =>
                     let fi' := FileInfo display chain' dir' in
                     read_lines (include_file depth' (visited ++ [fid]) fi') fi' cur ls
                 end
        end
    end.

  (** the test case file [root] (display [path], in directory [dir]) with [nfiles] files on disk *)
  Definition parse_root (nfiles : nat) (root : N) (path : text) (dir : N) (ls : list text) : res rawdoc :=
    let fi := FileInfo path [] dir in
    read_lines (include_file nfiles [root] fi) fi SAct ls.
End Reader.

(** * Printed inclusion chain of a report (common/report_rendering/parts/source_location.py, file_inclusion_chain):
      every link (path as written, line) is printed as (directory of the referrer / path, line); the directory for the
      next link is the parent of what was printed.  Paths are lists of components (purely lexical, as pathlib). *)
Definition path := list text.
Fixpoint report_chain (dir : path) (links : list (path * N)) : list (path * N) :=
  match links with
  | [] => []
  | (p, n) :: r => (dir ++ p, n) :: report_chain (removelast (dir ++ p)) r
  end.

Definition c_dot : N := 46.
Fixpoint norm_path_aux (acc : path) (p : path) : path :=      (* os.path.normpath (relative paths), lexically *)
  match p with
  | [] => rev acc
  | c :: r => if text_eqb c [c_dot; c_dot] then norm_path_aux (tl acc) r
              else if text_eqb c [c_dot] then norm_path_aux acc r
              else norm_path_aux (c :: acc) r
  end.
Definition norm_path (p : path) : path := norm_path_aux [] p.
(** what is printed: os.path.normpath of (directory of the referrer / path); CASE is relative to the current directory *)
Definition printed_chain (links : list (path * N)) : list (path * N) :=
  map (fun e => (norm_path (fst e), snd e)) (report_chain [] links).

(** * Layer (a): ParseSource, character level *)
Record psrc := PSrc {
  ps_src : text;                (* source_string: from the start of the current line *)
  ps_col : nat;                 (* _column_index *)
  ps_line : option N;           (* _current_line_number *)
  ps_cur : text }.              (* _current_line_text ([] when there is no current line) *)

Definition first_line (s : text) : text := take_while (fun c => negb (c =? NL)) s.
(** the part after the first newline; [None] if there is none *)
Fixpoint after_first_nl (s : text) : option text :=
  match s with
  | [] => None
  | c :: r => if c =? NL then Some r else after_first_nl r
  end.

Definition ps_init (s : text) : psrc := PSrc s 0 (Some 1) (first_line s).
Definition ps_is_at_eof (p : psrc) : bool :=
  match ps_line p with None => true | Some _ => Nat.eqb (ps_col p) (length (ps_src p)) end.
Definition ps_has_current_line (p : psrc) : bool := match ps_line p with None => false | Some _ => true end.
Definition ps_remaining_source (p : psrc) : text := skipn (ps_col p) (ps_src p).
Definition ps_remaining_part_of_current_line (p : psrc) : text := skipn (ps_col p) (ps_cur p).
Definition ps_is_at_eol (p : psrc) : bool := Nat.eqb (ps_col p) (length (ps_cur p)).

(** [None] = ValueError *)
Definition ps_consume_part_of_current_line (k : nat) (p : psrc) : option psrc :=
  match ps_line p with
  | None => None   (* TypeError: len(None) *)
  | Some _ =>
      let n := (ps_col p + k)%nat in
      if (length (ps_cur p) <? n)%nat then None else Some (PSrc (ps_src p) n (ps_line p) (ps_cur p))
  end.

Definition ps_consume_initial_space (p : psrc) : option psrc :=
  match ps_line p with
  | None => None   (* TypeError: len(None) *)
  | Some _ => Some (PSrc (ps_src p) (ps_col p + count_while is_space (skipn (ps_col p) (ps_cur p))) (ps_line p) (ps_cur p))
  end.

Definition ps_consume_current_line (p : psrc) : option psrc :=
  match ps_line p with
  | None => None
  | Some n =>
      match after_first_nl (ps_src p) with
      | None => Some (PSrc [] 0 None [])
      | Some r => Some (PSrc r 0 (Some (n + 1)) (first_line r))
      end
  end.

Definition count_nl (s : text) : nat := length (filter (fun c => c =? NL) s).
(** index just after the last newline of [s] (0 if there is none) *)
Fixpoint after_last_nl (s : text) : nat :=
  match s with
  | [] => 0%nat
  | c :: r => let k := after_last_nl r in
              if (0 <? k)%nat then S k else if c =? NL then 1%nat else 0%nat
  end.

Definition ps_consume (k : nat) (p : psrc) : option psrc :=
  if (length (ps_src p) - ps_col p <? k)%nat then None
  else
    let remaining := skipn (ps_col p) (ps_src p) in
    let nl := count_nl (firstn k remaining) in
    match nl with
    | O => Some (PSrc (ps_src p) (ps_col p + k) (ps_line p) (ps_cur p))
    | _ =>
        match ps_line p with
        | None => None   (* unreachable: the source string is empty when there is no current line *)
        | Some n =>
            let idx := after_last_nl (firstn k remaining) in
            let src' := skipn idx remaining in
            Some (PSrc src' (k - idx) (Some (n + N.of_nat nl)) (first_line src'))
        end
    end.

Inductive psop := OpLine | OpConsume (k : nat) | OpPart (k : nat) | OpSpace.
Definition ps_apply (o : psop) (p : psrc) : option psrc :=
  match o with
  | OpLine => ps_consume_current_line p
  | OpConsume k => ps_consume k p
  | OpPart k => ps_consume_part_of_current_line k p
  | OpSpace => ps_consume_initial_space p
  end.
Fixpoint ps_run (ops : list psop) (p : psrc) : option psrc :=
  match ops with
  | [] => Some p
  | o :: r => match ps_apply o p with None => None | Some p' => ps_run r p' end
  end.
