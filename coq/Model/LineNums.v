(** * Model of [filter -line-nums RANGE...]

    Mirrors (file by file, branch by branch):
      - impls/types/string_transformer/impl/filter/line_nums/range_expr.py   ([range])
      - .../line_nums/range_merge.py   ([partition], [translate_neg_to_non_neg], [merge] with
        [_merge_segments], [_merge_head_to], [_merge_tail_from])
      - .../line_nums/sources.py       (the ten single-range streaming transformers with their
        "pocket" (a deque), [_limited]/[_skip]/[_filled_pocket], the multi-segment walker
        [_TransformMethodOfSegments], [_HandlerResolverForMultipleRangesWNegativeValues])
      - .../line_nums/transformers.py  ([_SingleRangeSourceConstructor] dispatch,
        [MultipleLineRangesTransformer.transform])
      - .../line_nums/resolvers.py     (one range -> single transformer, else multiple)

    A Python iterator over lines is a [list A] (the lines not yet consumed); a generator that
    shares the iterator with its caller returns the remaining list.  A deque is a list.
    [pocket.popleft()], [del pocket[0]] and [pocket[0]] raise IndexError on an empty deque: the
    result type of a transformer is [option (list A)] with [None] = "IndexError was raised"
    (never a default value).

    Executable definitions ONLY (no proofs). *)
From Coq Require Import ZArith List Bool.
Import ListNotations.
Local Open Scope Z_scope.

(** range_expr.py *)
Inductive range :=
| RSingle (n : Z)            (* SingleLineRange           N   *)
| RLower (lo : Z)            (* LowerLimitRange           N:  *)
| RUpper (hi : Z)            (* UpperLimitRange           :N  *)
| RBoth (lo hi : Z).         (* LowerAndUpperLimitRange   N:M *)

Definition from_to := (Z * Z)%type.

(** ** range_merge.py *)
Record partitioning := Part { head_to : list Z; segments : list from_to; tail_from : list Z }.

Record merged := Merged { m_head : option Z; m_body : list from_to; m_tail : option Z; m_is_empty : bool }.

Definition merged_empty : merged := Merged None [] None true.
Definition merged_everything : merged := Merged None [] None false.

Definition is_nil {X} (l : list X) : bool := match l with [] => true | _ => false end.
Definition is_none {X} (o : option X) : bool := match o with None => true | _ => false end.

Definition is_everything (m : merged) : bool :=
  negb (m_is_empty m) && is_none (m_head m) && is_none (m_tail m) && is_nil (m_body m).

Definition empty_partitioning : partitioning := Part [] [] [].

(** [_Partitioner]: ranges with non-negative values are appended to the output object, a range
    with a negative value is returned *)
Definition partition_one (r : range) (o : partitioning) : option range * partitioning :=
  match r with
  | RSingle n =>
      if n <? 0 then (Some r, o)
      else if negb (n =? 0) then (None, Part (head_to o) (segments o ++ [(n, n)]) (tail_from o))
      else (None, o)
  | RLower l =>
      if l <? 0 then (Some r, o)
      else (None, Part (head_to o) (segments o) (tail_from o ++ [Z.max 1 l]))
  | RUpper n =>
      if n <? 0 then (Some r, o)
      else if negb (n =? 0) then (None, Part (head_to o ++ [n]) (segments o) (tail_from o))
      else (None, o)
  | RBoth l u =>
      if (l <? 0) || (u <? 0) then (Some r, o)
      else if negb (u =? 0) then
             if l <=? 1 (* FIRST_LINE_NUMBER *)
             then (None, Part (head_to o ++ [u]) (segments o) (tail_from o))
             else (None, Part (head_to o) (segments o ++ [(l, u)]) (tail_from o))
           else (None, o)
  end.

(** [partition(ranges, output)]: returns the ranges with negative values (in order) *)
Fixpoint partition (rs : list range) (o : partitioning) : list range * partitioning :=
  match rs with
  | [] => ([], o)
  | r :: rs' =>
      let (mb, o1) := partition_one r o in
      let (negs, o2) := partition rs' o1 in
      (match mb with Some x => x :: negs | None => negs end, o2)
  end.

(** [_NegValuesTranslator._tr] *)
Definition tr (num_lines n : Z) : Z := if 0 <=? n then n else Z.max 0 (num_lines + n + 1).

Definition translate_one (num_lines : Z) (r : range) : range :=
  match r with
  | RSingle n => RSingle (tr num_lines n)
  | RLower l => RLower (tr num_lines l)
  | RUpper u => RUpper (tr num_lines u)
  | RBoth l u => RBoth (tr num_lines l) (tr num_lines u)
  end.

Definition translate_neg_to_non_neg (rs : list range) (num_lines : Z) : list range :=
  map (translate_one num_lines) rs.

(** [sorted(...)] on tuples of ints: lexicographic order (insertion sort; ties are equal tuples) *)
Definition lex_leb (x y : from_to) : bool :=
  (fst x <? fst y) || ((fst x =? fst y) && (snd x <=? snd y)).

Fixpoint insert_sorted (x : from_to) (l : list from_to) : list from_to :=
  match l with
  | [] => [x]
  | y :: l' => if lex_leb x y then x :: l else y :: insert_sorted x l'
  end.

Fixpoint sort_segments (l : list from_to) : list from_to :=
  match l with [] => [] | x :: l' => insert_sorted x (sort_segments l') end.

Definition is_valid_segment (x : from_to) : bool := fst x <=? snd x.

Definition can_be_one (first second : from_to) : bool := fst second <=? snd first + 1.

(** [_merge_segments(segments)] with [current = segments[0]], looping over [segments[1:]] *)
Fixpoint merge_segments_go (current : from_to) (rest : list from_to) : list from_to :=
  match rest with
  | [] => [current]
  | next :: rest' =>
      if can_be_one current next
      then merge_segments_go (fst current, Z.max (snd current) (snd next)) rest'
      else current :: merge_segments_go next rest'
  end.

(** [_merge_head_to(initial, segments, out)] = (returned initial, out) *)
Fixpoint merge_head_to (initial : Z) (segs : list from_to) : Z * list from_to :=
  match segs with
  | [] => (initial, [])
  | ft :: segs' =>
      if fst ft <=? initial + 1
      then merge_head_to (Z.max initial (snd ft)) segs'
      else let (i, out) := merge_head_to initial segs' in (i, ft :: out)
  end.

(** [_merge_tail_from(initial, segments, out)]: iterates [reversed(segments)]; a non-merged
    segment is inserted at the front of [out] *)
Definition merge_tail_step (st : Z * list from_to) (ft : from_to) : Z * list from_to :=
  let (initial, out) := st in
  if initial - 1 <=? snd ft then (Z.min initial (fst ft), out) else (initial, ft :: out).

Definition merge_tail_from (initial : Z) (segs : list from_to) : Z * list from_to :=
  fold_left merge_tail_step (rev segs) (initial, []).

Definition max_list (x : Z) (xs : list Z) : Z := fold_left Z.max xs x.
Definition min_list (x : Z) (xs : list Z) : Z := fold_left Z.min xs x.

Definition merge (p : partitioning) : merged :=
  let segs0 := sort_segments (filter is_valid_segment (segments p)) in
  let head0 := match head_to p with [] => None | x :: xs => Some (max_list x xs) end in
  let tail0 := match tail_from p with [] => None | x :: xs => Some (min_list x xs) end in
  if is_nil segs0 && is_none head0 && is_none tail0 then merged_empty
  else
    let segs1 := match segs0 with [] => [] | s :: ss => merge_segments_go s ss end in
    let '(head1, segs2) :=
      match head0 with
      | None => (None, segs1)
      | Some h => let (h', out) := merge_head_to h segs1 in (Some h', out)
      end in
    let '(tail1, segs3) :=
      match tail0 with
      | None => (None, segs2)
      | Some t => let (t', out) := merge_tail_from t segs2 in (Some t', out)
      end in
    let everything :=
      match tail1 with
      | None => false
      | Some t => (t =? 1) || match head1 with Some h => t <=? h + 1 | None => false end
      end in
    if everything then merged_everything
    else
      match head1, segs3 with
      | None, first :: rest =>
          if fst first =? 1 then Merged (Some (snd first)) rest tail1 false
          else Merged head1 segs3 tail1 false
      | _, _ => Merged head1 segs3 tail1 false
      end.

(** ** sources.py *)
(** outcome of a loop whose body may raise IndexError or [return] from the generator *)
Inductive step (X : Type) := IndexError | Return | Continue (x : X).
Arguments IndexError {X}. Arguments Return {X}. Arguments Continue {X} x.

Section Lines.
  Context {A : Type}.

  (** [_limited(iterator, size)]: (the elements yielded, the iterator afterwards) when the
      generator is run to its end *)
  Fixpoint limited_go (size : Z) (ls : list A) : list A * list A :=
    match ls with
    | [] => ([], [])
    | e :: ls' =>
        let size' := size - 1 in
        if size' =? 0 then ([e], ls')
        else let (t, r) := limited_go size' ls' in (e :: t, r)
    end.

  Definition limited (size : Z) (ls : list A) : list A * list A :=
    if size =? 0 then ([], ls) else limited_go size ls.

  Definition skip (num_lines : Z) (ls : list A) : list A := snd (limited num_lines ls).

  Definition filled_pocket (size : Z) (ls : list A) : list A * list A := limited size ls.

  Definition len (l : list A) : Z := Z.of_nat (length l).

  (** [pocket.popleft(); pocket.append(x)] *)
  Definition rotate (pocket : list A) (x : A) : option (list A) :=
    match pocket with [] => None | _ :: p' => Some (p' ++ [x]) end.

  (** [for next_line in lines: pocket.popleft(); pocket.append(next_line)] *)
  Fixpoint rotate_all (pocket : list A) (ls : list A) : option (list A) :=
    match ls with
    | [] => Some pocket
    | x :: ls' => match rotate pocket x with None => None | Some p' => rotate_all p' ls' end
    end.

  (** [for next_line in lines: pocket.popleft(); pocket.append(next_line); yield pocket[0]] *)
  Fixpoint rotate_yielding (pocket : list A) (ls : list A) : option (list A) :=
    match ls with
    | [] => Some []
    | x :: ls' =>
        match rotate pocket x with
        | None => None
        | Some p' =>
            match p' with
            | [] => None
            | y :: _ => match rotate_yielding p' ls' with None => None | Some out => Some (y :: out) end
            end
        end
    end.

  (** [for line in pocket: if num_to_produce == 0: return; yield line; num_to_produce -= 1] *)
  Fixpoint produce (num_to_produce : Z) (pocket : list A) : list A :=
    match pocket with
    | [] => []
    | l :: p' => if num_to_produce =? 0 then [] else l :: produce (num_to_produce - 1) p'
    end.

  (** _SingleNonNegIntTransformer *)
  Fixpoint single_non_neg_go (requested current : Z) (ls : list A) : list A :=
    match ls with
    | [] => []
    | l :: ls' => if requested =? current then [l] else single_non_neg_go requested (current + 1) ls'
    end.
  Definition single_non_neg (zero_based_line_num : Z) (ls : list A) : option (list A) :=
    Some (single_non_neg_go zero_based_line_num 0 ls).

  (** _SingleNegIntTransformer *)
  Definition single_neg (neg_line_num : Z) (ls : list A) : option (list A) :=
    let pocket_size := Z.abs neg_line_num in
    let (pocket, rest) := filled_pocket pocket_size ls in
    if len pocket <? pocket_size then Some []
    else match rotate_all pocket rest with
         | None => None
         | Some p => match p with [] => None | x :: _ => Some [x] end
         end.

  (** _UpperNonNegLimitTransformer *)
  Fixpoint upper_non_neg_go (limit current : Z) (ls : list A) : list A :=
    match ls with
    | [] => []
    | l :: ls' => l :: (if limit =? current then [] else upper_non_neg_go limit (current + 1) ls')
    end.
  Definition upper_non_neg (zero_based_upper_limit : Z) (ls : list A) : option (list A) :=
    Some (upper_non_neg_go zero_based_upper_limit 0 ls).

  (** _UpperNegLimitTransformer *)
  Definition upper_neg (neg_line_num : Z) (ls : list A) : option (list A) :=
    let pocket_size := Z.abs neg_line_num in
    let (pocket, rest) := filled_pocket pocket_size ls in
    if len pocket <? pocket_size then Some []
    else match pocket with
         | [] => None
         | x :: _ => match rotate_yielding pocket rest with None => None | Some out => Some (x :: out) end
         end.

  (** _LowerNonNegLimitTransformer *)
  Definition lower_non_neg (zero_based_lower_limit : Z) (ls : list A) : option (list A) :=
    Some (skip zero_based_lower_limit ls).

  (** _LowerNegLimitTransformer *)
  Definition lower_neg (neg_line_num : Z) (ls : list A) : option (list A) :=
    let pocket_size := Z.abs neg_line_num in
    let (pocket, rest) := filled_pocket pocket_size ls in
    rotate_all pocket rest.

  (** _LowerNonNegUpperNonNegTransformer *)
  Definition lower_non_neg_upper_non_neg (zb_lower zb_upper : Z) (ls : list A) : option (list A) :=
    let rest := skip zb_lower ls in
    let num_requested := zb_upper - zb_lower + 1 in
    Some (fst (limited num_requested rest)).

  (** _LowerNonNegUpperNegTransformer._forward_pocket_to_lower_limit:
      (pocket, lines afterwards, left_to_consume == 0) *)
  Fixpoint forward_go (pocket : list A) (left_to_consume : Z) (taken : list A) : option (list A * Z) :=
    match taken with
    | [] => Some (pocket, left_to_consume)
    | x :: taken' =>
        match rotate pocket x with
        | None => None
        | Some p' => forward_go p' (left_to_consume - 1) taken'
        end
    end.

  Definition lower_non_neg_upper_neg (zb_lower neg_upper : Z) (ls : list A) : option (list A) :=
    let upper_len := Z.abs neg_upper in
    let (pocket, rest) := filled_pocket upper_len ls in
    if len pocket <? upper_len then Some []
    else
      let (taken, rest') := limited zb_lower rest in
      match forward_go pocket zb_lower taken with
      | None => None
      | Some (pocket', left_to_consume) =>
          if negb (left_to_consume =? 0) then Some []
          else match pocket' with
               | [] => None
               | x :: _ => match rotate_yielding pocket' rest' with None => None | Some out => Some (x :: out) end
               end
      end.

  (** _LowerNegUpperNonNegTransformer: the loop
      [for line in lines: rotate; pocket_1st_idx += 1; if pocket_1st_idx > upper: return] *)
  Fixpoint lnun_go (upper : Z) (pocket : list A) (pocket_1st_idx : Z) (ls : list A) : step (list A * Z) :=
    match ls with
    | [] => Continue (pocket, pocket_1st_idx)
    | x :: ls' =>
        match rotate pocket x with
        | None => IndexError
        | Some p' =>
            let idx := pocket_1st_idx + 1 in
            if upper <? idx then Return else lnun_go upper p' idx ls'
        end
    end.

  Definition lower_neg_upper_non_neg (neg_lower zb_upper : Z) (ls : list A) : option (list A) :=
    let lower_len := Z.abs neg_lower in
    let (pocket, rest) := filled_pocket lower_len ls in
    match lnun_go zb_upper pocket 0 rest with
    | IndexError => None
    | Return => Some []
    | Continue (pocket', idx) => Some (produce (zb_upper - idx + 1) pocket')
    end.

  (** _LowerNegUpperNegTransformer *)
  Definition lower_neg_upper_neg (neg_lower neg_upper : Z) (ls : list A) : option (list A) :=
    let lower_len := Z.abs neg_lower in
    let upper_len := Z.abs neg_upper in
    let (pocket, rest) := filled_pocket lower_len ls in
    let num_non_existing_at_head := lower_len - len pocket in
    let lower_len' := if negb (num_non_existing_at_head =? 0) then lower_len - num_non_existing_at_head else lower_len in
    if negb (num_non_existing_at_head =? 0) && (lower_len' <? upper_len) then Some []
    else match rotate_all pocket rest with
         | None => None
         | Some pocket' => Some (produce (lower_len' - upper_len + 1) pocket')
         end.

  (** _TransformMethodOfSegments.
      [for line in lines: line_num += 1; yield line; if line_num == end: break]
      = (yielded, line_num afterwards, iterator afterwards) *)
  Fixpoint yield_until (end_ line_num : Z) (ls : list A) : list A * Z * list A :=
    match ls with
    | [] => ([], line_num, [])
    | l :: ls' =>
        let n := line_num + 1 in
        if n =? end_ then ([l], n, ls')
        else let '(out, n', r) := yield_until end_ n ls' in (l :: out, n', r)
    end.

  (** [for _ in lines: line_num += 1; if line_num == start_m1: break] *)
  Fixpoint skip_until (start_m1 line_num : Z) (ls : list A) : Z * list A :=
    match ls with
    | [] => (line_num, [])
    | _ :: ls' =>
        let n := line_num + 1 in
        if n =? start_m1 then (n, ls') else skip_until start_m1 n ls'
    end.

  Fixpoint walk_body (body : list from_to) (line_num : Z) (ls : list A) : list A * Z * list A :=
    match body with
    | [] => ([], line_num, ls)
    | seg :: body' =>
        let (n1, r1) := skip_until (fst seg - 1) line_num ls in
        let '(out, n2, r2) := yield_until (snd seg) n1 r1 in
        let '(out', n3, r3) := walk_body body' n2 r2 in
        (out ++ out', n3, r3)
    end.

  Definition walk_segments (head : option Z) (body : list from_to) (tail : option Z) (ls : list A) : list A :=
    let '(out_h, n0, r0) :=
      match head with
      | Some end_ => yield_until end_ 0 ls
      | None => ([], 0, ls)
      end in
    let '(out_b, n1, r1) := walk_body body n0 r0 in
    let out_t :=
      match tail with
      | Some t => snd (skip_until (t - 1) n1 r1)
      | None => []
      end in
    out_h ++ out_b ++ out_t.

  (** transformers.py: _SingleRangeSourceConstructor *)
  Definition single_range_transform (r : range) (ls : list A) : option (list A) :=
    match r with
    | RSingle n =>
        if n =? 0 then Some []
        else if 0 <? n then single_non_neg (n - 1) ls
        else single_neg n ls
    | RUpper limit =>
        if limit =? 0 then Some []
        else if 0 <? limit then upper_non_neg (limit - 1) ls
        else upper_neg limit ls
    | RLower limit =>
        if limit =? 0 then lower_non_neg limit ls
        else if 0 <? limit then lower_non_neg (limit - 1) ls
        else lower_neg limit ls
    | RBoth lower upper =>
        if upper =? 0 then Some []
        else if 0 <=? lower then
          if 0 <=? upper then
            (* _lower_and_upper__non_neg *)
            if upper <? lower then Some []
            else lower_non_neg_upper_non_neg (if 0 <? lower then lower - 1 else lower) (upper - 1) ls
          else
            (* _lower_non_neg__upper_neg *)
            lower_non_neg_upper_neg (if 0 <? lower then lower - 1 else lower) upper ls
        else
          if 0 <=? upper then
            (* _lower_neg__upper_non_neg *)
            lower_neg_upper_non_neg lower (if 0 <? upper then upper - 1 else upper) ls
          else
            (* _lower_and_upper__neg *)
            if upper <? lower then Some []
            else lower_neg_upper_neg lower upper ls
    end.

  (** the transformer chosen for merged ranges (both in [_model_for_non_negatives] and in
      [_HandlerResolverForMultipleRangesWNegativeValues._transform_method_for]) *)
  Definition transform_merged (m : merged) (ls : list A) : list A :=
    if m_is_empty m then []
    else if is_everything m then ls
    else walk_segments (m_head m) (m_body m) (m_tail m) ls.

  (** MultipleLineRangesTransformer.transform (a fresh Partitioning per application) *)
  Definition multiple_ranges_transform (rs : list range) (ls : list A) : option (list A) :=
    let (negatives, non_neg) := partition rs empty_partitioning in
    if is_nil negatives then
      Some (transform_merged (merge non_neg) ls)
    else
      (* _HandlerResolverForMultipleRangesWNegativeValues.resolve *)
      let num_lines := len ls in
      let translated := translate_neg_to_non_neg negatives num_lines in
      let (_, p) := partition translated non_neg in
      Some (transform_merged (merge p) ls).

  (** resolvers._LineNumRangeTransformerAdv.primitive *)
  Definition line_nums_transform (rs : list range) (ls : list A) : option (list A) :=
    match rs with
    | [r] => single_range_transform r ls
    | _ => multiple_ranges_transform rs ls
    end.
End Lines.
