(** Executable model of exactly's string sources (property C14).  DEFINITIONS ONLY.

    Mirrors (same branches, same order):
    - type_val_prims/string_source/{string_source,contents}.py       the StringSource / StringSourceContents interface
    - impls/types/string_source/cached_frozen.py                     StringSourceWithCachedFrozen, _FreezingStringSourceContents
    - impls/types/string_source/contents/frozen.py                   frozen__from_write, _StringSourceContentsOfConstStrAndExistingPath
    - util/file_utils/spooled_file.py                                SpooledTextFile.write / writelines / fileno (rollover)
    - impls/types/string_source/contents/contents_of_str.py          ContentsOfStr            (str.splitlines)
    - .../contents/contents_of_existing_path.py                      StringSourceContentsOfExistingPath (file iteration)
    - .../contents/contents_via_write_to.py, contents_with_cached_path.py   cached as_file path, write_to
    - type_val_prims/string_source/impls/transformed_string_sources.py     TransformedStringSourceFromLines
    - impls/types/string_transformer/impl/filter/{string_sources,line_matcher}.py   filter
    - impls/types/string_transformer/impl/sources/transformed_string_sources.py     transformed_string_source_from_writer (run)
    - type_val_prims/string_source/impls/concat.py                   _ConcatStringSourceContents
    - impls/types/string_matcher/parse_string_matcher.py             _model_freezer (&&, ||)
    - impls/types/string_matcher/impl/equality.py                    _ApplierWExtDepsCases, _ExtDepsOfBothHandler
    - impls/types/string_matcher/impl/{num_lines,emptiness,on_transformed}.py, string_transformer/impl/sequence.py

    The byte/str boundary is explicit.  A file's contents ([raw]) is the list of code points of
    its UTF-8 decoding WITHOUT newline translation; its size in bytes is [byte_size].  On Linux a
    text-mode write is the identity on characters ([write_text]); a text-mode read applies
    universal newlines ([read_text]).

    A source is a tree; every node carries the mutable state of the corresponding Python objects
    (cached [as_file] path, frozen flag, materialised frozen contents), so that an access is a
    function  source -> observation * source. *)
From Coq Require Import NArith List Bool.
From Exactly Require Import Lib.Text.
Import ListNotations.
Local Open Scope N_scope.

Definition raw := text.
Definition byte := N.

Definition tlen (t : text) : N := N.of_nat (length t).

(** *** UTF-8 (the locale encoding of the text files) *)
Definition utf8_char (c : char) : list byte :=
  if c <? 128 then [c]
  else if c <? 2048 then [192 + c / 64; 128 + c mod 64]
  else if c <? 65536 then [224 + c / 4096; 128 + (c / 64) mod 64; 128 + c mod 64]
  else [240 + c / 262144; 128 + (c / 4096) mod 64; 128 + (c / 64) mod 64; 128 + c mod 64].
Definition utf8 (t : text) : list byte := flat_map utf8_char t.
Definition byte_size (r : raw) : N := N.of_nat (length (utf8 r)).

Definition in_range (lo hi b : N) : bool := (lo <=? b) && (b <=? hi).
Definition is_cont (b : byte) : bool := in_range 128 191 b.
Definition second3_ok (b0 b1 : byte) : bool :=
  if b0 =? 224 then in_range 160 191 b1 else if b0 =? 237 then in_range 128 159 b1 else is_cont b1.
Definition second4_ok (b0 b1 : byte) : bool :=
  if b0 =? 240 then in_range 144 191 b1 else if b0 =? 244 then in_range 128 143 b1 else is_cont b1.

(** Strict decoder (well-formed byte sequences of the Unicode standard, as CPython); [None] =
    UnicodeDecodeError. *)
Fixpoint utf8_decode (bs : list byte) : option text :=
  match bs with
  | [] => Some []
  | b0 :: r0 =>
      if b0 <? 128 then option_map (cons b0) (utf8_decode r0)
      else if in_range 194 223 b0 then
        match r0 with
        | b1 :: r1 =>
            if is_cont b1
            then option_map (cons ((b0 - 192) * 64 + (b1 - 128))) (utf8_decode r1)
            else None
        | _ => None
        end
      else if in_range 224 239 b0 then
        match r0 with
        | b1 :: b2 :: r2 =>
            if second3_ok b0 b1 && is_cont b2
            then option_map (cons ((b0 - 224) * 4096 + (b1 - 128) * 64 + (b2 - 128))) (utf8_decode r2)
            else None
        | _ => None
        end
      else if in_range 240 244 b0 then
        match r0 with
        | b1 :: b2 :: b3 :: r3 =>
            if second4_ok b0 b1 && is_cont b2 && is_cont b3
            then option_map (cons ((b0 - 240) * 262144 + (b1 - 128) * 4096 + (b2 - 128) * 64 + (b3 - 128)))
                            (utf8_decode r3)
            else None
        | _ => None
        end
      else None
  end.

(** *** The str / file boundary on Linux *)
Definition write_text (s : text) : raw := s.             (* text-mode write: "\n" -> os.linesep = "\n" *)
Definition read_text (r : raw) : text := universal_nl r. (* text-mode read, newline=None *)
Definition file_lines (r : raw) : list text := lines_lf (read_text r).
Definition str_lines (s : text) : list text := splitlines_keepends s.

(** A transformation of a line iterator (StringTransFun). *)
Definition lfun := list text -> list text.

(** ** Writing to a TextIO: the events a [write_to] produces *)
Inductive wev :=
| WStr (s : text)            (* output.write(s) *)
| WLines (ls : list text)    (* output.writelines(ls) *)
| WFd (r : raw).             (* a child process writes r to output.fileno() *)

(** *** SpooledTextFile
    In memory: a StringIO (characters).  On disk: the BYTES of the file and the current write
    position (a byte offset).  [_rollover] (as repaired by commit 9d1b36a) writes the StringIO
    contents up to the StringIO position, takes the file position there, writes the rest and
    seeks back: the position in the file corresponds to the position in the StringIO.  The
    StringIO is only ever appended to, so its position [pos] is its length. *)
Inductive spst :=
| SpMem (data : text)
| SpDisk (bytes : list byte) (pos : nat).

Definition write_at (bytes : list byte) (pos : nat) (new : list byte) : list byte :=
  firstn pos bytes ++ new ++ skipn (pos + length new) bytes.

Definition rollover (data : text) : spst :=
  let pos := length data in                                  (* file.tell() *)
  SpDisk (utf8 (firstn pos data) ++ utf8 (skipn pos data))   (* newfile.write(contents[:pos]); newfile.write(contents[pos:]) *)
         (length (utf8 (firstn pos data))).                   (* newfile.seek(pos_in_newfile) *)

(** The rollover BEFORE the repair: [newfile.write(file.getvalue()); newfile.seek(file.tell(), 0)] -
    the StringIO position, a number of CHARACTERS, was used as a BYTE offset.  Kept only for the
    refutation witness [C14_prefix_spool_keeps_text_refuted]. *)
Definition rollover_prefix (data : text) : spst := SpDisk (utf8 data) (length data).

Definition disk_write (bytes : list byte) (pos : nat) (new : list byte) : spst :=
  SpDisk (write_at bytes pos new) (pos + length new).

Fixpoint spool_lines (b : N) (st : spst) (ls : list text) : spst :=
  match ls with
  | [] => st
  | l :: ls' =>
      match st with
      | SpDisk bytes pos => spool_lines b (disk_write bytes pos (utf8 (write_text l))) ls'
      | SpMem data =>
          let data' := data ++ l in
          if b <? tlen data' then spool_lines b (rollover data') ls'   (* _rollover(); file.writelines(rest) *)
          else spool_lines b (SpMem data') ls'
      end
  end.

(** [writelines] with the rollover as it was before the repair (witness only). *)
Fixpoint spool_lines_prefix (b : N) (st : spst) (ls : list text) : spst :=
  match ls with
  | [] => st
  | l :: ls' =>
      match st with
      | SpDisk bytes pos => spool_lines_prefix b (disk_write bytes pos (utf8 (write_text l))) ls'
      | SpMem data =>
          let data' := data ++ l in
          if b <? tlen data' then spool_lines_prefix b (rollover_prefix data') ls'
          else spool_lines_prefix b (SpMem data') ls'
      end
  end.

Definition spool_ev (b : N) (st : spst) (e : wev) : spst :=
  match e with
  | WStr s =>
      match st with
      | SpDisk bytes pos => disk_write bytes pos (utf8 (write_text s))
      | SpMem data =>
          let data' := data ++ s in
          if negb (b =? 0) && (b <? tlen data')      (* _check: max_size and tell() > max_size *)
          then rollover data' else SpMem data'
      end
  | WLines ls => spool_lines b st ls
  | WFd r =>                                          (* fileno() -> _rollover(); the child writes at the fd offset *)
      match st with
      | SpDisk bytes pos => disk_write bytes pos (utf8 r)
      | SpMem data =>
          match rollover data with
          | SpDisk bytes pos => disk_write bytes pos (utf8 r)
          | st' => st'
          end
      end
  end.

Definition spool (b : N) (evs : list wev) : spst := fold_left (spool_ev b) evs (SpMem []).

(** Writing the same events to a fresh regular text file (ContentsWithCachedPathFromWriteToBase._to_file,
    TransformedContentsViaAsLinesBase._to_file): plain appending.  What Python writes is flushed
    before the descriptor of the file is handed to a child process (commit 527f9c3), so the child's
    output follows it. *)
Definition wev_text (e : wev) : text :=
  match e with
  | WStr s => write_text s
  | WLines ls => write_text (concat ls)
  | WFd r => r
  end.
Definition file_of_events (evs : list wev) : raw := concat (map wev_text evs).

(** The same BEFORE the repair 527f9c3 (found by this check): the buffer of the file object was not
    flushed before its descriptor was handed to the child, so (for texts smaller than the 8 KiB
    buffer) the child's output landed BEFORE everything Python wrote.  Kept only for the refutation
    witness [C14_prefix_concat_file_refuted]. *)
Definition is_fd (e : wev) : bool := match e with WFd _ => true | _ => false end.
Definition file_of_events_prefix (evs : list wev) : raw :=
  concat (map wev_text (filter is_fd evs)) ++ concat (map wev_text (filter (fun e => negb (is_fd e)) evs)).

(** ** Frozen contents (frozen.frozen__from_write) *)
Inductive frozen :=
| FzMem (s : text)                    (* ContentsOfStr(f.mem_buff) *)
| FzDisk (r : raw)                    (* StringSourceContentsOfExistingPath(path), file is valid UTF-8 *)
| FzStrAndPath (s : text) (r : raw)   (* _StringSourceContentsOfConstStrAndExistingPath *)
| FzBad (bytes : list byte).          (* StringSourceContentsOfExistingPath(path), file is NOT valid UTF-8 *)

(** [None]: an exception escapes from frozen__from_write (reading the file back fails). *)
Definition frozen_from_write (b : N) (evs : list wev) : option frozen :=
  match spool b evs with
  | SpMem data => Some (FzMem data)
  | SpDisk bytes _ =>
      if b <? N.of_nat (length bytes)                (* _contents_of_file__if_fits_within_mem_buff *)
      then match utf8_decode bytes with
           | Some r => Some (FzDisk r)
           | None => Some (FzBad bytes)
           end
      else match utf8_decode bytes with              (* f.seek(0); f.read() *)
           | Some r => Some (FzStrAndPath (read_text r) r)
           | None => None
           end
  end.

(** What is in a file, as the check observes it: its decoded characters, or its bytes when they
    are not valid UTF-8. *)
Inductive fobs :=
| FText (r : raw)
| FBytes (bytes : list byte).

Definition fz_lines (z : frozen) : option (list text) :=
  match z with
  | FzMem s => Some (str_lines s)
  | FzDisk r => Some (file_lines r)
  | FzStrAndPath s _ => Some (str_lines s)
  | FzBad _ => None
  end.
Definition fz_str (z : frozen) : option text :=
  match z with
  | FzMem s => Some s
  | FzDisk r => Some (read_text r)
  | FzStrAndPath s _ => Some s
  | FzBad _ => None
  end.
Definition fz_file (z : frozen) : option fobs :=
  match z with
  | FzMem s => Some (FText (file_of_events [WStr s]))
  | FzDisk r => Some (FText r)
  | FzStrAndPath _ r => Some (FText r)
  | FzBad bytes => Some (FBytes bytes)
  end.
Definition fz_dep (z : frozen) : option bool :=
  match z with
  | FzMem _ => Some false
  | FzDisk _ => Some true
  | FzStrAndPath _ _ => Some false
  | FzBad _ => Some true
  end.

(** State of a StringSourceWithCachedFrozen: cached as_file path of the UNFROZEN contents object,
    the [_is_frozen] flag, and [_FreezingStringSourceContents._contents]. *)
Record cstate := CState { c_path : option raw; c_isfz : bool; c_fz : option frozen; c_runs : nat }.
    (* [c_runs]: how many times the program of a program source has been run so far (a program may print something
       different each time; other nodes leave it 0) *)
Definition cs0 : cstate := CState None false None 0.

Definition cs_set_path (st : cstate) (r : raw) : cstate := CState (Some r) (c_isfz st) (c_fz st) (c_runs st).
Definition cs_set_fz (st : cstate) (z : frozen) : cstate := CState (c_path st) (c_isfz st) (Some z) (c_runs st).
Definition cs_freeze (st : cstate) : cstate := if c_isfz st then st else CState (c_path st) true (c_fz st) (c_runs st).
Definition cs_ran (st : cstate) : cstate := CState (c_path st) (c_isfz st) (c_fz st) (S (c_runs st)).

Definition fz_write (z : frozen) : option (list wev) :=
  match z with
  | FzMem s => Some [WStr s]                       (* ContentsOfStr.write_to: output.write *)
  | FzDisk r => Some [WLines (file_lines r)]       (* StringSourceContentsOfExistingPath.write_to: writelines(lines) *)
  | FzStrAndPath s _ => Some [WStr s]
  | FzBad _ => None
  end.

(** ** Sources *)
(** How the output of a program reaches the source: written by the child through the descriptor of
    the output (ContentsViaWriteTo: -stdout-from, and -stderr-from with -ignore-exit-code), or into a
    file of its own that is then read (ContentsViaFile: -stderr-from without -ignore-exit-code). *)
Inductive pkind := PFd | PFile.

Inductive src :=
| SStr (s : text)
    (* string literal / here-document: StringSourceWConstantContents(ContentsOfStr) *)
| SFile (r : raw)
    (* -contents-of FILE: StringSourceOfFile(StringSourceContentsOfExistingPath) *)
| SProg (k : pkind) (g : nat -> raw -> raw) (st : cstate) (ins : list src)
    (* -stdout-from / -stderr-from [-ignore-exit-code] PROGRAM [-stdin ...]: StringSourceWithCachedFrozen over
       ContentsViaWriteTo(exit_relevant.StdoutWriter | exit_ignored.StdoutWriter | exit_ignored.StderrWriter) or
       ContentsViaFile(exit_relevant.StderrFileCreator).  [g n] maps the bytes on stdin to the output captured from the n-th run (n = 0, 1, ...) of the program;
       [ins] are the stdin parts (as_stdin.of_sequence). *)
| SLines (f : lfun) (dep : bool) (path : option raw) (isfz : bool) (u : src)
    (* TransformedStringSourceFromLines: identity, char-case, replace, strip ... *)
| SFilter (f : lfun) (st : cstate) (u : src)
    (* filter: StringSourceWithCachedFrozen(_ContentsViaAsLines(TransformedContentsViaAsLinesBase)) *)
| SRun (g : raw -> raw) (st : cstate) (u : src)
    (* run PROGRAM: transformed_string_source_from_writer = StringSourceWithCachedFrozen(ContentsViaWriteTo(
       writer running the program with stdin = the operand's as_file and stdout = the output's fileno));
       with -stdin the operand is the concat of the stdin parts and the model *)
| SConcat (st : cstate) (ps : list src).
    (* concat.string_source(parts): StringSourceWithCachedFrozen(_ConcatStringSourceContents), any number of parts *)

(** _FreezingStringSourceContents._get_contents: materialise on first use from the unfrozen
    contents' [write_to] ([None] = that raised). *)
Definition cached_get (b : N) (st : cstate) (un_write : option (list wev)) : option frozen * cstate :=
  match c_fz st with
  | Some z => (Some z, st)
  | None =>
      match un_write with
      | None => (None, st)
      | Some evs =>
          match frozen_from_write b evs with
          | Some z => (Some z, cs_set_fz st z)
          | None => (None, st)
          end
      end
  end.

Definition obind {A B} (x : option A) (f : A -> option B) : option B :=
  match x with Some a => f a | None => None end.

Definition via_frozen {A} (b : N) (st : cstate) (un_write : option (list wev)) (view : frozen -> option A)
  : option A * cstate :=
  let (z, st') := cached_get b st un_write in (obind z view, st').

(** Applying a view to every part of a list, left to right, threading the parts' state. *)
Definition map_st {A} (f : src -> option A * src) : list src -> list (option A) * list src :=
  fix go (ps : list src) : list (option A) * list src :=
    match ps with
    | [] => ([], [])
    | p :: ps' =>
        let (v, p') := f p in
        let (vs, ps'') := go ps' in
        (v :: vs, p' :: ps'')
    end.

(** all succeeded / the concatenation of all *)
Fixpoint oall {A} (vs : list (option A)) : option (list A) :=
  match vs with
  | [] => Some []
  | Some a :: vs' => option_map (cons a) (oall vs')
  | None :: _ => None
  end.
Definition oconcat {A} (vs : list (option (list A))) : option (list A) := option_map (@concat A) (oall vs).

(** The file a program reads / a file observation as text. *)
Definition ftext (f : option fobs) : option raw :=
  match f with Some (FText r) => Some r | _ => None end.

(** The file a program gets as stdin (as_stdin.of_sequence(parts, mem_buff_size=0)): nothing (DEVNULL), the
    [as_file] of the only part, or a new concat of the parts consumed as a file (written afresh each time). *)
Definition stdin_with (sf : src -> option fobs * src) (sw : src -> option (list wev) * src) (ins : list src)
  : option raw * list src :=
  match ins with
  | [] => (Some [], ins)
  | [p] => let (f, p') := sf p in (ftext f, [p'])
  | _ => let (ws, ins') := map_st sw ins in (option_map file_of_events (oconcat ws), ins')
  end.

(** Unfrozen [write_to] of a program source without cached file, given the bytes on stdin ([None] = preparing
    stdin raised): ContentsViaWriteTo lets the child write to the descriptor; ContentsViaFile creates (and
    caches) its file and copies its lines. *)
Definition prog_write_of (k : pkind) (g : nat -> raw -> raw) (st : cstate) (o : option raw) : option (list wev) * cstate :=
  match option_map (g (c_runs st)) o with
  | None => (None, st)
  | Some out =>
      let st := cs_ran st in
      match k with
      | PFd => (Some [WFd out], st)
      | PFile => (Some [WLines (file_lines out)], cs_set_path st out)
      end
  end.

(** The external program of [run] reads the bytes of a valid text file. *)
Definition run_on (g : raw -> raw) (f : option fobs) : option (list wev) :=
  match f with
  | Some (FText r) => Some [WFd (g r)]
  | _ => None
  end.

(** *** concat._ConcatStringSourceContents._lines_iter *)
Definition is_nl_ended (l : text) : bool := N.eqb (last l 0) NL.       (* s != '' and s[-1] == '\n' *)
Definition glue (lst : option text) (s : text) : text :=
  match lst with None => s | Some p => p ++ s end.                       (* append_to_last_line_wo_ending_new_line *)

Fixpoint concat_rest (ls : list text) (lst : option text) : list text * option text :=
  match ls with
  | [] => ([], lst)
  | l :: ls' =>
      if is_nl_ended l
      then let (ys, lst') := concat_rest ls' lst in (l :: ys, lst')
      else concat_rest ls' (Some l)                 (* last_line_wo_ending_new_line = non_first_line *)
  end.

(** one non-last part *)
Definition concat_nonlast (ls : list text) (lst : option text) : list text * option text :=
  match ls with
  | [] => ([], lst)
  | first :: rest =>
      if is_nl_ended first
      then let (ys, lst') := concat_rest rest None in (glue lst first :: ys, lst')
      else concat_rest rest (Some (glue lst first))
  end.

(** the last part *)
Definition concat_last (ls : list text) (lst : option text) : list text :=
  match ls with
  | [] => match lst with Some p => [p] | None => [] end
  | first :: rest => glue lst first :: rest
  end.

(** all parts: [for non_last_part in self._parts[:-1]] ..., then [self._parts[-1]] ([None]: no part, IndexError) *)
Fixpoint concat_lines_from (lss : list (list text)) (lst : option text) : option (list text) :=
  match lss with
  | [] => None
  | [ls] => Some (concat_last ls lst)
  | ls :: lss' =>
      let (ys, lst') := concat_nonlast ls lst in
      option_map (app ys) (concat_lines_from lss' lst')
  end.
Definition concat_lines_n (lss : list (list text)) : option (list text) := concat_lines_from lss None.

(** The views.  Each returns the value ([None] = the access raised) and the new tree (the state
    of the Python objects after the access).  [s_write] = the events of [contents().write_to(output)]. *)
Fixpoint s_lines (b : N) (x : src) {struct x} : option (list text) * src :=
  match x with
  | SStr s => (Some (str_lines s), x)
  | SFile r => (Some (file_lines r), x)
  | SProg k g st ins =>
      if c_isfz st
      then match c_fz st with
           | Some z => (fz_lines z, x)
           | None =>
               match c_path st with
               | Some r => let (v, st') := via_frozen b st (Some [WLines (file_lines r)]) fz_lines in (v, SProg k g st' ins)
               | None =>
                   let (o, ins') := stdin_with (s_file b) (s_write b) ins in
                   let (w, st1) := prog_write_of k g st o in
                   let (v, st') := via_frozen b st1 w fz_lines in (v, SProg k g st' ins')
               end
           end
      else (* as_lines: self.as_file.open() *)
           match c_path st with
           | Some r => (Some (file_lines r), x)
           | None =>
               let (o, ins') := stdin_with (s_file b) (s_write b) ins in
               match option_map (g (c_runs st)) o with           (* the program writes its output to a new file *)
               | Some r => (Some (file_lines r), SProg k g (cs_set_path (cs_ran st) r) ins')
               | None => (None, SProg k g st ins')
               end
           end
  | SLines f dep path isfz u =>
      let (ls, u') := s_lines b u in (option_map f ls, SLines f dep path isfz u')
  | SFilter f st u =>
      if c_isfz st
      then match c_fz st with
           | Some z => (fz_lines z, x)
           | None =>
               let (ls, u') := s_lines b u in
               let (v, st') := via_frozen b st (option_map (fun l => [WLines (f l)]) ls) fz_lines in
               (v, SFilter f st' u')
           end
      else let (ls, u') := s_lines b u in (option_map f ls, SFilter f st u')
  | SRun g st u =>
      if c_isfz st
      then match c_fz st with
           | Some z => (fz_lines z, x)
           | None =>
               match c_path st with
               | Some r => let (v, st') := via_frozen b st (Some [WLines (file_lines r)]) fz_lines in (v, SRun g st' u)
               | None =>
                   let (fu, u') := s_file b u in
                   let (v, st') := via_frozen b st (run_on g fu) fz_lines in (v, SRun g st' u')
               end
           end
      else match c_path st with
           | Some r => (Some (file_lines r), x)
           | None =>
               let (fu, u') := s_file b u in
               match run_on g fu with
               | Some evs => let r := file_of_events evs in (Some (file_lines r), SRun g (cs_set_path st r) u')
               | None => (None, SRun g st u')
               end
           end
  | SConcat st ps =>
      if c_isfz st
      then match c_fz st with
           | Some z => (fz_lines z, x)
           | None =>
               let (ws, ps') := map_st (s_write b) ps in
               let (v, st') := via_frozen b st (oconcat ws) fz_lines in (v, SConcat st' ps')
           end
      else let (ls, ps') := map_st (s_lines b) ps in
           (obind (oall ls) concat_lines_n, SConcat st ps')
  end

with s_file (b : N) (x : src) {struct x} : option fobs * src :=
  match x with
  | SStr s => (Some (FText (file_of_events [WStr s])), x)
  | SFile r => (Some (FText r), x)
  | SProg k g st ins =>
      if c_isfz st
      then match c_fz st with
           | Some z => (fz_file z, x)
           | None =>
               match c_path st with
               | Some r => let (v, st') := via_frozen b st (Some [WLines (file_lines r)]) fz_file in (v, SProg k g st' ins)
               | None =>
                   let (o, ins') := stdin_with (s_file b) (s_write b) ins in
                   let (w, st1) := prog_write_of k g st o in
                   let (v, st') := via_frozen b st1 w fz_file in (v, SProg k g st' ins')
               end
           end
      else match c_path st with
           | Some r => (Some (FText r), x)
           | None =>
               let (o, ins') := stdin_with (s_file b) (s_write b) ins in
               match option_map (g (c_runs st)) o with           (* the program writes its output to a new file *)
               | Some r => (Some (FText r), SProg k g (cs_set_path (cs_ran st) r) ins')
               | None => (None, SProg k g st ins')
               end
           end
  | SLines f dep path isfz u =>
      match path with
      | Some r => (Some (FText r), x)
      | None =>
          match s_lines b u with
          | (Some ls, u') =>
              let r := file_of_events [WLines (f ls)] in
              (Some (FText r), SLines f dep (Some r) isfz u')
          | (None, u') => (None, SLines f dep None isfz u')     (* write_to raised: no path is cached *)
          end
      end
  | SFilter f st u =>
      if c_isfz st
      then match c_fz st with
           | Some z => (fz_file z, x)
           | None =>
               let (ls, u') := s_lines b u in
               let (v, st') := via_frozen b st (option_map (fun l => [WLines (f l)]) ls) fz_file in
               (v, SFilter f st' u')
           end
      else match c_path st with
           | Some r => (Some (FText r), x)
           | None =>
               match s_lines b u with
               | (Some ls, u') =>
                   let r := file_of_events [WLines (f ls)] in
                   (Some (FText r), SFilter f (cs_set_path st r) u')
               | (None, u') => (None, SFilter f st u')
               end
           end
  | SRun g st u =>
      if c_isfz st
      then match c_fz st with
           | Some z => (fz_file z, x)
           | None =>
               match c_path st with
               | Some r => let (v, st') := via_frozen b st (Some [WLines (file_lines r)]) fz_file in (v, SRun g st' u)
               | None =>
                   let (fu, u') := s_file b u in
                   let (v, st') := via_frozen b st (run_on g fu) fz_file in (v, SRun g st' u')
               end
           end
      else match c_path st with
           | Some r => (Some (FText r), x)
           | None =>
               let (fu, u') := s_file b u in
               match run_on g fu with
               | Some evs => let r := file_of_events evs in (Some (FText r), SRun g (cs_set_path st r) u')
               | None => (None, SRun g st u')
               end
           end
  | SConcat st ps =>
      if c_isfz st
      then match c_fz st with
           | Some z => (fz_file z, x)
           | None =>
               let (ws, ps') := map_st (s_write b) ps in
               let (v, st') := via_frozen b st (oconcat ws) fz_file in (v, SConcat st' ps')
           end
      else match c_path st with
           | Some r => (Some (FText r), x)
           | None =>
               let (ws, ps') := map_st (s_write b) ps in
               match oconcat ws with
               | Some evs => let r := file_of_events evs in (Some (FText r), SConcat (cs_set_path st r) ps')
               | None => (None, SConcat st ps')
               end
           end
  end

with s_write (b : N) (x : src) {struct x} : option (list wev) * src :=
  match x with
  | SStr s => (Some [WStr s], x)
  | SFile r => (Some [WLines (file_lines r)], x)
  | SProg k g st ins =>
      if c_isfz st
      then match c_fz st with
           | Some z => (fz_write z, x)
           | None =>
               match c_path st with
               | Some r => let (v, st') := via_frozen b st (Some [WLines (file_lines r)]) fz_write in (v, SProg k g st' ins)
               | None =>
                   let (o, ins') := stdin_with (s_file b) (s_write b) ins in
                   let (w, st1) := prog_write_of k g st o in
                   let (v, st') := via_frozen b st1 w fz_write in (v, SProg k g st' ins')
               end
           end
      else match c_path st with
           | Some r => (Some [WLines (file_lines r)], x)         (* the cached file is copied *)
           | None =>
               let (o, ins') := stdin_with (s_file b) (s_write b) ins in
               let (w, st1) := prog_write_of k g st o in (w, SProg k g st1 ins')
           end
  | SLines f dep path isfz u =>
      let (ls, u') := s_lines b u in (option_map (fun l => [WLines (f l)]) ls, SLines f dep path isfz u')
  | SFilter f st u =>
      if c_isfz st
      then match c_fz st with
           | Some z => (fz_write z, x)
           | None =>
               let (ls, u') := s_lines b u in
               let (v, st') := via_frozen b st (option_map (fun l => [WLines (f l)]) ls) fz_write in
               (v, SFilter f st' u')
           end
      else let (ls, u') := s_lines b u in (option_map (fun l => [WLines (f l)]) ls, SFilter f st u')
  | SRun g st u =>
      if c_isfz st
      then match c_fz st with
           | Some z => (fz_write z, x)
           | None =>
               match c_path st with
               | Some r => let (v, st') := via_frozen b st (Some [WLines (file_lines r)]) fz_write in (v, SRun g st' u)
               | None =>
                   let (fu, u') := s_file b u in
                   let (v, st') := via_frozen b st (run_on g fu) fz_write in (v, SRun g st' u')
               end
           end
      else match c_path st with
           | Some r => (Some [WLines (file_lines r)], x)
           | None => let (fu, u') := s_file b u in (run_on g fu, SRun g st u')
           end
  | SConcat st ps =>
      if c_isfz st
      then match c_fz st with
           | Some z => (fz_write z, x)
           | None =>
               let (ws, ps') := map_st (s_write b) ps in
               let (v, st') := via_frozen b st (oconcat ws) fz_write in (v, SConcat st' ps')
           end
      else let (ws, ps') := map_st (s_write b) ps in (oconcat ws, SConcat st ps')
  end.

(** ContentsViaWriteTo / ContentsViaFile .as_str (unfrozen program / run): read [as_file] in text mode. *)
Definition str_via_file (b : N) (x : src) : option text * src :=
  let (f, x') := s_file b x in
  (option_map read_text (ftext f), x').

Definition s_str (b : N) (x : src) : option text * src :=
  match x with
  | SStr s => (Some s, x)
  | SFile r => (Some (read_text r), x)
  | SProg k g st ins =>
      if c_isfz st
      then match c_fz st with
           | Some z => (fz_str z, x)
           | None =>
               match c_path st with
               | Some r => let (v, st') := via_frozen b st (Some [WLines (file_lines r)]) fz_str in (v, SProg k g st' ins)
               | None =>
                   let (o, ins') := stdin_with (s_file b) (s_write b) ins in
                   let (w, st1) := prog_write_of k g st o in
                   let (v, st') := via_frozen b st1 w fz_str in (v, SProg k g st' ins')
               end
           end
      else str_via_file b x
  | SLines f dep path isfz u =>
      let (ls, u') := s_lines b u in (option_map (fun l => concat (f l)) ls, SLines f dep path isfz u')
  | SFilter f st u =>
      if c_isfz st
      then match c_fz st with
           | Some z => (fz_str z, x)
           | None =>
               let (ls, u') := s_lines b u in
               let (v, st') := via_frozen b st (option_map (fun l => [WLines (f l)]) ls) fz_str in
               (v, SFilter f st' u')
           end
      else let (ls, u') := s_lines b u in (option_map (fun l => concat (f l)) ls, SFilter f st u')
  | SRun g st u =>
      if c_isfz st
      then match c_fz st with
           | Some z => (fz_str z, x)
           | None =>
               match c_path st with
               | Some r => let (v, st') := via_frozen b st (Some [WLines (file_lines r)]) fz_str in (v, SRun g st' u)
               | None =>
                   let (fu, u') := s_file b u in
                   let (v, st') := via_frozen b st (run_on g fu) fz_str in (v, SRun g st' u')
               end
           end
      else str_via_file b x
  | SConcat st ps =>
      if c_isfz st
      then match c_fz st with
           | Some z => (fz_str z, x)
           | None =>
               let (ws, ps') := map_st (s_write b) ps in
               let (v, st') := via_frozen b st (oconcat ws) fz_str in (v, SConcat st' ps')
           end
      else let (ls, ps') := map_st (s_lines b) ps in
           (option_map (@concat char) (obind (oall ls) concat_lines_n), SConcat st ps')
  end.

(** may_depend_on_external_resources *)
Fixpoint s_dep (b : N) (x : src) {struct x} : option bool * src :=
  match x with
  | SStr _ => (Some false, x)
  | SFile _ => (Some true, x)
  | SProg k g st ins =>
      if c_isfz st
      then match c_fz st with
           | Some z => (fz_dep z, x)
           | None =>
               match c_path st with
               | Some r => let (v, st') := via_frozen b st (Some [WLines (file_lines r)]) fz_dep in (v, SProg k g st' ins)
               | None =>
                   let (o, ins') := stdin_with (s_file b) (s_write b) ins in
                   let (w, st1) := prog_write_of k g st o in
                   let (v, st') := via_frozen b st1 w fz_dep in (v, SProg k g st' ins')
               end
           end
      else (Some true, x)
  | SLines f dep path isfz u =>
      if dep then (Some true, x)       (* `or` short-circuits *)
      else let (d, u') := s_dep b u in (d, SLines f dep path isfz u')
  | SFilter f st u =>
      if c_isfz st
      then match c_fz st with
           | Some z => (fz_dep z, x)
           | None =>
               let (ls, u') := s_lines b u in
               let (v, st') := via_frozen b st (option_map (fun l => [WLines (f l)]) ls) fz_dep in
               (v, SFilter f st' u')
           end
      else (Some true, x)
  | SRun g st u =>
      if c_isfz st
      then match c_fz st with
           | Some z => (fz_dep z, x)
           | None =>
               match c_path st with
               | Some r => let (v, st') := via_frozen b st (Some [WLines (file_lines r)]) fz_dep in (v, SRun g st' u)
               | None =>
                   let (fu, u') := s_file b u in
                   let (v, st') := via_frozen b st (run_on g fu) fz_dep in (v, SRun g st' u')
               end
           end
      else (Some true, x)
  | SConcat st ps =>
      if c_isfz st
      then match c_fz st with
           | Some z => (fz_dep z, x)
           | None =>
               let (ws, ps') := map_st (s_write b) ps in
               let (v, st') := via_frozen b st (oconcat ws) fz_dep in (v, SConcat st' ps')
           end
      else (* any([part.contents().may_depend_on_external_resources for part in parts]): no short cut *)
           let (ds, ps') := map_st (s_dep b) ps in
           (option_map (existsb (fun d => d)) (oall ds), SConcat st ps')
  end.

(** StringSource.freeze() *)
Fixpoint s_freeze (x : src) : src :=
  match x with
  | SStr _ => x
  | SFile _ => x
  | SProg k g st ins => SProg k g (cs_freeze st) ins
  | SLines f dep path isfz u =>
      if isfz then x
      else SLines f dep None true (s_freeze u)   (* transformed.freeze(); self._contents = self._new_contents() *)
  | SFilter f st u => SFilter f (cs_freeze st) u   (* the operand is NOT frozen *)
  | SRun g st u => SRun g (cs_freeze st) u
  | SConcat st ps => SConcat (cs_freeze st) ps
  end.

(** ** Access sequences *)
Inductive access := AStr | ALines | AFile | ADep | AFreeze | AWrite.
    (* AWrite: contents().write_to(a new text file), the file is then read *)

Inductive obs :=
| OStr (s : text)
| OLines (ls : list text)
| OFile (f : fobs)
| ODep (d : bool)
| OWritten (f : fobs)
| OFrozen
| OExc.                      (* the access raised (UnicodeDecodeError) *)

Definition oobs {A} (mk : A -> obs) (v : option A) : obs :=
  match v with Some a => mk a | None => OExc end.

Definition step (b : N) (a : access) (x : src) : obs * src :=
  match a with
  | AStr => let (s, x') := s_str b x in (oobs OStr s, x')
  | ALines => let (ls, x') := s_lines b x in (oobs OLines ls, x')
  | AFile => let (r, x') := s_file b x in (oobs OFile r, x')
  | ADep => let (d, x') := s_dep b x in (oobs ODep d, x')
  | AFreeze => (OFrozen, s_freeze x)
  | AWrite => let (w, x') := s_write b x in (oobs OWritten (option_map (fun evs => FText (file_of_events evs)) w), x')
  end.

Fixpoint run (b : N) (accs : list access) (x : src) : list obs * src :=
  match accs with
  | [] => ([], x)
  | a :: accs' =>
      let (o, x') := step b a x in
      let (os, x'') := run b accs' x' in
      (o :: os, x'')
  end.

(** ** Concrete line transformations used by the correspondence cases *)
Definition lf_identity : lfun := fun ls => ls.

(** filter LINE-MATCHER: model_construction numbers the lines from 1 and hands the matcher the
    line without trailing newlines ([rstrip('\n')]). *)
Fixpoint filter_from (p : N -> text -> bool) (n : N) (ls : list text) : list text :=
  match ls with
  | [] => []
  | l :: ls' => if p n (rstrip_nl l) then l :: filter_from p (n + 1) ls' else filter_from p (n + 1) ls'
  end.
Definition lf_filter (p : N -> text -> bool) : lfun := filter_from p 1.

Definition p_num_le (k : N) : N -> text -> bool := fun n _ => n <=? k.
Definition p_num_ge (k : N) : N -> text -> bool := fun n _ => k <=? n.
Definition p_num_ne (k : N) : N -> text -> bool := fun n _ => negb (n =? k).
Definition p_has (c : char) : N -> text -> bool := fun _ l => existsb (N.eqb c) l.
Definition p_true : N -> text -> bool := fun _ _ => true.

(** char-case -to-upper on the ASCII letters (the generators use no other cased characters). *)
Definition ascii_upper (c : char) : char := if (97 <=? c) && (c <=? 122) then c - 32 else c.
Definition lf_upper : lfun := map (map ascii_upper).

(** replace [-preserve-new-lines] REGEX REPLACEMENT (replace/impl.py).  [sub] is what the regex
    substitution does to one string.  [_lines_iterator_from_replacements]: the substituted lines are
    cut after each "\n"; pieces are collected in [segments] until a "\n" is seen. *)
Fixpoint rep_feed (seg : text) (s : text) : list text * text :=
  match s with
  | [] => ([], seg)
  | c :: s' =>
      if c =? NL
      then let (ys, r) := rep_feed [] s' in ((seg ++ [c]) :: ys, r)   (* segments.append(..); yield ''.join(segments) *)
      else rep_feed (seg ++ [c]) s'
  end.

Fixpoint replace_lines (sub : text -> text) (seg : text) (ls : list text) : list text :=
  match ls with
  | [] => match seg with [] => [] | _ => [seg] end                    (* rest = ''.join(segments) *)
  | l :: ls' => let (ys, seg') := rep_feed seg (sub l) in ys ++ replace_lines sub seg' ls'
  end.

Definition lf_replace (sub : text -> text) : lfun := replace_lines sub [].

(** _StrReplacerExcludingNewLines: -preserve-new-lines *)
Definition sub_preserving_nl (sub : text -> text) (l : text) : text :=
  if N.eqb (last l 0) NL then sub (removelast l) ++ [NL] else sub l.

(** The substitution of a regex that is a literal, non-empty string [pat]: non-overlapping
    occurrences from the left are replaced by [rep] ([skip] = characters of a match still to drop). *)
Fixpoint is_prefix (p s : text) : bool :=
  match p, s with
  | [], _ => true
  | a :: p', c :: s' => N.eqb a c && is_prefix p' s'
  | _ :: _, [] => false
  end.
Fixpoint subst_go (pat rep : text) (skip : nat) (s : text) : text :=
  match s with
  | [] => []
  | c :: s' =>
      match skip with
      | S k => subst_go pat rep k s'
      | O => if is_prefix pat s then rep ++ subst_go pat rep (length pat - 1) s' else c :: subst_go pat rep 0 s'
      end
  end.
Definition subst (pat rep : text) : text -> text := subst_go pat rep 0.

(** strip [-trailing-space | -trailing-new-lines] (strip_space.py): three streaming algorithms over the line iterator.
    [is_space]: the characters for which Python's str.isspace / strip() hold. *)
Definition is_space (c : char) : bool :=
  ((9 <=? c) && (c <=? 13)) || ((28 <=? c) && (c <=? 32)) || (c =? 133) || (c =? 160) || (c =? 5760) ||
  ((8192 <=? c) && (c <=? 8202)) || (c =? 8232) || (c =? 8233) || (c =? 8239) || (c =? 8287) || (c =? 12288).
Definition str_isspace (l : text) : bool := match l with [] => false | _ => forallb is_space l end.
Fixpoint lstrip (l : text) : text := match l with [] => [] | c :: l' => if is_space c then lstrip l' else l end.
Definition rstrip (l : text) : text := rev (lstrip (rev l)).
Fixpoint drop_space_lines (ls : list text) : list text :=
  match ls with [] => [] | l :: ls' => if str_isspace l then drop_space_lines ls' else ls end.

(** _strip_space *)
Fixpoint strip_loop (cur : text) (skipped : list text) (ls : list text) : list text :=
  match ls with
  | [] => [rstrip cur]                                          (* yield non_empty_line.rstrip() *)
  | l :: ls' =>
      if str_isspace l then strip_loop cur (skipped ++ [l]) ls'
      else cur :: skipped ++ strip_loop l [] ls'
  end.
Definition lf_strip : lfun := fun ls =>
  match drop_space_lines ls with
  | [] => []
  | l :: rest => strip_loop (lstrip l) [] rest
  end.

(** _strip_trailing_space *)
Fixpoint sts_loop (cur : text) (skipped : list text) (ls : list text) : list text :=
  match ls with
  | [] => match rstrip cur with [] => [] | m => [m] end      (* if mb_last != '': yield mb_last *)
  | l :: ls' =>
      if str_isspace l then sts_loop cur (skipped ++ [l]) ls'
      else cur :: skipped ++ sts_loop l [] ls'
  end.
Definition lf_strip_trailing_space : lfun := fun ls =>
  match ls with [] => [] | l :: rest => sts_loop l [] rest end.

(** _strip_trailing_new_lines *)
Fixpoint stn_loop (cur : text) (n : nat) (ls : list text) : list text :=
  match ls with
  | [] =>
      match (if N.eqb (last cur 0) NL then removelast cur else cur) with
      | [] => []                                               (* if last_line != '': yield last_line *)
      | m => [m]
      end
  | l :: ls' =>
      if text_eqb l [NL] then stn_loop cur (S n) ls'
      else cur :: repeat [NL] n ++ stn_loop l 0 ls'
  end.
Definition lf_strip_trailing_new_lines : lfun := fun ls =>
  match ls with [] => [] | l :: rest => stn_loop l 0 rest end.

Inductive strip_variant := StripBoth | StripTrailingSpace | StripTrailingNewLines.
Definition lf_strip_of (v : strip_variant) : lfun :=
  match v with
  | StripBoth => lf_strip
  | StripTrailingSpace => lf_strip_trailing_space
  | StripTrailingNewLines => lf_strip_trailing_new_lines
  end.

(** External programs used by the correspondence cases (functions on the bytes of valid texts). *)
(** a program source whose program prints the same for every run *)
Definition det (g : raw -> raw) : nat -> raw -> raw := fun _ => g.
(** ... and one that appends one more "x" for every run it has had before: cat F -; head -c $n XS *)
Definition g_counting (out : raw) : nat -> raw -> raw := fun n r => out ++ r ++ repeat 120 n.
Definition g_const (out : raw) : raw -> raw := fun _ => out.                         (* cat FILE, no stdin *)
Definition g_prefix (out : raw) : raw -> raw := fun r => out ++ r.                   (* cat FILE - *)
Definition g_cat : raw -> raw := fun r => r.                                         (* cat *)
Definition swap_ab (c : char) : char := if c =? 97 then 98 else if c =? 98 then 97 else c.
Definition g_tr_ab : raw -> raw := map swap_ab.                                      (* tr ab ba *)
Definition g_tail2 : raw -> raw := fun r => concat (skipn 1 (lines_lf r)).           (* tail -n +2 *)

(** ** String transformers (only what their [transform] does to a source) *)
Inductive tatom :=
| TId                                   (* identity: IdentityStringTransformer, is_identity_transformer *)
| TUpper                                (* char-case -to-upper: _CaseConverter *)
| TFilter (p : N -> text -> bool)       (* filter LINE-MATCHER: _FilterByLineMatcher *)
| TRun (g : raw -> raw)                 (* run PROGRAM (no -stdin): transformed_by_program *)
| TReplace (sub : text -> text)         (* replace REGEX REPLACEMENT: _ReplaceStringTransformer (no line selector) *)
| TStrip (v : strip_variant).           (* strip [-trailing-space | -trailing-new-lines]: _StripWhiteSpaceTransformer *)

(** Chains nested in chains - ( ( T1 | identity ) | T2 ), the transformation of a program symbol followed by the
    transformation given where it is referenced, the transformation of the program of [run] - : a tree of
    SequenceStringTransformer objects. *)
Inductive tchain :=
| CAtom (a : tatom)
| CSeq (l : list tchain).

Inductive trans :=
| TAtom (a : tatom)
| TSeq (l : list tatom)                 (* T1 | T2 | ... : SequenceStringTransformer *)
| TChain (c : tchain).

Definition is_identity_atom (a : tatom) : bool := match a with TId => true | _ => false end.

(** SequenceStringTransformer.is_identity_transformer: there is no operand that is not the identity *)
Fixpoint chain_is_identity (c : tchain) : bool :=
  match c with
  | CAtom a => is_identity_atom a
  | CSeq l => forallb chain_is_identity l
  end.

Definition transform_atom (a : tatom) (x : src) : src :=
  match a with
  | TId => SLines lf_identity false None false x
  | TUpper => SLines lf_upper false None false x
  | TFilter p => SFilter (lf_filter p) cs0 x
  | TRun g => SRun g cs0 x
  | TReplace sub => SLines (lf_replace sub) false None false x
  | TStrip v => SLines (lf_strip_of v) false None false x
  end.

(** SequenceStringTransformer.transform: the operands that are not the identity transformer, in order
    (the others are dropped at construction). *)
Fixpoint chain_transform (c : tchain) (x : src) : src :=
  match c with
  | CAtom a => transform_atom a x
  | CSeq l => fold_left (fun m c' => if chain_is_identity c' then m else chain_transform c' m) l x
  end.

(** the atoms a chain really applies, in order *)
Fixpoint chain_atoms (c : tchain) : list tatom :=
  match c with
  | CAtom a => [a]
  | CSeq l => flat_map (fun c' => if chain_is_identity c' then [] else chain_atoms c') l
  end.

Definition transform (t : trans) (x : src) : src :=
  match t with
  | TAtom a => transform_atom a x
  | TSeq l => fold_left (fun m a => transform_atom a m) (filter (fun a => negb (is_identity_atom a)) l) x
  | TChain c => chain_transform c x
  end.

(** A string source expression as the parser builds it: SOURCE [-transformed-by T]. *)
Definition build (base : src) (t : option trans) : src :=
  match t with
  | None => base
  | Some t => transform t base
  end.

(** ** String matchers: what they do to their model (a string source) *)
Inductive cmp := CEq | CNe | CLt | CLe | CGt | CGe.
Definition cmp_eval (c : cmp) (a n : N) : bool :=
  match c with
  | CEq => a =? n | CNe => negb (a =? n) | CLt => a <? n | CLe => a <=? n | CGt => n <? a | CGe => n <=? a
  end.

Inductive smatcher :=
| MNumLines (c : cmp) (n : N)            (* num-lines CMP n : counts the elements of as_lines *)
| MEmpty                                 (* is-empty : looks at the first element of as_lines *)
| MEquals (e : src)                      (* equals STRING-SOURCE *)
| MNeg (m : smatcher)                    (* ! M *)
| MConj (m1 m2 : smatcher)               (* ( M1 && M2 ) : freezes the model first *)
| MDisj (m1 m2 : smatcher)               (* ( M1 || M2 ) : freezes the model first *)
| MOnTrans (t : trans) (m : smatcher).   (* -transformed-by T M *)

(** Number of source layers [transform t] puts around its operand. *)
Definition layers (t : trans) : nat :=
  match t with
  | TAtom _ => 1%nat
  | TSeq l => length (filter (fun a => negb (is_identity_atom a)) l)
  | TChain c => length (chain_atoms c)
  end.

Fixpoint unwrap (n : nat) (x : src) : src :=
  match n with
  | O => x
  | S n' =>
      match x with
      | SLines _ _ _ _ u => unwrap n' u
      | SFilter _ _ u => unwrap n' u
      | SRun _ _ u => unwrap n' u
      | _ => x
      end
  end.

(** util/str_/read_lines.read_lines_as_str__w_minimum_num_chars *)
Fixpoint read_min_lines (min_chars : N) (have : N) (ls : list text) : list text :=
  match ls with
  | [] => []
  | l :: ls' =>
      let have' := have + tlen l in
      if min_chars <=? have' then [l] else l :: read_min_lines min_chars have' ls'
  end.
Definition read_min (min_chars : N) (ls : list text) : text := concat (read_min_lines min_chars 0 ls).

(** filecmp.cmp(shallow=False): equality of the bytes *)
Definition fobs_bytes (f : fobs) : list byte :=
  match f with
  | FText r => utf8 r
  | FBytes bytes => bytes
  end.
Definition files_equal (a b : fobs) : bool := text_eqb (fobs_bytes a) (fobs_bytes b).

(** Reading a file in text mode ([None] = UnicodeDecodeError). *)
Definition fobs_lines (f : fobs) : option (list text) :=
  match f with
  | FText r => Some (file_lines r)
  | FBytes _ => None
  end.

(** equality._ApplierWExtDepsCases._diff_detail, built eagerly when the texts differ: the lines of
    the expected, then of the actual contents are listed (this can raise). *)
Definition diff_detail (b : N) (e x : src) : option bool * src * src :=
  match s_lines b e with
  | (None, e) => (None, e, x)
  | (Some _, e) =>
      match s_lines b x with
      | (None, x) => (None, e, x)
      | (Some _, x) => (Some false, e, x)
      end
  end.

(** equality._ApplierWExtDepsCases.match; [extra] = STRING__EXTRA_TO_READ_FOR_ERROR_MESSAGES.
    Returns verdict ([None] = raised), the expected source and the model afterwards. *)
Definition equals_match (b extra : N) (e x : src) : option bool * src * src :=
  let e := s_freeze e in
  match s_dep b e with
  | (None, e) => (None, e, x)
  | (Some de, e) =>
      match s_dep b x with
      | (None, x) => (None, e, x)
      | (Some da, x) =>
          if de then
            if da then
              (* _ExtDepsOfBothHandler: expected.as_file, actual.as_file, filecmp *)
              match s_file b e with
              | (None, e) => (None, e, x)
              | (Some ef, e) =>
                  match s_file b x with
                  | (None, x) => (None, e, x)
                  | (Some af, x) =>
                      if files_equal af ef then (Some true, e, x)
                      else (* _actual_file_contents_detail and _diff_detail read both files in text mode *)
                        match fobs_lines af, fobs_lines ef with
                        | Some _, Some _ => (Some false, e, x)
                        | _, _ => (None, e, x)
                        end
                  end
              end
            else
              (* _ext_deps__only_expected: actual.as_str, header of open(expected.as_file) *)
              match s_str b x with
              | (None, x) => (None, e, x)
              | (Some astr, x) =>
                  match s_file b e with
                  | (None, e) => (None, e, x)
                  | (Some ef, e) =>
                      match fobs_lines ef with
                      | None => (None, e, x)
                      | Some els =>
                          if text_eqb (read_min (tlen astr + 1 + extra) els) astr then (Some true, e, x)
                          else diff_detail b e x
                      end
                  end
              end
          else
            if da then
              (* _ext_deps__only_actual: expected.as_str, header of actual.as_lines *)
              match s_str b e with
              | (None, e) => (None, e, x)
              | (Some estr, e) =>
                  match s_lines b x with
                  | (None, x) => (None, e, x)
                  | (Some als, x) =>
                      if text_eqb estr (read_min (tlen estr + 1 + extra) als) then (Some true, e, x)
                      else diff_detail b e x
                  end
              end
            else
              (* _ext_deps__none: actual.as_str == expected.as_str *)
              match s_str b x with
              | (None, x) => (None, e, x)
              | (Some astr, x) =>
                  match s_str b e with
                  | (None, e) => (None, e, x)
                  | (Some estr, e) =>
                      if text_eqb estr astr then (Some true, e, x) else diff_detail b e x
                  end
              end
      end
  end.

Fixpoint m_eval (b extra : N) (m : smatcher) (x : src) {struct m} : option bool * src :=
  match m with
  | MNumLines c n =>
      let (ls, x') := s_lines b x in (option_map (fun l : list text => cmp_eval c (N.of_nat (length l)) n) ls, x')
  | MEmpty =>
      let (ls, x') := s_lines b x in
      (option_map (fun l => match l with [] => true | l0 :: _ => match l0 with [] => true | _ => false end end) ls, x')
  | MEquals e =>
      let '(v, _, x') := equals_match b extra e x in (v, x')
  | MNeg m1 =>
      let (v, x') := m_eval b extra m1 x in (option_map negb v, x')
  | MConj m1 m2 =>
      let x := s_freeze x in                        (* _model_freezer *)
      match m_eval b extra m1 x with
      | (None, x') => (None, x')
      | (Some false, x') => (Some false, x')
      | (Some true, x') => m_eval b extra m2 x'
      end
  | MDisj m1 m2 =>
      let x := s_freeze x in
      match m_eval b extra m1 x with
      | (None, x') => (None, x')
      | (Some true, x') => (Some true, x')
      | (Some false, x') => m_eval b extra m2 x'
      end
  | MOnTrans t m1 =>
      let (v, x') := m_eval b extra m1 (transform t x) in (v, unwrap (layers t) x')
  end.
