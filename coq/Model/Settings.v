(** * Model of the settings that instructions change for later instructions (property C11; the
    timeout component is reused by C19).

    Mirrors (same branches, same order):
      - impls/instructions/multi_phase/environ/impl.py
          [TheInstructionEmbryo.main] / [_resolve_applier_factory] / [_resolve_applier]
          (which appliers exist in which phase, and their order: act first, then non-act),
          [ModifierApplierForNonSetupPhase.apply], [ModifierApplierForSetupPhase.apply]
          (populate-if-unpopulated from the default environ, then modify),
          [ModifierOfSet.modify], [ModifierUnset.modify], [_expand_vars] (the scanning loop over
          [_ENV_VAR_REFERENCE.search]; the regular expression [\${[a-zA-Z0-9_]+}] itself is modelled
          by [re_search])
      - test_case/phases/instruction_settings.py ([InstructionSettings]: environ / None, timeout)
      - test_case/phases/setup/settings_builder.py ([SetupSettingsBuilder.environ] / None)
      - impls/instructions/multi_phase/timeout/impl.py ([settings.set_timeout])
      - impls/instructions/multi_phase/change_dir.py ([os.chdir]; missing directory -> hard error)
      - execution/partial_execution/impl/executor.py: [_post_sds_environment] (every instruction is
        handed the timeout and a read-only view of the non-act environ current when its main step
        starts; [None] = the process inherits os.environ), [_construct_act_phase_executor] +
        setup_settings_handler.py [as_atc_execution_input] + actors/util/atc_proc_exe_settings.py
        [for_atc] (the act process gets the act environ and the timeout captured right after setup/main),
        and the order of the main steps (setup, act, before-assert, assert, cleanup; a hard error
        halts the phase and execution continues with cleanup).
    Executable definitions only. *)
From Coq Require Import NArith List Bool Arith.
From Exactly Require Import Lib.Harness.
Import ListNotations.
Local Open Scope N_scope.

Definition text := list N.          (* a Python str as code points *)
Definition name := text.
Definition text_eqb : text -> text -> bool := list_eqb N.eqb.

(** ** Timeout component (shared with C19) *)
Definition timeout := option N.      (* seconds; None = no timeout *)

(** ** Python [Dict[str, str]]: insertion ordered, unique keys *)
Definition env := list (name * text).

Fixpoint get (e : env) (n : name) : option text :=
  match e with
  | [] => None
  | (k, v) :: e' => if text_eqb k n then Some v else get e' n
  end.

(** [environ[n] = v] *)
Fixpoint set (e : env) (n : name) (v : text) : env :=
  match e with
  | [] => [(n, v)]
  | (k, w) :: e' => if text_eqb k n then (k, v) :: e' else (k, w) :: set e' n v
  end.

(** [del environ[n]], KeyError ignored *)
Fixpoint unset (e : env) (n : name) : env :=
  match e with
  | [] => []
  | (k, w) :: e' => if text_eqb k n then unset e' n else (k, w) :: unset e' n
  end.

(** ** [_expand_vars] *)
Definition DOLLAR : N := 36.
Definition LBRACE : N := 123.
Definition RBRACE : N := 125.

(** the character class [[a-zA-Z0-9_]] *)
Definition is_name_char (c : N) : bool :=
  ((97 <=? c) && (c <=? 122)) || ((65 <=? c) && (c <=? 90)) || ((48 <=? c) && (c <=? 57)) || (c =? 95).

(** longest prefix of name characters, and the rest *)
Fixpoint span_name (s : text) : text * text :=
  match s with
  | [] => ([], [])
  | c :: s' => if is_name_char c then let (a, b) := span_name s' in (c :: a, b) else ([], s)
  end.

(** [\${[a-zA-Z0-9_]+}] anchored at the head of [s]: length of the match.  ([}] is not a name
    character, so the greedy [+] never has to give back.) *)
Definition match_here (s : text) : option nat :=
  match s with
  | c1 :: c2 :: s' =>
      if (c1 =? DOLLAR) && (c2 =? LBRACE) then
        match span_name s' with
        | ((_ :: _) as nm, c3 :: _) => if c3 =? RBRACE then Some (3 + length nm)%nat else None
        | _ => None
        end
      else None
  | _ => None
  end.

(** [_ENV_VAR_REFERENCE.search(s)]: the leftmost match as [(start, end)] *)
Fixpoint re_search (s : text) : option (nat * nat) :=
  match match_here s with
  | Some len => Some (0, len)%nat
  | None =>
      match s with
      | [] => None
      | _ :: s' => match re_search s' with Some (a, b) => Some (S a, S b) | None => None end
      end
  end.

(** the inner function [substitute(reference)]: [reference[2:-1]] looked up, KeyError -> '' *)
Definition substitute (e : env) (reference : text) : text :=
  let var_name := removelast (skipn 2 reference) in
  match get e var_name with Some v => v | None => [] end.

(** the [while match:] loop.  [None] = out of fuel (excluded by [expand_vars_total]). *)
Fixpoint expand_loop (fuel : nat) (e : env) (processed remaining : text) : option text :=
  match re_search remaining with
  | None => Some (processed ++ remaining)
  | Some (st, en) =>
      match fuel with
      | O => None
      | S fuel' =>
          expand_loop fuel' e
            (processed ++ firstn st remaining ++ substitute e (firstn (en - st) (skipn st remaining)))
            (skipn en remaining)
      end
  end.

Definition expand_vars (value : text) (e : env) : option text :=
  expand_loop (length value) e [] value.

(** ** Modifiers *)
Inductive modifier :=
| MSet (n : name) (v : text)     (* ModifierOfSet *)
| MUnset (n : name).             (* ModifierUnset *)

(** [Modifier.modify(environ)]; [None] = out of fuel *)
Definition modify (m : modifier) (e : env) : option env :=
  match m with
  | MSet n v => match expand_vars v e with Some v' => Some (set e n v') | None => None end
  | MUnset n => Some (unset e n)
  end.

(** [frozenset] of [Phase]: the [-of act] / [-of !act] option, or neither *)
Inductive target := TBoth | TAct | TNonAct.
Definition has_act (t : target) : bool := match t with TNonAct => false | _ => true end.
Definition has_non_act (t : target) : bool := match t with TAct => false | _ => true end.

(** ** The state the executor keeps *)
Definition path := list name.        (* components below the sandbox root *)

Record state := State {
  st_nonact : option env;     (* InstructionSettings._environ; None = inherit *)
  st_act : option env;        (* SetupSettingsBuilder._environ; None = inherit *)
  st_timeout : timeout;       (* InstructionSettings._timeout_in_seconds *)
  st_cwd : path }.            (* the cwd of the exactly process *)

(** [_populate_if_is_unpopulated]: the default environ getter returns a fresh copy of the
    environment exactly was started with *)
Definition populated (default : env) (o : option env) : env :=
  match o with None => default | Some e => e end.

(** [ModifierApplierForNonSetupPhase.apply] *)
Definition apply_non_act (default : env) (m : modifier) (s : state) : option state :=
  match modify m (populated default (st_nonact s)) with
  | Some e' => Some (State (Some e') (st_act s) (st_timeout s) (st_cwd s))
  | None => None
  end.

(** [ModifierApplierForSetupPhase.apply] *)
Definition apply_act (default : env) (m : modifier) (s : state) : option state :=
  match modify m (populated default (st_act s)) with
  | Some e' => Some (State (st_nonact s) (Some e') (st_timeout s) (st_cwd s))
  | None => None
  end.

(** [_resolve_applier]: a [SequenceOfAppliers], act first; outside [setup] the act applier is
    the empty sequence *)
Inductive applier := ApAct | ApNonAct.

Definition appliers (in_setup : bool) (t : target) : list applier :=
  (if has_act t then (if in_setup then [ApAct] else []) else []) ++
  (if has_non_act t then [ApNonAct] else []).

Fixpoint apply_all (default : env) (m : modifier) (aps : list applier) (s : state) : option state :=
  match aps with
  | [] => Some s
  | a :: aps' =>
      match (match a with ApAct => apply_act | ApNonAct => apply_non_act end) default m s with
      | Some s' => apply_all default m aps' s'
      | None => None
      end
  end.

(** ** Directories *)
Inductive cdbase := RelCwd | RelAct | RelTmp | RelResult.

Definition DOT : N := 46.
Definition sds_act : path := [[97; 99; 116]].                       (* "act" *)
Definition sds_tmp : path := [[116; 109; 112]].                      (* "tmp" *)
Definition sds_result : path := [[114; 101; 115; 117; 108; 116]].   (* "result" *)

Definition base_dir (cwd : path) (b : cdbase) : path :=
  match b with RelCwd => cwd | RelAct => sds_act | RelTmp => sds_tmp | RelResult => sds_result end.

(** what the operating system does with [base/c1/c2/...] ([..] = parent; no symbolic links in
    the modelled tree).  [None]: the path leaves the sandbox root (outside the modelled world). *)
Fixpoint walk (p : path) (suffix : list name) : option path :=
  match suffix with
  | [] => Some p
  | c :: suffix' =>
      if text_eqb c [DOT; DOT] then
        match p with [] => None | _ :: _ => walk (removelast p) suffix' end
      else if text_eqb c [DOT] then walk p suffix'
      else walk (p ++ [c]) suffix'
  end.

Definition path_eqb : path -> path -> bool := list_eqb text_eqb.

(** ** Instructions of a history *)
Inductive op :=
| OEnv (t : target) (m : modifier)             (* env [-of act|!act] NAME = VALUE  /  env ... unset NAME *)
| OEnvProg (t : target) (n : name) (v : text)  (* env [-of act|!act] NAME = -stdout-from PROGRAM, the program printing [v] *)
| OCd (b : cdbase) (suffix : list name)        (* cd [-rel-act|-rel-tmp|-rel-result] PATH *)
| OTimeout (t : timeout)                       (* timeout = N | none *)
| OChildCd (b : cdbase) (suffix : list name)   (* a child process that changes ITS directory *)
| OProbe.                                      (* a child process reporting its environment and cwd *)

Inductive step_result :=
| SOk (s : state)
| SHardError (s : state)      (* the instruction reports a hard error: the phase halts *)
| SOutOfFuel.

(** the main step of one instruction.  [dirs]: the directories that exist. *)
Definition step (default : env) (dirs : list path) (in_setup : bool) (o : op) (s : state) : step_result :=
  match o with
  | OEnv t m =>
      match apply_all default m (appliers in_setup t) s with
      | Some s' => SOk s'
      | None => SOutOfFuel
      end
  | OEnvProg t n v =>
      (* ModifierAdvForSet.primitive: the value is the program's output; then as a constant value *)
      match apply_all default (MSet n v) (appliers in_setup t) s with
      | Some s' => SOk s'
      | None => SOutOfFuel
      end
  | OCd b suffix =>
      match walk (base_dir (st_cwd s) b) suffix with
      | Some d => if existsb (path_eqb d) dirs
                  then SOk (State (st_nonact s) (st_act s) (st_timeout s) d)
                  else SHardError s
      | None => SHardError s
      end
  | OTimeout t => SOk (State (st_nonact s) (st_act s) t (st_cwd s))
  | OChildCd _ _ => SOk s
  | OProbe => SOk s
  end.

(** ** Observations: what a child process started at some point sees *)
(** which process: an ordinary child process (an instruction's program, the act program), or the
    [k]-th run of the program that computes the VALUE of an env instruction (one run per applier) *)
Inductive role := RProcess | RValue (k : nat).

Record obs := Obs {
  o_env : env;
  o_cwd : path;
  o_timeout : timeout;       (* the timeout handed to the process executor for it *)
  o_role : role }.

Inductive phase_id := PSetup | PBeforeAssert | PAssert | PCleanup.
Inductive point := PtInstr (p : phase_id) (idx : nat) | PtAct.

(** a non-act process: [_post_sds_environment] - the read-only view of the non-act environ
    ([None]: inherits os.environ = the default) and the current timeout *)
Definition obs_non_act (default : env) (s : state) : obs :=
  Obs (populated default (st_nonact s)) (st_cwd s) (st_timeout s) RProcess.

(** the act process: [for_atc] - the act environ and the timeout of the environment built by
    [_construct_act_phase_executor] *)
Definition obs_act (default : env) (s : state) : obs :=
  Obs (populated default (st_act s)) (st_cwd s) (st_timeout s) RProcess.

(** the program computing the value of an env instruction: [ModifierApplier*.apply] resolves the
    value with [_AppEnvConstructor.of(environ of the set being changed, before it is populated)] -
    the timeout of the instruction's environment and that set ([None]: inherits) - once per applier,
    in the order of the appliers; the act applier changes only the act set, so every run sees the
    sets as they were when the instruction started *)
Fixpoint obs_value (default : env) (k : nat) (aps : list applier) (s : state) : list obs :=
  match aps with
  | [] => []
  | a :: aps' =>
      Obs (populated default (match a with ApAct => st_act s | ApNonAct => st_nonact s end))
          (st_cwd s) (st_timeout s) (RValue k) :: obs_value default (S k) aps' s
  end.

(** the processes the instruction [o], number [idx] of phase [p], starts from state [s] *)
Definition processes_of (default : env) (p : phase_id) (idx : nat) (o : op) (s : state) : list (point * obs) :=
  match o with
  | OProbe => [(PtInstr p idx, obs_non_act default s)]
  | OEnvProg t _ _ =>
      map (fun ob => (PtInstr p idx, ob))
          (obs_value default 0 (appliers (match p with PSetup => true | _ => false end) t) s)
  | _ => []
  end.

Inductive status := Done | Halted | OutOfFuel.

(** [run_instructions_phase_step] over main steps: stop at the first hard error *)
Fixpoint run_ops (default : env) (dirs : list path) (p : phase_id) (idx : nat) (ops : list op) (s : state)
  : list (point * obs) * state * status :=
  match ops with
  | [] => ([], s, Done)
  | o :: ops' =>
      let here := processes_of default p idx o s in
      match step default dirs (match p with PSetup => true | _ => false end) o s with
      | SOk s' => let '(t, s'', r) := run_ops default dirs p (S idx) ops' s' in (here ++ t, s'', r)
      | SHardError s' => (here, s', Halted)
      | SOutOfFuel => (here, s, OutOfFuel)
      end
  end.

Record history := History {
  h_setup : list op;
  h_before_assert : list op;
  h_assert : list op;
  h_cleanup : list op }.

Record config := Config {
  c_default : env;          (* the environment exactly was started with *)
  c_timeout : timeout;      (* the timeout in force at start (os_proc_env.TIMEOUT__DEFAULT) *)
  c_dirs : list path }.     (* the directories that exist below the sandbox root *)

Definition initial (c : config) : state := State None None (c_timeout c) sds_act.

(** [_PartialExecutor.execute], main steps only *)
Definition run (c : config) (h : history) : list (point * obs) * status :=
  let d := c_default c in
  let cleanup (t : list (point * obs)) (s : state) :=
    let '(tc, _, rc) := run_ops d (c_dirs c) PCleanup 0 (h_cleanup h) s in
    (t ++ tc, match rc with OutOfFuel => OutOfFuel | _ => Done end) in
  let '(t1, s1, r1) := run_ops d (c_dirs c) PSetup 0 (h_setup h) (initial c) in
  match r1 with
  | OutOfFuel => (t1, OutOfFuel)
  | Halted => cleanup t1 s1
  | Done =>
      let ta := [(PtAct, obs_act d s1)] in
      let '(t2, s2, r2) := run_ops d (c_dirs c) PBeforeAssert 0 (h_before_assert h) s1 in
      match r2 with
      | OutOfFuel => (t1 ++ ta ++ t2, OutOfFuel)
      | Halted => cleanup (t1 ++ ta ++ t2) s2
      | Done =>
          let '(t3, s3, r3) := run_ops d (c_dirs c) PAssert 0 (h_assert h) s2 in
          match r3 with
          | OutOfFuel => (t1 ++ ta ++ t2 ++ t3, OutOfFuel)
          | _ => cleanup (t1 ++ ta ++ t2 ++ t3) s3
          end
      end
  end.

(** ** "value in force at step k" (interface for C19): the timeout handed to the [k]-th
    instruction of a list of instructions started under [t0]; [Some t] = a timeout instruction *)
Definition op_timeout (o : op) : option timeout :=
  match o with OTimeout t => Some t | _ => None end.

Fixpoint timeout_in_force (ops : list (option timeout)) (t0 : timeout) (k : nat) : timeout :=
  match k, ops with
  | O, _ => t0
  | S k', o :: ops' => timeout_in_force ops' (match o with Some t => t | None => t0 end) k'
  | S _, [] => t0
  end.
