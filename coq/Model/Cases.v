(** * Model of what is shared between test cases, and of the contents a suite adds to its cases
    (property C17).

    Mirrors:
      - test_suite/file_reading/suite_file_reading.py ([_separate_configuration_elements],
        [_Parser.apply], [derive_conf_section_environment], [resolve_test_case_handling_setup],
        [_TestCaseInstructionsFromTestSuiteAdder.transform])
      - processing/test_case_handling_setup.py ([ComposedTestCaseTransformer])
      - processing/standalone/accessor_resolver.py ([AccessorResolver._handling_setup])
      - test_suite/file_reading/suite_hierarchy_reading.py ([_SingleFileReader.__call__]: the handling
        setup of a suite is resolved from ITS OWN document and the program-wide default)
      - test_suite/processing.py ([SuitesExecutor._configuration_for_cases_in_suite])
      - processing/processing_utils.py ([AccessorFromParts.apply])
      - processing/processors.py ([Configuration.execution_configuration],
        [_Executor._exe_conf_that_may_be_updated])
      - execution/partial_execution/impl/executor.py ([_PartialExecutor.__init__]: copies of the
        environment for the setup settings and for [InstructionSettings];
        [_setup_post_sds_environment]: sandbox, chdir, copy of the predefined symbols)
      - execution/partial_execution/impl/symbol_validation.py ([SymbolsValidator.__init__]: copy)
      - execution/partial_execution/execution.py ([preserved_cwd], [finally: rmtree])
      - impls/instructions/multi_phase/environ/impl.py ([_populate_if_is_unpopulated])
      - execution/predefined_properties.py ([os_environ_getter]: [dict(os.environ)])
    Executable definitions only. *)
From Coq Require Import List Bool Arith ZArith NArith.
From Exactly Require Import Model.Outcome Model.Exec Model.World Model.Suite.
Import ListNotations.

(** ** Part A.  Suite documents, handling setups, the three ways of running a case *)

(** A preprocessor (an external command line) and a default actor are identified by numbers. *)
Definition preproc := N.
Definition actor_id := N.

Section Documents.
  Context {I : Type}.

  (** test_case_doc.TestCase: the elements of the six phases *)
  Record casedoc := CD {
    d_conf : list I; d_setup : list I; d_act : list I;
    d_before_assert : list I; d_assert : list I; d_cleanup : list I }.

  (** [_TestCaseInstructionsFromTestSuiteAdder.transform]: [append(suite, case)] in every phase,
      [append(case, suite)] in cleanup. *)
  Definition merge (suite tc : casedoc) : casedoc :=
    CD (d_conf suite ++ d_conf tc)
       (d_setup suite ++ d_setup tc)
       (d_act suite ++ d_act tc)
       (d_before_assert suite ++ d_before_assert tc)
       (d_assert suite ++ d_assert tc)
       (d_cleanup tc ++ d_cleanup suite).

  (** An element of the [conf] section of a suite file: an instruction of the suite
      ([ConfigurationSectionInstruction]: [preprocessor = ...]) or an instruction of the
      configuration phase of test cases. *)
  Inductive conf_elem := CESuite (p : preproc) | CECase (i : I).

  (** A suite file as parsed by the section document parser (the [suites] and [cases] sections are
      the business of Model/Suite.v). *)
  Record raw_suite := RS {
    rs_conf : list conf_elem; rs_setup : list I; rs_act : list I;
    rs_before_assert : list I; rs_assert : list I; rs_cleanup : list I }.

  (** [_separate_configuration_elements] *)
  Fixpoint separate (l : list conf_elem) : list preproc * list I :=
    match l with
    | [] => ([], [])
    | CESuite p :: l' => let (s, c) := separate l' in (p :: s, c)
    | CECase i :: l' => let (s, c) := separate l' in (s, i :: c)
    end.

  (** test_suite_doc.TestSuiteDocument (configuration section, case phases) *)
  Record suite_doc := SD { sd_conf : list preproc; sd_case_phases : casedoc }.

  (** [_Parser.apply] *)
  Definition parse_suite (r : raw_suite) : suite_doc :=
    let (s, c) := separate (rs_conf r) in
    SD s (CD c (rs_setup r) (rs_act r) (rs_before_assert r) (rs_assert r) (rs_cleanup r)).

  (** TestCaseHandlingSetup: default actor, preprocessor, transformer.  The transformer is a
      composition of suite-contents adders, applied from the left. *)
  Record handling := HS { hs_actor : actor_id; hs_preproc : preproc; hs_transformer : list casedoc }.

  (** [derive_conf_section_environment]: starts from the default; each [preprocessor = ..]
      instruction replaces the preprocessor; nothing touches the act phase setup. *)
  Definition derive_conf_env (sd : suite_doc) (default : handling) : preproc * actor_id :=
    fold_left (fun env p => (p, snd env)) (sd_conf sd) (hs_preproc default, hs_actor default).

  (** [resolve_test_case_handling_setup] *)
  Definition resolve_handling (sd : suite_doc) (default : handling) : handling :=
    let env := derive_conf_env sd default in
    HS (snd env) (fst env) (hs_transformer default ++ [sd_case_phases sd]).

  (** [ComposedTestCaseTransformer.transform] over the whole composition *)
  Definition transform (t : list casedoc) (tc : casedoc) : casedoc :=
    fold_left (fun acc suite => merge suite acc) t tc.

  (** The suite files on disk. *)
  Inductive suite_state := SSMissing | SSBad | SSGood (r : raw_suite).

  (** [resolve_handling_setup_from_suite_file]; [None] = [SuiteParseError] *)
  Definition handling_from_suite_file (files : fname -> suite_state) (default : handling) (s : fname)
    : option handling :=
    match files s with
    | SSGood r => Some (resolve_handling (parse_suite r) default)
    | _ => None
    end.

  (** [AccessorResolver._handling_setup].  [beside] is what the file system answers for
      [(case.parent / 'exactly.suite').is_file()]: the path of that file if it is one. *)
  Definition get_suite_file (explicit beside : option fname) : option fname :=
    match explicit with
    | Some s => Some s
    | None => beside
    end.
  Definition standalone_handling (files : fname -> suite_state) (default : handling)
             (explicit beside : option fname) : option handling :=
    match get_suite_file explicit beside with
    | None => Some default
    | Some s => handling_from_suite_file files default s
    end.

  (** [_SingleFileReader.__call__] + [SuitesExecutor]: every suite of the hierarchy gets the
      handling setup resolved from its own file and the program-wide default; its cases are
      processed with it, in the order of Model/Suite.v. *)
  Definition case_runs (files : fname -> suite_state) (default : handling) (h : hierarchy)
    : list (fname * fname * option handling) :=
    flat_map (fun s => map (fun c => (h_path s, c, handling_from_suite_file files default (h_path s)))
                           (h_cases s))
             (postorder h).

  (** [AccessorFromParts.apply]: read, preprocess (an external program), parse — together the
      function [source] of the preprocessor and the file — then transform. *)
  Definition accessor (source : preproc -> fname -> access_error + casedoc) (hs : handling) (c : fname)
    : access_error + casedoc :=
    match source (hs_preproc hs) c with
    | inl e => inl e
    | inr d => inr (transform (hs_transformer hs) d)
    end.

  (** What the executor is given: the accessed test case and the default actor. *)
  Definition executor_input (source : preproc -> fname -> access_error + casedoc) (hs : handling) (c : fname)
    : (access_error + casedoc) * actor_id :=
    (accessor source hs c, hs_actor hs).

  (** The test case of the phased executor (Model/Exec.v) denoted by a document. *)
  Definition to_testcase (beh_of : I -> instr) (status_of : list I -> Outcome.tc_status) (atc : list I -> list I -> instr)
             (act_only : bool) (d : casedoc) : testcase :=
    TC (map beh_of (d_conf d)) (map beh_of (d_setup d)) (atc (d_conf d) (d_act d))
       (map beh_of (d_before_assert d)) (map beh_of (d_assert d)) (map beh_of (d_cleanup d))
       (status_of (d_conf d)) act_only.
End Documents.
Arguments casedoc : clear implicits.
Arguments conf_elem : clear implicits.
Arguments raw_suite : clear implicits.
Arguments suite_doc : clear implicits.
Arguments handling : clear implicits.
Arguments suite_state : clear implicits.

(** ** Part B.  What is shared between the cases of one process: a first-order store, so that
    aliasing is expressible *)

Definition env := list (nat * nat).                (* a Python dict of environment variables *)
Definition symtab := list (nat * nat).             (* a SymbolTable *)

Fixpoint env_get (k : nat) (e : env) : option nat :=
  match e with
  | [] => None
  | (k', v) :: e' => if Nat.eqb k k' then Some v else env_get k e'
  end.
Fixpoint env_set (k v : nat) (e : env) : env :=
  match e with
  | [] => [(k, v)]
  | (k', v') :: e' => if Nat.eqb k k' then (k, v) :: e' else (k', v') :: env_set k v e'
  end.
Fixpoint env_unset (k : nat) (e : env) : env :=
  match e with
  | [] => []
  | (k', v') :: e' => if Nat.eqb k k' then env_unset k e' else (k', v') :: env_unset k e'
  end.

(** The heap of mutable dictionaries and symbol tables; a reference is an index; allocation
    appends. *)
Record store := ST { s_envs : list env; s_syms : list symtab }.

Definition get_env (st : store) (r : nat) : env := nth r (s_envs st) [].
Definition get_sym (st : store) (r : nat) : symtab := nth r (s_syms st) [].
Fixpoint upd {A} (l : list A) (r : nat) (x : A) : list A :=
  match l, r with
  | [], _ => []
  | _ :: l', O => x :: l'
  | y :: l', S r' => y :: upd l' r' x
  end.
Definition alloc_env (st : store) (e : env) : store * nat :=
  (ST (s_envs st ++ [e]) (s_syms st), length (s_envs st)).
Definition alloc_sym (st : store) (s : symtab) : store * nat :=
  (ST (s_envs st) (s_syms st ++ [s]), length (s_syms st)).
Definition set_env (st : store) (r : nat) (e : env) : store := ST (upd (s_envs st) r e) (s_syms st).
Definition set_sym (st : store) (r : nat) (s : symtab) : store := ST (s_envs st) (upd (s_syms st) r s).

(** ExecutionConfiguration, as far as it can be updated: references to the environment dictionary
    (or None) and to the predefined symbols, the timeout (an immutable number). *)
Record exe_conf := EC { ec_environ : option nat; ec_timeout : option Z; ec_symbols : nat }.

(** Where the code copies.  The code under verification is [real_policy]; the other policies exist
    to state which copies isolation rests on, and that without them it fails. *)
Record policy := POL {
  p_l1_env : bool;        (* _exe_conf_that_may_be_updated: map_optional(dict, ec.environ) *)
  p_l1_sym : bool;        (* _exe_conf_that_may_be_updated: ec.predefined_symbols.copy() *)
  p_l2_env_setup : bool;  (* _PartialExecutor.__init__: mk_setup_settings_handler(map_optional(dict, environ)) *)
  p_l2_env_instr : bool;  (* _PartialExecutor.__init__: InstructionSettings(map_optional(dict, environ), ..) *)
  p_l2_sym_val : bool;    (* SymbolsValidator.__init__: initial_symbols.copy() *)
  p_l2_sym_post : bool;   (* _setup_post_sds_environment: predefined_symbols.copy() *)
  p_getter : bool }.      (* os_environ_getter: dict(os.environ) *)
Definition real_policy : policy := POL true true true true true true true.
Definition no_copy_policy : policy := POL false false false false false false false.

Definition copy_env (flag : bool) (st : store) (r : option nat) : store * option nat :=
  match r with
  | None => (st, None)
  | Some r => if flag then let (st', r') := alloc_env st (get_env st r) in (st', Some r') else (st, Some r)
  end.
Definition copy_sym (flag : bool) (st : store) (r : nat) : store * nat :=
  if flag then alloc_sym st (get_sym st r) else (st, r).

(** The process (C04's world) and the files in sandboxes: (root, directory, name). *)
Record cworld := CW { cw_w : world; cw_files : list (nat * sds_dir * nat) }.

(** What the objects a running case holds: the two environment cells ([InstructionSettings._environ],
    [SetupSettingsBuilder.environ]: each an optional reference to a dictionary), the timeout cell,
    the symbol table in use (the validator's, later the post-sds one), the sandbox. *)
Inductive env_ref := ERStore (r : nat) | EROsEnviron.   (* a dict in the store, or os.environ itself *)
Record handles := HD {
  h_env_instr : option env_ref;
  h_env_setup : option env_ref;
  h_timeout : option Z;
  h_syms : nat;
  h_root : option nat }.

(** Directories as a case can observe them without knowing the name of its sandbox ... *)
Inductive vdir := VCur (d : option sds_dir) | VAbs (d : dir).
(** ... and as it can name them: inside its own sandbox, or some directory that is not a sandbox
    (sandbox names are made by mkdtemp: a case cannot know the name of another sandbox). *)
Inductive cdir := CCur (d : option sds_dir) | COther (n : nat).

Definition sds_dir_eqb (a b : sds_dir) : bool :=
  match a, b with DAct, DAct | DTmp, DTmp | DResult, DResult | DInternal, DInternal => true | _, _ => false end.

Definition rel_dir (root : option nat) (d : dir) : vdir :=
  match d, root with
  | DSub r x, Some r' => if Nat.eqb r r' then VCur (Some x) else VAbs d
  | DRoot r, Some r' => if Nat.eqb r r' then VCur None else VAbs d
  | _, _ => VAbs d
  end.
Definition abs_dir (root : option nat) (c : cdir) (cwd : dir) : dir :=
  match c, root with
  | COther n, _ => DOther n
  | CCur (Some x), Some r => DSub r x
  | CCur None, Some r => DRoot r
  | CCur _, None => cwd
  end.

(** What a case can observe of its surroundings (never the name of its sandbox). *)
Record view := V {
  v_env : env;                        (* the environment of processes started by instructions *)
  v_act_env : env;                    (* the environment of the action to check *)
  v_timeout : option Z;
  v_syms : symtab;
  v_cwd : vdir;
  v_files : list (sds_dir * nat) }.   (* files in its sandbox *)

Definition deref (cw : cworld) (st : store) (r : option env_ref) : env :=
  match r with
  | Some (ERStore r) => get_env st r
  | Some EROsEnviron | None => w_environ (cw_w cw)      (* None: processes inherit os.environ *)
  end.

Definition files_of (root : option nat) (files : list (nat * sds_dir * nat)) : list (sds_dir * nat) :=
  match root with
  | None => []
  | Some r => map (fun f => (snd (fst f), snd f)) (filter (fun f => Nat.eqb (fst (fst f)) r) files)
  end.

Definition view_of (cw : cworld) (st : store) (h : handles) : view :=
  V (deref cw st (h_env_instr h)) (deref cw st (h_env_setup h)) (h_timeout h) (get_sym st (h_syms h))
    (rel_dir (h_root h) (w_cwd (cw_w cw))) (files_of (h_root h) (cw_files cw)).

(** What an instruction can do with what it is handed. *)
Inductive mutation :=
| MEnvSet (k v : nat) | MEnvUnset (k : nat)           (* through InstructionSettings *)
| MActEnvSet (k v : nat) | MActEnvUnset (k : nat)     (* through SetupSettingsBuilder *)
| MTimeout (t : option Z)                             (* InstructionSettings.set_timeout *)
| MSymPut (n v : nat)                                 (* symbols.put on the table in use *)
| MChdir (d : cdir)                                   (* os.chdir *)
| MFile (d : sds_dir) (name : nat).                   (* create a file in the sandbox *)

Definition set_cwd (cw : cworld) (d : dir) : cworld :=
  let w := cw_w cw in CW (W d (w_environ w) (w_roots w) (w_next w)) (cw_files cw).
Definition set_os_environ (cw : cworld) (e : env) : cworld :=
  let w := cw_w cw in CW (W (w_cwd w) e (w_roots w) (w_next w)) (cw_files cw).

(** [_populate_if_is_unpopulated]: a cell that is None gets [default_environ_getter()]:
    a new dictionary with the contents of os.environ (or, without that copy, os.environ itself). *)
Definition populate (pol : policy) (cw : cworld) (st : store) (c : option env_ref) : store * env_ref :=
  match c with
  | Some r => (st, r)
  | None => if p_getter pol then let (st', r) := alloc_env st (w_environ (cw_w cw)) in (st', ERStore r)
            else (st, EROsEnviron)
  end.

Definition modify_env (cw : cworld) (st : store) (r : env_ref) (f : env -> env) : cworld * store :=
  match r with
  | ERStore r => (cw, set_env st r (f (get_env st r)))
  | EROsEnviron => (set_os_environ cw (f (w_environ (cw_w cw))), st)
  end.

Definition apply_mutation (pol : policy) (s : cworld * store * handles) (m : mutation) : cworld * store * handles :=
  let '(cw, st, h) := s in
  match m with
  | MEnvSet k v =>
      let (st1, r) := populate pol cw st (h_env_instr h) in
      let (cw', st2) := modify_env cw st1 r (env_set k v) in
      (cw', st2, HD (Some r) (h_env_setup h) (h_timeout h) (h_syms h) (h_root h))
  | MEnvUnset k =>
      let (st1, r) := populate pol cw st (h_env_instr h) in
      let (cw', st2) := modify_env cw st1 r (env_unset k) in
      (cw', st2, HD (Some r) (h_env_setup h) (h_timeout h) (h_syms h) (h_root h))
  | MActEnvSet k v =>
      let (st1, r) := populate pol cw st (h_env_setup h) in
      let (cw', st2) := modify_env cw st1 r (env_set k v) in
      (cw', st2, HD (h_env_instr h) (Some r) (h_timeout h) (h_syms h) (h_root h))
  | MActEnvUnset k =>
      let (st1, r) := populate pol cw st (h_env_setup h) in
      let (cw', st2) := modify_env cw st1 r (env_unset k) in
      (cw', st2, HD (h_env_instr h) (Some r) (h_timeout h) (h_syms h) (h_root h))
  | MTimeout t => (cw, st, HD (h_env_instr h) (h_env_setup h) t (h_syms h) (h_root h))
  | MSymPut n v => (cw, set_sym st (h_syms h) (env_set n v (get_sym st (h_syms h))), h)
  | MChdir d => (set_cwd cw (abs_dir (h_root h) d (w_cwd (cw_w cw))), st, h)
  | MFile d name =>
      match h_root h with
      | Some r => (CW (cw_w cw) (cw_files cw ++ [(r, d, name)]), st, h)
      | None => (cw, st, h)
      end
  end.

Definition apply_mutations (pol : policy) (s : cworld * store * handles) (ms : list mutation) :=
  fold_left (apply_mutation pol) ms s.

(** A test case, as far as the rest of the process is concerned: any function of what it can see.
    Stage 1 = configuration phase, parsing of the act phase, validation of symbols, validation
    before the sandbox exists; it ends the case ([inl]) or lets it continue.  Stage 2 = everything
    from the construction of the sandbox to the end of cleanup. *)
Record case_sem (R : Type) := CS {
  cs_stage1 : view -> (R + unit) * list mutation;
  cs_stage2 : view -> R * list mutation }.
Arguments CS {R}. Arguments cs_stage1 {R}. Arguments cs_stage2 {R}.

(** What is recorded of one case: what it saw when each stage began, what it could see when each
    stage ended, and its result. *)
Record obs (R : Type) := OBS {
  o_view1 : view; o_end1 : view; o_view2 : option view; o_end2 : option view; o_result : R }.
Arguments OBS {R}. Arguments o_view1 {R}. Arguments o_end1 {R}. Arguments o_view2 {R}.
Arguments o_end2 {R}. Arguments o_result {R}.

Definition remove_root_files (r : nat) (cw : cworld) : cworld :=
  CW (remove_root r (cw_w cw)) (filter (fun f => negb (Nat.eqb (fst (fst f)) r)) (cw_files cw)).

(** [_PartialExecutor.execute] (inside [preserved_cwd] / [finally: rmtree]) once the executor
    object exists: [s] = the process, the store, and what the executor holds; [sym1] = the
    predefined symbols of its configuration. *)
Definition run_from_stage1 {R} (pol : policy) (keep : bool) (sem : case_sem R) (saved_cwd : dir) (sym1 : nat)
           (s : cworld * store * handles) : cworld * store * obs R :=
  let '(cw, st5, h1) := s in
  let v1 := view_of cw st5 h1 in
  let (r1, m1) := cs_stage1 sem v1 in
  let '(cw1, st6, h1') := apply_mutations pol (cw, st5, h1) m1 in
  let e1 := view_of cw1 st6 h1' in
  match r1 with
  | inl r =>
      (* no sandbox; preserved_cwd *)
      (set_cwd cw1 saved_cwd, st6, OBS v1 e1 None None r)
  | inr _ =>
      (* _setup_post_sds_environment: construct_at(mkdtemp), chdir(act), copy of the predefined symbols *)
      let w := cw_w cw1 in
      let root := w_next w in
      let cw2 := CW (W (DSub root DAct) (w_environ w) (root :: w_roots w) (S root)) (cw_files cw1) in
      let (st7, sym_post) := copy_sym (p_l2_sym_post pol) st6 sym1 in
      let h2 := HD (h_env_instr h1') (h_env_setup h1') (h_timeout h1') sym_post (Some root) in
      let v2 := view_of cw2 st7 h2 in
      let (r2, m2) := cs_stage2 sem v2 in
      let '(cw3, st8, h2') := apply_mutations pol (cw2, st7, h2) m2 in
      let e2 := view_of cw3 st8 h2' in
      (* finally: rmtree unless keep; preserved_cwd *)
      let cw4 := if keep then cw3 else remove_root_files root cw3 in
      (set_cwd cw4 saved_cwd, st8, OBS v1 e1 (Some v2) (Some e2) r2)
  end.

(** [_Executor.apply] -> [full_execution.execute] -> [partial_execution.execute] for one case. *)
Definition run_case {R} (pol : policy) (keep : bool) (ec : exe_conf) (sem : case_sem R) (s : cworld * store)
  : cworld * store * obs R :=
  let (cw, st) := s in
  let saved_cwd := w_cwd (cw_w cw) in
  (* _exe_conf_that_may_be_updated *)
  let (st1, env1) := copy_env (p_l1_env pol) st (ec_environ ec) in
  let (st2, sym1) := copy_sym (p_l1_sym pol) st1 (ec_symbols ec) in
  (* _PartialExecutor.__init__ *)
  let (st3, env_setup) := copy_env (p_l2_env_setup pol) st2 env1 in
  let (st4, env_instr) := copy_env (p_l2_env_instr pol) st3 env1 in
  (* SymbolsValidator.__init__ *)
  let (st5, sym_val) := copy_sym (p_l2_sym_val pol) st4 sym1 in
  let h1 := HD (option_map ERStore env_instr) (option_map ERStore env_setup) (ec_timeout ec) sym_val None in
  run_from_stage1 pol keep sem saved_cwd sym1 (cw, st5, h1).

(** [SuitesExecutor]: the cases of all suites, one after the other, in one process; every
    [Configuration.execution_configuration()] refers to the same predefined properties. *)
Fixpoint run_cases {R} (pol : policy) (keep : bool) (ec : exe_conf) (cases : list (case_sem R)) (s : cworld * store)
  : cworld * store * list (obs R) :=
  match cases with
  | [] => (s, [])
  | c :: cs =>
      let '(cw, st, o) := run_case pol keep ec c s in
      let '(s', os) := run_cases pol keep ec cs (cw, st) in
      (s', o :: os)
  end.

(** ** Instruction objects of a suite are shared by its cases

    [_TestCaseInstructionsFromTestSuiteAdder] holds the suite document parsed ONCE; [transform]
    splices the same instruction objects into every case of the suite (a case file, in contrast, is
    parsed anew for every run).  An object that kept a memory [M] of what it saw would carry it from
    one case to the next.  A case together with such objects: its behaviour given the memory, and
    what the objects remember after the case — a function of what they saw during it. *)
Record shared_case (R M : Type) := SHC { shc_sem : M -> case_sem R; shc_remember : M -> obs R -> M }.
Arguments SHC {R M}. Arguments shc_sem {R M}. Arguments shc_remember {R M}.

Fixpoint run_cases_shared {R M} (pol : policy) (keep : bool) (ec : exe_conf) (cases : list (shared_case R M)) (m : M)
         (s : cworld * store) : cworld * store * list (obs R) * M :=
  match cases with
  | [] => (s, [], m)
  | c :: cs =>
      let '(cw, st, o) := run_case pol keep ec (shc_sem c m) s in
      let '(s', os, m') := run_cases_shared pol keep ec cs (shc_remember c m o) (cw, st) in
      (s', o :: os, m')
  end.
