(** * Model of a suite run (property C16).

    Mirrors:
      - test_suite/file_reading/suite_hierarchy_reading.py ([_SingleFileReader]: global [visited],
        suites section resolved and checked before the cases section, recursion afterwards)
      - test_suite/instruction_set/utils.py, sections/suites.py, sections/cases.py
        (plain name -> one path or error; glob -> sorted matches)
      - test_suite/enumeration.py ([DepthFirstEnumerator]: sub-suites before the suite)
      - test_suite/processing.py ([SuitesExecutor]: suites in that order, cases in listing order)
      - test_suite/reporters/simple_progress_reporter.py ([SUCCESS_STATUSES], OK/0 vs ERROR/4)
      - test_suite/reporters/junit.py ([FAIL_STATUSES], [ERROR_STATUSES], counters, child elements)
      - test_suite/exit_values.py
    Executable definitions only. *)
From Coq Require Import ZArith NArith List Bool Sorting.Mergesort Orders.
From Exactly Require Import Model.Outcome.
Import ListNotations.

(** Files are identified by numbers whose order is the sort order of their paths. *)
Definition fname := N.

(** One line of a [suites] or [cases] section, after looking at the file system:
    a plain name that resolves to a file ([Some]) or is not accessible ([None]);
    or a glob pattern with its set of matches (in the arbitrary order the OS lists them). *)
Inductive ref_instr := RPlain (f : option fname) | RGlob (matches : list fname).

(** A suite file: not parsable, or its two sections. *)
Inductive sfile := SBad | SGood (suites : list ref_instr) (cases : list ref_instr).

Definition fsys := list (fname * sfile).
Fixpoint lookup (fs : fsys) (p : fname) : option sfile :=
  match fs with
  | [] => None
  | (q, f) :: fs' => if N.eqb p q then Some f else lookup fs' p
  end.

Module NOrder <: TotalLeBool.
  Definition t := N.
  Definition leb := N.leb.
  Lemma leb_total : forall x y, leb x y = true \/ leb y x = true.
  Proof. intros x y. unfold leb. destruct (N.leb_spec x y); [left; reflexivity|right]. apply N.leb_le. apply N.lt_le_incl; assumption. Qed.
End NOrder.
Module NSort := Sort NOrder.

(** utils.FileNamesResolver*.resolve *)
Definition resolve_instr (r : ref_instr) : option (list fname) :=
  match r with
  | RPlain None => None                      (* FileNotAccessibleSimpleError *)
  | RPlain (Some f) => Some [f]
  | RGlob ms => Some (NSort.sort ms)
  end.

Inductive read_error := EParse | ENotAccessible | EDoubleInclusion | EOutOfFuel.

Inductive hierarchy := H (path : fname) (subs : list hierarchy) (cases : list fname).

Definition mem_N (x : N) (l : list N) : bool := existsb (N.eqb x) l.

(** [check_suite_paths_for_double_inclusion] for the paths of one instruction *)
Fixpoint check_double (visited : list fname) (paths : list fname) : option (list fname) :=
  match paths with
  | [] => Some visited
  | p :: ps => if mem_N p visited then None else check_double (p :: visited) ps
  end.

(** [paths_for_instructions] of the suites section (with the visited check) *)
Fixpoint resolve_suites (visited : list fname) (is_ : list ref_instr)
  : read_error + (list fname * list fname) :=
  match is_ with
  | [] => inr ([], visited)
  | i :: is' =>
      match resolve_instr i with
      | None => inl ENotAccessible
      | Some paths =>
          match check_double visited paths with
          | None => inl EDoubleInclusion
          | Some visited' =>
              match resolve_suites visited' is' with
              | inl e => inl e
              | inr (rest, v) => inr (paths ++ rest, v)
              end
          end
      end
  end.

(** [paths_for_instructions] of the cases section ([no_check]) *)
Fixpoint resolve_cases (is_ : list ref_instr) : read_error + list fname :=
  match is_ with
  | [] => inr []
  | i :: is' =>
      match resolve_instr i with
      | None => inl ENotAccessible
      | Some paths => match resolve_cases is' with inl e => inl e | inr rest => inr (paths ++ rest) end
      end
  end.

(** [_SingleFileReader.__call__]; the visited dictionary is threaded through. *)
Fixpoint read (fuel : nat) (fs : fsys) (visited : list fname) (p : fname)
  : read_error + (hierarchy * list fname) :=
  match fuel with
  | O => inl EOutOfFuel
  | S fuel' =>
      match lookup fs p with
      | None => inl ENotAccessible       (* only possible for the root: references are checked when resolved *)
      | Some SBad => inl EParse
      | Some (SGood ss cs) =>
          match resolve_suites visited ss with
          | inl e => inl e
          | inr (sub_paths, visited1) =>
              match resolve_cases cs with
              | inl e => inl e
              | inr case_paths =>
                  let subs :=
                    (fix subs (ps : list fname) (v : list fname) : read_error + (list hierarchy * list fname) :=
                       match ps with
                       | [] => inr ([], v)
                       | q :: ps' =>
                           match read fuel' fs v q with
                           | inl e => inl e
                           | inr (h, v') =>
                               match subs ps' v' with
                               | inl e => inl e
                               | inr (hs, v'') => inr (h :: hs, v'')
                               end
                           end
                       end) in
                  match subs sub_paths visited1 with
                  | inl e => inl e
                  | inr (hs, v) => inr (H p hs case_paths, v)
                  end
              end
          end
      end
  end.

Definition read_root (fs : fsys) (root : fname) : read_error + hierarchy :=
  match read (S (length fs)) fs [root] root with
  | inl e => inl e
  | inr (h, _) => inr h
  end.

(** enumeration.DepthFirstEnumerator *)
Fixpoint postorder (h : hierarchy) : list hierarchy :=
  match h with
  | H p subs cs => flat_map postorder subs ++ [h]
  end.
Definition h_path (h : hierarchy) := match h with H p _ _ => p end.
Definition h_cases (h : hierarchy) := match h with H _ _ cs => cs end.

(** processing.SuitesExecutor: the cases processed, in order (suite file, case file) *)
Definition processed (h : hierarchy) : list (fname * fname) :=
  flat_map (fun s => map (fun c => (h_path s, c)) (h_cases s)) (postorder h).

(** *** Reporters.  A case result is a [proc_result] of the C02 model. *)
Definition progress_success (r : proc_result) : bool :=
  match r with
  | Executed (PASS | SKIPPED | XFAIL) _ _ => true
  | _ => false
  end.

(** (exit code, identifier: true = OK, false = ERROR) *)
Definition progress_final (results : list proc_result) : Z * bool :=
  if forallb progress_success results then (0%Z, true) else (4%Z, false).

Inductive junit_child := JNone | JFailure | JError.
Definition junit_classify (r : proc_result) : junit_child :=
  match r with
  | Executed (FAIL | XPASS) _ _ => JFailure
  | Executed (SYNTAX_ERROR | VALIDATION_ERROR | HARD_ERROR | INTERNAL_ERROR) _ _ => JError
  | Executed _ _ _ => JNone
  | _ => JError
  end.
Definition is_failure c := match c with JFailure => true | _ => false end.
Definition is_error c := match c with JError => true | _ => false end.

Record junit_counts := JC { j_tests : nat; j_failures : nat; j_errors : nat; j_children : list junit_child }.
Definition junit_report (results : list proc_result) : junit_counts :=
  let cs := map junit_classify results in
  JC (length results) (length (filter is_failure cs)) (length (filter is_error cs)) cs.

(** The whole run: read everything first; on a read error nothing is processed. *)
Inductive reporter := Progress | JUnit.
Record run_result := Run {
  run_exit : Z;
  run_invalid : bool;                       (* INVALID_SUITE *)
  run_processed : list (fname * fname) }.

Definition run_suite (rep : reporter) (fs : fsys) (root : fname) (outcome : fname -> fname -> proc_result)
  : run_result :=
  match read_root fs root with
  | inl _ => Run 3 true []
  | inr h =>
      let cases := processed h in
      let results := map (fun sc => outcome (fst sc) (snd sc)) cases in
      Run (match rep with Progress => fst (progress_final results) | JUnit => 0%Z end) false cases
  end.
