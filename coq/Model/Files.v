(** Model of the code anchored by property C15 (executable definitions ONLY, no proofs).

    Part 1 - populating a directory from a FILE-LIST
      impls/types/files_source/impl/file_list.py        [_IsValidPosixPath], [_child_dp], [Primitive.populate]
      impls/types/files_source/impl/file_makers/utils.py [NewFileCreator], [ExistingFileModifier]
      impls/types/files_source/impl/file_makers/regular.py, dir_.py  [RegularFileMaker], [DirFileMaker]
      impls/types/files_source/impl/copy_dir_contents.py [_CopyDirContents.populate]
      impls/instructions/multi_phase/new_dir.py, new_file.py  (an instruction is one maker applied to a path)
    Part 2 - the files generators and the matchers
      impls/types/files_matcher/models.py                [_FilesGeneratorForRecursive], [sub_set], [prune], [files]
      impls/types/files_matcher/impl/{emptiness,num_files,quant_over_files,prune,sub_set_selection}.py
      impls/types/files_matcher/impl/matches/{matches_full,matches_non_full}.py
      impls/types/files_condition/impl/literal.py        [_DdvHelper.files_as_map]
      impls/types/file_matcher/impl/{file_type,dir_contents,file_contents_utils}.py, impl/names/properties.py

    The file system is a [tree] (Lib/Tree.v); every operation takes the path from the root of that
    tree, like the code which works with absolute paths on one file system.  What the model cannot
    contain enters as Section variables: [scandir] (the order in which the OS lists a directory),
    [glob_str] / [glob_path] (Python [fnmatch.fnmatch] / [PurePath.match]). *)
From Coq Require Import NArith ZArith List Bool Arith.
From Exactly Require Import Lib.Tree.
Import ListNotations.

(* ------------------------------------------------------------------------------------------ *)
(** * Part 0: names *)

Definition SLASH : N := 47%N.
Definition DOT : N := 46%N.
Definition COLON : N := 58%N.
Definition SEMICOLON : N := 59%N.
Definition DOTDOT : name := [DOT; DOT].

(** [str.split('/')] *)
Fixpoint split_slash (s : name) : list name :=
  match s with
  | [] => [[]]
  | c :: s' =>
      if N.eqb c SLASH then [] :: split_slash s'
      else match split_slash s' with
           | [] => [[c]]             (* not reachable: the result is never empty *)
           | x :: r => (c :: x) :: r
           end
  end.

(** [PurePosixPath(s).parts] without the root: empty components and ["."] are dropped, [".."] is kept. *)
Definition posix_parts (s : name) : path :=
  filter (fun c => negb (name_eqb c [] || name_eqb c [DOT])) (split_slash s).

(** [PurePosixPath(s).is_absolute()] *)
Definition posix_abs (s : name) : bool :=
  match s with
  | c :: _ => N.eqb c SLASH
  | [] => false
  end.

Definition mem_char (c : N) (s : name) : bool := existsb (N.eqb c) s.
Definition mem_name (n : name) (l : list name) : bool := existsb (name_eqb n) l.
Definition mem_path (p : path) (l : list path) : bool := existsb (path_eqb p) l.

(** file_list.py [_IsValidPosixPath]: same tests, same order. *)
Definition valid_name (s : name) : bool :=
  match s with
  | [] => false
  | _ =>
      if mem_char COLON s || mem_char SEMICOLON s then false
      else if posix_abs s then false
      else if mem_name DOTDOT (posix_parts s) then false
      else true
  end.

(** literal.py [_IsRelativePosixPath] (names of a FILES-CONDITION) *)
Definition valid_fc_name (s : name) : bool :=
  match s with
  | [] => false
  | _ => negb (posix_abs s)
  end.

(* ------------------------------------------------------------------------------------------ *)
(** * Part 1: FILE-LIST and populate *)

Inductive modif := Create | Append.      (* [=] / [+=] *)

Inductive entry :=
| EFile (nm : name) (m : option (modif * list N))      (* file NAME | file NAME = 'c' | file NAME += 'c' *)
| EDir (nm : name)                                     (* dir NAME *)
| EDirList (nm : name) (md : modif) (es : list entry)  (* dir NAME (=|+=) { ... } *)
| EDirCopy (nm : name) (md : modif) (src : dirc).      (* dir NAME (=|+=) dir-contents-of SRC; the
                                                          entries of SRC in [iterdir] order *)

Definition entry_name (e : entry) : name :=
  match e with
  | EFile nm _ | EDir nm | EDirList nm _ _ | EDirCopy nm _ _ => nm
  end.

(** Validation (pre-SDS): every FILE-NAME of every nested FILE-LIST ([_Ddv] collects the validator
    of every file spec; the maker's validator is the validator of its contents). *)
Fixpoint entry_valid (e : entry) : bool :=
  valid_name (entry_name e)
  && match e with
     | EDirList _ _ sub =>
         (fix go (es : list entry) : bool :=
            match es with
            | [] => true
            | e' :: es' => entry_valid e' && go es'
            end) sub
     | _ => true
     end.

Definition entries_valid (es : list entry) : bool := forallb entry_valid es.

(** The contents (not the own name) of one instruction [dir PATH ...] / [file PATH ...]: the PATH of
    an instruction is a PATH of exactly, not a FILE-NAME; it is not subject to [_IsValidPosixPath]. *)
Definition instr_valid (e : entry) : bool :=
  match e with
  | EDirList _ _ sub => entries_valid sub
  | _ => true
  end.

(** ** File-system primitives on a tree (path from the root of the tree) *)

Inductive lk :=
| LFound (t : tree)
| LNoEnt          (* ENOENT (also: a dangling symbolic link that is not the last component) *)
| LNotDir         (* ENOTDIR: a component that is not the last is (a link to) a regular file *)
| LViaLink.       (* a component that is not the last is a symbolic link to a directory:
                     the path leaves the tree - outside this model *)

(** [os.lstat] *)
Fixpoint lstat (p : path) (t : tree) : lk :=
  match p with
  | [] => LFound t
  | n :: p' =>
      match t with
      | Dir es => match lookup n es with
                  | Some c => lstat p' c
                  | None => LNoEnt
                  end
      | File _ => LNotDir
      | Link _ => match resolve t with
                  | None => LNoEnt
                  | Some (Dir _) => LViaLink
                  | Some _ => LNotDir
                  end
      end
  end.

Inductive mk :=
| MOk (t : tree)
| MNotDir         (* FileExistsError / NotADirectoryError: something on the way is a regular file *)
| MViaLink.

(** A chain of new empty directories [n1/n2/.../nk] as one tree. *)
Fixpoint chain (p : path) : tree :=
  match p with
  | [] => Dir []
  | n :: p' => Dir [(n, chain p')]
  end.

(** [Path.mkdir(parents=True, exist_ok=True)]: every missing directory of [p] is created; an existing
    regular file on the way (or as [p] itself) is an error, raised before anything is created. *)
Fixpoint mkdirs (p : path) (t : tree) : mk :=
  match t with
  | Dir es =>
      match p with
      | [] => MOk t
      | n :: p' =>
          match lookup n es with
          | Some c => match mkdirs p' c with
                      | MOk c' => MOk (Dir (update n c' es))
                      | r => r
                      end
          | None => MOk (Dir (es ++ [(n, chain p')]))
          end
      end
  | File _ => MNotDir
  | Link _ => match resolve t with
              | Some (Dir _) => MViaLink
              | _ => MNotDir       (* [os.mkdir] on a dangling link: FileExistsError, and it is no directory *)
              end
  end.

(** Apply [f] to the node at [p] (which must exist, reached through directories only). *)
Fixpoint alter (p : path) (f : tree -> option tree) (t : tree) : option tree :=
  match p with
  | [] => f t
  | n :: p' =>
      match t with
      | Dir es => match lookup n es with
                  | Some c => match alter p' f c with
                              | Some c' => Some (Dir (update n c' es))
                              | None => None
                              end
                  | None => None
                  end
      | _ => None
      end
  end.

(** A new entry [n] in a directory node ([open(.., 'x')] / [os.mkdir]: fails if it exists). *)
Definition add_entry (n : name) (new : tree) (t : tree) : option tree :=
  match t with
  | Dir es => match lookup n es with
              | None => Some (Dir (es ++ [(n, new)]))
              | Some _ => None
              end
  | _ => None
  end.

Fixpoint split_last (p : path) : option (path * name) :=
  match p with
  | [] => None
  | [n] => Some ([], n)
  | n :: p' => match split_last p' with
               | Some (q, l) => Some (n :: q, l)
               | None => None
               end
  end.

Inductive outcome :=
| Done
| HardError
| OutsideModel. (* the model does not predict what happens: a symbolic link to a directory on the
                   way of a path that is written, or a FILE-NAME that is absolute / has a [..]
                   component reaching a maker (validation excludes it: Proofs/FilesPopulate.v) *)

(** [NewFileCreator.make] + the maker ([RegularFileMaker._create_file] for [new = File c]:
    [parent.mkdir(parents=True, exist_ok=True)], [open('x')]; [DirFileMaker._create_dir] for
    [new = Dir []]: [path.mkdir(parents=True)] = parents with exist_ok, then [os.mkdir]).
    1. [os.stat(follow_symlinks=False)] succeeds  => HardError ("file exists")
    2. any OSError of the maker                   => HardError *)
Definition create (p : path) (new : tree) (st : tree) : tree * outcome :=
  match lstat p st with
  | LFound _ => (st, HardError)
  | LViaLink => (st, OutsideModel)
  | LNoEnt | LNotDir =>
      match split_last p with
      | None => (st, HardError)             (* not reachable: [lstat [] _] is [LFound] *)
      | Some (parent, n) =>
          match mkdirs parent st with
          | MOk st1 => match alter parent (add_entry n new) st1 with
                       | Some st2 => (st2, Done)
                       | None => (st1, HardError)
                       end
          | MNotDir => (st, HardError)
          | MViaLink => (st, OutsideModel)
          end
      end
  end.

(** [ExistingFileModifier._assert_is_valid_path]: [os.stat] (links followed) must give the type. *)
Inductive existing := ExFile (c : list N) | ExDir | ExBad | ExViaLink.

Definition stat_existing (p : path) (st : tree) : existing :=
  match lstat p st with
  | LFound (File c) => ExFile c
  | LFound (Dir _) => ExDir
  | LFound (Link tgt) => match resolve (Link tgt) with
                         | None => ExBad            (* dangling: [os.stat] fails *)
                         | Some _ => ExViaLink      (* the modification would go to the target *)
                         end
  | LViaLink => ExViaLink
  | LNoEnt | LNotDir => ExBad
  end.

(** [shutil.copytree(src, dst)] (symlinks=False): links are replaced by what they lead to; a dangling
    link is skipped and makes the copy fail AFTER everything else has been copied.
    Result: the copy ([None]: nothing to copy, dangling) and "an error was recorded". *)
Fixpoint deref (t : tree) : option tree * bool :=
  match t with
  | File c => (Some (File c), false)
  | Link None => (None, true)
  | Link (Some t') => deref t'
  | Dir es =>
      let r := (fix go (es : dirc) : dirc * bool :=
                  match es with
                  | [] => ([], false)
                  | p :: es' =>
                      let d := deref (snd p) in
                      let r' := go es' in
                      (match fst d with Some c => (fst p, c) :: fst r' | None => fst r' end,
                       snd d || snd r')
                  end) es in
      (Some (Dir (fst r)), snd r)
  end.

(** [_CopyDirContents.populate]: for every entry of the source directory, in [iterdir] order:
    [lstat] of the destination succeeds => HardError (name clash); else copy
    ([copytree] if [is_dir()] (links followed), else [copy_file] which opens the source for reading). *)
Fixpoint copy_into (src : dirc) (base : path) (st : tree) : tree * outcome :=
  match src with
  | [] => (st, Done)
  | (n, s) :: src' =>
      match lstat (base ++ [n]) st with
      | LFound _ => (st, HardError)
      | LViaLink => (st, OutsideModel)
      | LNotDir => (st, HardError)          (* not reachable: [base] is a directory *)
      | LNoEnt =>
          match deref s with
          | (None, _) => (st, HardError)    (* copy_file on a dangling link: nothing is created *)
          | (Some c, err) =>
              match alter base (add_entry n c) st with
              | None => (st, HardError)     (* not reachable *)
              | Some st1 => if err then (st1, HardError) else copy_into src' base st1
              end
          end
      end
  end.

(** One FILE-SPEC made at [base/NAME] ([Primitive.populate]: [_child_dp(directory, PurePosixPath(name))]);
    [populate] = the specs of a list in order, stopping at the first HardError (an exception). *)
Fixpoint make (e : entry) (base : path) (st : tree) {struct e} : tree * outcome :=
  let p := base ++ posix_parts (entry_name e) in
  if posix_abs (entry_name e) || mem_name DOTDOT (posix_parts (entry_name e)) then (st, OutsideModel) else
  match e with
  | EFile _ None => create p (File []) st
  | EFile _ (Some (Create, c)) => create p (File c) st
  | EFile _ (Some (Append, c)) =>
      match stat_existing p st with
      | ExFile _ => match alter p (fun t => match t with File c0 => Some (File (c0 ++ c)) | _ => None end) st with
                    | Some st1 => (st1, Done)
                    | None => (st, HardError)   (* not reachable *)
                    end
      | ExViaLink => (st, OutsideModel)
      | ExDir | ExBad => (st, HardError)
      end
  | EDir _ => create p (Dir []) st
  | EDirList _ Create es =>
      match create p (Dir []) st with
      | (st1, Done) =>
          (fix go (es : list entry) (st : tree) : tree * outcome :=
             match es with
             | [] => (st, Done)
             | e' :: es' => match make e' p st with
                            | (st', Done) => go es' st'
                            | r => r
                            end
             end) es st1
      | r => r
      end
  | EDirList _ Append es =>
      match stat_existing p st with
      | ExDir =>
          (fix go (es : list entry) (st : tree) : tree * outcome :=
             match es with
             | [] => (st, Done)
             | e' :: es' => match make e' p st with
                            | (st', Done) => go es' st'
                            | r => r
                            end
             end) es st
      | ExViaLink => (st, OutsideModel)
      | ExFile _ | ExBad => (st, HardError)
      end
  | EDirCopy _ Create src =>
      match create p (Dir []) st with
      | (st1, Done) => copy_into src p st1
      | r => r
      end
  | EDirCopy _ Append src =>
      match stat_existing p st with
      | ExDir => copy_into src p st
      | ExViaLink => (st, OutsideModel)
      | ExFile _ | ExBad => (st, HardError)
      end
  end.

Fixpoint populate (es : list entry) (base : path) (st : tree) : tree * outcome :=
  match es with
  | [] => (st, Done)
  | e :: es' => match make e base st with
                | (st', Done) => populate es' base st'
                | r => r
                end
  end.

(** A test case whose [setup] phase is a sequence of [dir] / [file] instructions, run on the
    (initially empty) act directory.  All instructions are validated before the first is executed. *)
Inductive status := SPass | SHardError | SValidationError | SOutsideModel.

(** An instruction of the setup phase: [dir PATH ..] / [file PATH ..] (a maker applied to PATH), or
    [$ ln -s TARGET PATH] which the harness uses to put a symbolic link into the directory
    ([tgt]: what the link resolves to). *)
Inductive instr :=
| IMake (e : entry)
| ISymlink (p : path) (tgt : option tree).

Definition instr_ok (i : instr) : bool :=
  match i with IMake e => instr_valid e | ISymlink _ _ => true end.

Definition run_instr (i : instr) (st : tree) : tree * outcome :=
  match i with
  | IMake e => make e [] st
  | ISymlink p tgt =>
      match split_last p with
      | Some (parent, n) => match alter parent (add_entry n (Link tgt)) st with
                            | Some st' => (st', Done)
                            | None => (st, HardError)    (* [ln] fails: the shell instruction is a HARD_ERROR *)
                            end
      | None => (st, HardError)
      end
  end.

Fixpoint run_seq (is : list instr) (st : tree) : tree * outcome :=
  match is with
  | [] => (st, Done)
  | i :: is' => match run_instr i st with
                | (st', Done) => run_seq is' st'
                | r => r
                end
  end.

Definition run_instrs (is : list instr) (st : tree) : tree * status :=
  if forallb instr_ok is
  then match run_seq is st with
       | (st', Done) => (st', SPass)
       | (st', HardError) => (st', SHardError)
       | (st', OutsideModel) => (st', SOutsideModel)
       end
  else (st, SValidationError).

(* ------------------------------------------------------------------------------------------ *)
(** * Part 2: files generators and matchers *)

Inductive err := EHard | EMiss | EFuel.
(** EHard: HardErrorException; EMiss: the oracle table of the case has no answer (harness defect,
    loud); EFuel: out of fuel (proved unreachable, Proofs/FilesGen.v) *)
Inductive res (A : Type) := Ok (a : A) | Err (e : err).
Arguments Ok {A} a.
Arguments Err {A} e.

(** A file as seen by a matcher: path relative to the root of the FILES-MATCHER model
    ([FileModel.relative_to_root_dir]), path from the top directory of the case (stands for the
    absolute path [FileModel.path]; its first component is the name of that directory), the node. *)
Record elem := Elem { e_rel : path; e_abs : path; e_node : tree }.

Inductive gencfg :=
| NonRec
| Rec (mn mx : option nat).     (* -recursive [-min-depth N] [-max-depth N] *)

Inductive ftype := TFile | TDir | TSymlink.
Inductive namepart := PName | PStem | PSuffixes | PSuffix.
Inductive cmp := CEq | CNe | CLt | CLe | CGt | CGe.

Inductive tmatcher :=                 (* TEXT-MATCHER under [contents] *)
| TEmpty
| TEquals (c : list N)
| TOpaque (k : nat)                   (* any other TEXT-MATCHER (number k): its verdict on a text is an oracle *)
| TNot (m : tmatcher).

Inductive fmatcher :=                 (* FILE-MATCHER *)
| FConst (b : bool)
| FType (t : ftype)
| FName (part : namepart) (pat : nat)      (* name|stem|suffixes|suffix GLOB-PATTERN (pattern number) *)
| FPath (pat : nat)                        (* path GLOB-PATTERN *)
| FNameRe (part : namepart) (pat : nat)    (* name|stem|suffixes|suffix ~ REGEX (pattern number) *)
| FPathRe (pat : nat)                      (* path ~ REGEX *)
| FContents (m : tmatcher)
| FRun (prog : nat)                        (* run PROGRAM (program number): path as last argument, exit code 0 = match *)
| FDirContents (cfg : gencfg) (m : fsmatcher)
| FNot (m : fmatcher)
| FAnd (a b : fmatcher)
| FOr (a b : fmatcher)
with fsmatcher :=                     (* FILES-MATCHER *)
| SConst (b : bool)
| SEmpty
| SNumFiles (op : cmp) (n : Z)
| SEvery (m : fmatcher)
| SAny (m : fmatcher)
| SMatches (full : bool) (fc : fcond)
| SSelection (f : fmatcher) (m : fsmatcher)
| SPrune (f : fmatcher) (m : fsmatcher)
| SNot (m : fsmatcher)
| SAnd (a b : fsmatcher)
| SOr (a b : fsmatcher)
with fcond :=                         (* FILES-CONDITION literal: FILE-NAME [: FILE-MATCHER] per line *)
| FCNil
| FCName (nm : name) (rest : fcond)
| FCNameM (nm : name) (m : fmatcher) (rest : fcond).

Definition cmp_holds (op : cmp) (a b : Z) : bool :=
  match op with
  | CEq => Z.eqb a b | CNe => negb (Z.eqb a b)
  | CLt => Z.ltb a b | CLe => Z.leb a b
  | CGt => Z.ltb b a | CGe => Z.leb b a
  end.

(** impl/names/properties.py *)
Fixpoint take_until_dot (s : name) : name :=           (* [name.split('.', maxsplit=1)[0]] *)
  match s with
  | [] => []
  | c :: s' => if N.eqb c DOT then [] else c :: take_until_dot s'
  end.
Fixpoint from_first_dot (s : name) : name :=           (* [name[name.find('.'):]] or [''] *)
  match s with
  | [] => []
  | c :: s' => if N.eqb c DOT then s else from_first_dot s'
  end.
Fixpoint from_last_dot (s : name) : name :=            (* [name[name.rfind('.'):]] or [''] *)
  match s with
  | [] => []
  | c :: s' => match from_last_dot s' with
               | [] => if N.eqb c DOT then s else []
               | r => r
               end
  end.

Definition name_part (part : namepart) (s : name) : name :=
  match part with
  | PName => s
  | PStem => take_until_dot s
  | PSuffixes => from_first_dot s
  | PSuffix => from_last_dot s
  end.

Definition last_name (p : path) : name := last p [].

(** The names of a FILES-CONDITION as [PurePosixPath] keys, duplicates removed ([files_as_map]). *)
Fixpoint fc_names (fc : fcond) : list path :=
  match fc with
  | FCNil => []
  | FCName nm rest => posix_parts nm :: fc_names rest
  | FCNameM nm _ rest => posix_parts nm :: fc_names rest
  end.

Fixpoint fc_names_valid (fc : fcond) : bool :=
  match fc with
  | FCNil => true
  | FCName nm rest => valid_fc_name nm && fc_names_valid rest
  | FCNameM nm _ rest => valid_fc_name nm && fc_names_valid rest
  end.

Fixpoint dedup (l : list path) : list path :=
  match l with
  | [] => []
  | p :: l' => if mem_path p l' then dedup l' else p :: dedup l'
  end.

Fixpoint remove_path (p : path) (l : list path) : list path :=
  match l with
  | [] => []
  | q :: l' => if path_eqb p q then l' else q :: remove_path p l'
  end.

Definition text_eqb (a b : list N) : bool := name_eqb a b.


Definition in_min (mn : option nat) (d : nat) : bool :=
  match mn with None => true | Some k => Nat.leb k d end.
Definition at_max (mx : option nat) (d : nat) : bool :=
  match mx with None => false | Some k => Nat.eqb d k end.

(** What the model cannot contain: the answers of external libraries and programs ([None] = the
    table of the case has no answer: loud [EMiss]; for the last two [Some None] = HARD_ERROR). *)
Record oracles := Oracles {
  glob_str : nat -> name -> option bool;       (* [fnmatch.fnmatch(string, pattern number)] *)
  glob_path : nat -> path -> option bool;      (* [PurePath(path).match(pattern number)] *)
  re_str : nat -> name -> option bool;         (* [re.compile(regex number).search(string)] is not None *)
  re_path : nat -> path -> option bool;        (* the same on [str(path)] *)
  text_matches : nat -> list N -> option (option bool);   (* TEXT-MATCHER number k on a file with these contents *)
  run_exit0 : nat -> path -> option (option bool);        (* PROGRAM number k with the path as last argument: exit code = 0 *)
  link_error : path -> option bool }.
  (* for a symbolic link that does not resolve: [os.stat] fails with an error OTHER than ENOENT (ELOOP: a cyclic link;
     ENOTDIR: the target lies below a regular file).  [DirEntry.is_dir()] returns False for ENOENT and RAISES for these. *)

Section Oracles.
  (** The order in which [os.scandir] lists the directory at a path (from the top directory of the
      case): some permutation of its entries. *)
  Variable scandir : path -> dirc -> dirc.
  Variable O : oracles.

  (** A lazily consumed iterator of files: the elements it yields before it either ends
      ([None]) or raises ([Some e]). *)
  Definition stream := (list elem * option err)%type.

  Record qitem := QItem { q_rel : path; q_abs : path; q_dir : tree; q_depth : nat }.

  (** The body of [for dir_entry in current_file.dir_entries()] of
      [_FilesGeneratorForRecursive.generate]: yields, directories appended to [remaining_dirs],
      exception of the prune matcher. *)
  (** [maybe_entry_for_dir.is_dir()] inside [try: ... except OSError: raise HardErrorException]:
      links are followed; a link that does not resolve is "no directory" if it is merely dangling
      and an exception (HARD_ERROR) if resolving it fails otherwise. *)
  Definition dir_test (c : tree) (p : path) : res bool :=
    match resolve c with
    | Some (Dir _) => Ok true
    | Some _ => Ok false
    | None => match link_error O p with
              | Some true => Err EHard
              | Some false => Ok false
              | None => Err EMiss
              end
    end.

  Fixpoint scan_dir (prune : elem -> res bool) (within_min not_at_max : bool)
           (rel abs : path) (depth : nat) (es : dirc) : list elem * list qitem * option err :=
    match es with
    | [] => ([], [], None)
    | (n, c) :: es' =>
        let e := Elem (rel ++ [n]) (abs ++ [n]) c in
        let ys := if within_min then [e] else [] in
        match (if not_at_max then dir_test c (abs ++ [n]) else Ok false) with
        | Ok true =>
            match prune e with
            | Ok b =>
                let '(ys', qs', er) := scan_dir prune within_min not_at_max rel abs depth es' in
                (ys ++ ys', (if b then [] else [QItem (rel ++ [n]) (abs ++ [n]) c (S depth)]) ++ qs', er)
            | Err x => (ys, [], Some x)
            end
        | Ok false =>
            let '(ys', qs', er) := scan_dir prune within_min not_at_max rel abs depth es' in
            (ys ++ ys', qs', er)
        | Err x => (ys, [], Some x)
        end
    end.

  (** [while remaining_dirs: current_file = remaining_dirs.pop(0) ...] *)
  Fixpoint gen_loop (prune : elem -> res bool) (mn mx : option nat) (fuel : nat) (queue : list qitem) : stream :=
    match queue with
    | [] => ([], None)
    | q :: rest =>
        match fuel with
        | 0 => ([], Some EFuel)
        | S fuel' =>
            let '(ys, qs, er) :=
              scan_dir prune (in_min mn (q_depth q)) (negb (at_max mx (q_depth q)))
                       (q_rel q) (q_abs q) (q_depth q) (scandir (q_abs q) (children (q_dir q))) in
            match er with
            | Some x => (ys, Some x)
            | None => let (ys', er') := gen_loop prune mn mx fuel' (rest ++ qs) in (ys ++ ys', er')
            end
        end
    end.

  Definition no_prune : elem -> res bool := fun _ => Ok false.

  (** [_FilesGenerator.generate(root_dir_path, directory_prune)] *)
  Definition generate (cfg : gencfg) (prune : option (elem -> res bool)) (root : tree) (abs : path) : stream :=
    match cfg with
    | NonRec =>       (* the prune matcher is not consulted *)
        (map (fun p => Elem [fst p] (abs ++ [fst p]) (snd p)) (scandir abs (children root)), None)
    | Rec mn mx =>
        gen_loop (match prune with Some f => f | None => no_prune end) mn mx
                 (tsize root) [QItem [] abs root 0]
    end.

  (** [files()]: the generated files that the selection matcher accepts (lazily) *)
  Fixpoint filter_stream (sel : elem -> res bool) (items : list elem) (er : option err) : stream :=
    match items with
    | [] => ([], er)
    | e :: items' =>
        match sel e with
        | Ok true => let (l, er') := filter_stream sel items' er in (e :: l, er')
        | Ok false => filter_stream sel items' er
        | Err x => ([], Some x)
        end
    end.

  (** [_FilesMatcherModelForDir] *)
  Record fsmodel := FsModel {
    m_dir : tree; m_abs : path; m_cfg : gencfg;
    m_sel : option (elem -> res bool);
    m_prune : option (elem -> res bool) }.

  (** [combinator_matchers.Conjunction([a, b])] / [Disjunction([a, b])]: lazy, left to right *)
  Definition conj2 {A} (a b : A -> res bool) : A -> res bool :=
    fun x => match a x with Ok true => b x | r => r end.
  Definition disj2 {A} (a b : A -> res bool) : A -> res bool :=
    fun x => match a x with Ok false => b x | r => r end.

  Definition sub_set (M : fsmodel) (f : elem -> res bool) : fsmodel :=
    FsModel (m_dir M) (m_abs M) (m_cfg M)
            (Some (match m_sel M with None => f | Some g => conj2 g f end)) (m_prune M).
  Definition prune_model (M : fsmodel) (f : elem -> res bool) : fsmodel :=
    FsModel (m_dir M) (m_abs M) (m_cfg M) (m_sel M)
            (Some (match m_prune M with None => f | Some g => disj2 g f end)).

  Definition files (M : fsmodel) : stream :=
    let (items, er) := generate (m_cfg M) (m_prune M) (m_dir M) (m_abs M) in
    match m_sel M with
    | None => (items, er)
    | Some sel => filter_stream sel items er
    end.

  Definition oracle (o : option bool) : res bool :=
    match o with Some b => Ok b | None => Err EMiss end.
  Definition oracle2 (o : option (option bool)) : res bool :=
    match o with Some (Some b) => Ok b | Some None => Err EHard | None => Err EMiss end.

  Fixpoint eval_tm (m : tmatcher) (c : list N) : res bool :=
    match m with
    | TEmpty => Ok (match c with [] => true | _ => false end)
    | TEquals c' => Ok (text_eqb c c')
    | TOpaque k => oracle2 (text_matches O k c)
    | TNot m' => match eval_tm m' c with Ok b => Ok (negb b) | r => r end
    end.

  (** [list(model.files())] / counting loop: the iterator is consumed to its end *)
  Definition consume_all (s : stream) : res (list elem) :=
    match snd s with Some x => Err x | None => Ok (fst s) end.

  Fixpoint every_loop (f : elem -> res bool) (items : list elem) (er : option err) : res bool :=
    match items with
    | [] => match er with Some x => Err x | None => Ok true end
    | e :: items' => match f e with
                     | Ok true => every_loop f items' er
                     | r => r
                     end
    end.
  Fixpoint any_loop (f : elem -> res bool) (items : list elem) (er : option err) : res bool :=
    match items with
    | [] => match er with Some x => Err x | None => Ok false end
    | e :: items' => match f e with
                     | Ok false => any_loop f items' er
                     | r => r
                     end
    end.

  (** matches_full.py [_continue_w_file_name_check]: every actual file must be a key *)
  Definition names_ok (keys : list path) (actual : list elem) : bool :=
    forallb (fun e => mem_path (e_rel e) keys) actual.

  (** matches_non_full.py [_Applier.apply], the loop over [self.model.files()] *)
  Fixpoint non_full_loop (fm : path -> elem -> res bool) (remaining : list path)
           (items : list elem) (er : option err) : res bool :=
    match items with
    | [] => match er with Some x => Err x | None => Ok false end
    | e :: items' =>
        if mem_path (e_rel e) remaining
        then match fm (e_rel e) e with
             | Ok true =>
                 match remove_path (e_rel e) remaining with
                 | [] => Ok true
                 | remaining' => non_full_loop fm remaining' items' er
                 end
             | r => r
             end
        else non_full_loop fm remaining items' er
    end.

  Definition root_elem (root : tree) (abs : path) : elem := Elem [] abs root.

  Fixpoint eval_fm (m : fmatcher) (e : elem) {struct m} : res bool :=
    match m with
    | FConst b => Ok b
    | FType TFile => Ok (is_file (e_node e))
    | FType TDir => Ok (is_dir (e_node e))
    | FType TSymlink => Ok (is_symlink (e_node e))
    | FName part pat => oracle (glob_str O pat (name_part part (last_name (e_abs e))))
    | FPath pat => oracle (glob_path O pat (e_abs e))
    | FNameRe part pat => oracle (re_str O pat (name_part part (last_name (e_abs e))))
    | FPathRe pat => oracle (re_path O pat (e_abs e))
    | FContents tm =>
        match resolve (e_node e) with
        | Some (File c) => eval_tm tm c
        | _ => Err EHard         (* [_hard_error_if_file_is_not_existing_of_expected_type] *)
        end
    | FRun prog => oracle2 (run_exit0 O prog (e_abs e))
    | FDirContents cfg sm =>
        if is_dir (e_node e)
        then eval_fsm sm (FsModel (e_node e) (e_abs e) cfg None None)
        else Err EHard
    | FNot a => match eval_fm a e with Ok b => Ok (negb b) | r => r end
    | FAnd a b => match eval_fm a e with Ok true => eval_fm b e | r => r end
    | FOr a b => match eval_fm a e with Ok false => eval_fm b e | r => r end
    end
  with eval_fsm (m : fsmatcher) (M : fsmodel) {struct m} : res bool :=
    match m with
    | SConst b => Ok b
    | SEmpty => match consume_all (files M) with
                | Ok l => Ok (match l with [] => true | _ => false end)
                | Err x => Err x
                end
    | SNumFiles op n => match consume_all (files M) with
                        | Ok l => Ok (cmp_holds op (Z.of_nat (length l)) n)
                        | Err x => Err x
                        end
    | SEvery f => let (items, er) := files M in every_loop (eval_fm f) items er
    | SAny f => let (items, er) := files M in any_loop (eval_fm f) items er
    | SMatches true fc =>
        let keys := dedup (fc_names fc) in
        let n := length keys in
        let (items, er) := files M in
        (* [_try_get_num_files(n + 1)] *)
        if Nat.leb (length items) n
        then match er with
             | Some x => Err x
             | None =>
                 if Nat.eqb (length items) n
                 then if names_ok keys items
                      then every_loop (fun e => eval_fc fc (e_rel e) e) items None
                      else Ok false
                 else Ok false             (* too few; [_model_has_more_files] on an exhausted iterator *)
             end
        else (* too many: [_model_has_more_files()] asks the iterator for one more element *)
          if Nat.eqb (length items) (S n)
          then match er with Some x => Err x | None => Ok false end
          else Ok false
    | SMatches false fc =>
        match dedup (fc_names fc) with
        | [] => Ok true                    (* the model is not consulted *)
        | keys => let (items, er) := files M in non_full_loop (eval_fc fc) keys items er
        end
    | SSelection f sm => eval_fsm sm (sub_set M (eval_fm f))
    | SPrune f sm => eval_fsm sm (prune_model M (eval_fm f))
    | SNot a => match eval_fsm a M with Ok b => Ok (negb b) | r => r end
    | SAnd a b => match eval_fsm a M with Ok true => eval_fsm b M | r => r end
    | SOr a b => match eval_fsm a M with Ok false => eval_fsm b M | r => r end
    end
  (** the matcher a FILES-CONDITION associates with a key: the conjunction, in order of appearance,
      of the matchers given for that name (literal.py [_all_matcher]); no matcher = true *)
  with eval_fc (fc : fcond) (key : path) (e : elem) {struct fc} : res bool :=
    match fc with
    | FCNil => Ok true
    | FCName _ rest => eval_fc rest key e
    | FCNameM nm f rest =>
        if path_eqb (posix_parts nm) key
        then match eval_fm f e with Ok true => eval_fc rest key e | r => r end
        else eval_fc rest key e
    end.

  (** Pre-SDS validation of the names of every FILES-CONDITION of an expression *)
  Fixpoint fm_valid (m : fmatcher) : bool :=
    match m with
    | FDirContents _ sm => fsm_valid sm
    | FNot a => fm_valid a
    | FAnd a b | FOr a b => fm_valid a && fm_valid b
    | _ => true
    end
  with fsm_valid (m : fsmatcher) : bool :=
    match m with
    | SEvery f | SAny f => fm_valid f
    | SMatches _ fc => fc_valid fc
    | SSelection f sm | SPrune f sm => fm_valid f && fsm_valid sm
    | SNot a => fsm_valid a
    | SAnd a b | SOr a b => fsm_valid a && fsm_valid b
    | _ => true
    end
  with fc_valid (fc : fcond) : bool :=
    match fc with
    | FCNil => true
    | FCName nm rest => valid_fc_name nm && fc_valid rest
    | FCNameM nm f rest => valid_fc_name nm && fm_valid f && fc_valid rest
    end.

  (** An assertion on the top directory [root] (named [root_name]):
      [exists ROOT : FILE-MATCHER] (the instruction has checked that ROOT exists). *)
  Inductive verdict := VPass | VFail | VHardError | VValidationError | VMiss | VFuel.

  Definition verdict_of (r : res bool) : verdict :=
    match r with
    | Ok true => VPass
    | Ok false => VFail
    | Err EHard => VHardError
    | Err EMiss => VMiss
    | Err EFuel => VFuel
    end.

  Definition run_assert (root_name : name) (root : tree) (m : fmatcher) : verdict :=
    if fm_valid m then verdict_of (eval_fm m (root_elem root [root_name])) else VValidationError.
End Oracles.
