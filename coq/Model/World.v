(** * The Exactly process around an execution: current directory, environment, sandbox
    directories (property C04), and the processing pipeline read -> preprocess -> parse ->
    execute (property C03).

    Mirrors:
      - execution/partial_execution/execution.py ([execute]: [preserved_cwd], [finally: rmtree]
        unless keep / no sds)
      - executor.py [_setup_post_sds_environment] ([construct_at], chdir to act/), the copies of
        the environment handed to instructions ([functional.map_optional(dict, ...)],
        [default_environ_getter])
      - tcfs/sds.py (layout)
      - processing/processors.py, processing_utils.py (accessor steps, then executor)
    Executable definitions only. *)
From Coq Require Import List Bool Arith ZArith.
From Exactly Require Import Model.Outcome Model.Exec.
Import ListNotations.

(** Directories are identified by numbers; the sub-directories of sandbox root [r] are given by
    [sub r k]. *)
Inductive sds_dir := DAct | DTmp | DResult | DInternal.
Inductive dir := DOther (n : nat) | DRoot (r : nat) | DSub (r : nat) (d : sds_dir).

Definition dir_eqb (a b : dir) : bool :=
  match a, b with
  | DOther n, DOther m => Nat.eqb n m
  | DRoot r, DRoot s => Nat.eqb r s
  | DSub r d, DSub s e => Nat.eqb r s && match d, e with
                                         | DAct, DAct | DTmp, DTmp | DResult, DResult | DInternal, DInternal => true
                                         | _, _ => false end
  | _, _ => false
  end.

Record world := W {
  w_cwd : dir;
  w_environ : list (nat * nat);      (* os.environ of the Exactly process *)
  w_roots : list nat;                (* sandbox roots that exist *)
  w_next : nat }.                    (* mkdtemp: a name not used before *)

(** What an instruction's step may do to the process (besides its outcome): change the current
    directory, or modify the environment dictionary IT WAS HANDED (a copy). *)
Inductive effect := EffNone | EffChdir (d : dir) | EffSetEnv (k v : nat).

(** effects are attached to events *)
Definition effects := event -> effect.

(** The state threaded through an execution: the world, and the copy of the environment that
    instructions see and may modify. *)
Record xstate := X { x_world : world; x_instr_env : list (nat * nat); x_root : option nat;
                     x_cwd_after_sandbox : option dir }.

Definition apply_event (eff : effects) (s : xstate) (e : event) : xstate :=
  match e with
  | ESandbox =>
      let w := x_world s in
      let r := w_next w in
      (* construct_at(mkdtemp); os.chdir(act dir) *)
      X (W (DSub r DAct) (w_environ w) (r :: w_roots w) (S r)) (x_instr_env s) (Some r) (Some (DSub r DAct))
  | ECleanupBegin _ => s
  | EInstr _ _ _ _ =>
      match eff e with
      | EffNone => s
      | EffChdir d => let w := x_world s in
                      X (W d (w_environ w) (w_roots w) (w_next w)) (x_instr_env s) (x_root s) (x_cwd_after_sandbox s)
      | EffSetEnv k v => X (x_world s) ((k, v) :: x_instr_env s) (x_root s) (x_cwd_after_sandbox s)
      end
  end.

Definition remove_root (r : nat) (w : world) : world :=
  W (w_cwd w) (w_environ w) (filter (fun x => negb (Nat.eqb x r)) (w_roots w)) (w_next w).

(** partial_execution.execution.execute + full_execution *)
Definition execute_in_world (keep : bool) (tc : testcase) (eff : effects) (w : world)
  : world * list event * fresult :=
  let saved_cwd := w_cwd w in
  let (t, r) := full_execute tc in
  let s := fold_left (apply_event eff) t (X w (w_environ w) None None) in   (* instructions get a copy of the environment *)
  let w1 := x_world s in
  (* finally: if not keep and the result has a sandbox: rmtree *)
  let w2 := match x_root s with
            | Some root => if negb keep && fr_has_sds r then remove_root root w1 else w1
            | None => w1
            end in
  (* preserved_cwd *)
  (W saved_cwd (w_environ w2) (w_roots w2) (w_next w2), t, r).

(** ** The processing pipeline (C03) *)
Inductive stage_result (A : Type) := StageOk (a : A) | StageErr (e : access_error).
Arguments StageOk {A}. Arguments StageErr {A}.

(** A test case file as far as processing is concerned: can it be read, does the preprocessor
    succeed, does the WHOLE file parse (every instruction of every phase, included files too) —
    and, if so, the test case it denotes. *)
Record source := Src {
  s_readable : bool;
  s_preprocess_ok : bool;
  s_includes_readable : bool;
  s_parses : bool;
  s_case : testcase }.

Definition access (s : source) : stage_result testcase :=
  if negb (s_readable s) then StageErr FILE_ACCESS_ERROR
  else if negb (s_preprocess_ok s) then StageErr PRE_PROCESS_ERROR
  else if negb (s_includes_readable s) then StageErr FILE_ACCESS_ERROR
  else if negb (s_parses s) then StageErr ACC_SYNTAX_ERROR
  else StageOk (s_case s).

Definition process (keep : bool) (s : source) (eff : effects) (w : world) : world * list event * proc_result :=
  match access s with
  | StageErr e => (w, [], AccessErr e)
  | StageOk tc =>
      let '(w', t, r) := execute_in_world keep tc eff w in
      (w', t, Executed (fr_status r) (fr_has_sds r) (if fr_has_atc_outcome r then Some 0%Z else None))
  end.

(** The [symbol] command: parse, then act-parse and symbol validation only. *)
Definition symbol_command (s : source) : list event * option (access_error + failure) :=
  match access s with
  | StageErr e => ([], Some (inl e))
  | StageOk tc =>
      let (t0, r0) := run_step tc (Conf, SMain) in
      match r0 with
      | Some f => (t0, Some (inr f))
      | None =>
          let (t, r) := run_steps tc [(Act, SActParse); (Setup, SValSym); (Act, SValSym); (BeforeAssert, SValSym);
                                      (Assert, SValSym); (Cleanup, SValSym)] in
          (t0 ++ t, option_map inr r)
      end
  end.
