(** Executable model of exactly's string syntax machinery (property C09).  Definitions only.

    Mirrors, in the same order and with the same branches:
      - Python 3.12 [shlex.shlex.read_token] in the configuration of
        [TokenStream._new_lexer]: posix=True, whitespace_split=True, escape='', commenters='',
        quotes = hard and soft quote, whitespace = space tab CR LF, punctuation_chars=''                     ([lex_go])
      - section_document/element_parsers/token_stream.py  [TokenStream]               ([ts_*])
      - util/parse/token.py  [Token]                                                  ([token])
      - section_document/element_parsers/token_stream_parser.py (the methods used)    ([tp_*])
      - symbol/symbol_syntax.py [split], [_extract_fragment], [_find_symbol_reference] ([split])
      - impls/types/string_/parse_string.py                                           ([parse_*])
      - impls/types/string_/parse_rich_string.py                                      ([rich_*], [heredoc_*])
      - impls/types/list_/generic_parser.py + parse_list.py                           ([list_*])
      - definitions/test_case/reserved_words.py [RESERVED_TOKENS]                     ([reserved_tokens])

    Characters are code points ([N]); positions into the source are [nat] (sources are short).
    Python's [str.isalnum] is an oracle (a function parameter [alnum]); Python's notion of
    white space ([str.strip], [str.isspace]) is the concrete set [py_space_chars], which the
    harness compares with the running interpreter over all code points on every run. *)
From Coq Require Import NArith List Bool Arith.
Import ListNotations.
Local Open Scope N_scope.

Definition text := list N.

Definition NL : N := 10.
Definition DQ : N := 34.   (* soft quote *)
Definition SQ : N := 39.   (* hard quote *)
Definition AT : N := 64.
Definition LBR : N := 91.
Definition RBR : N := 93.
Definition BSL : N := 92.  (* backslash: the list continuation token *)

Fixpoint text_eqb (a b : text) : bool :=
  match a, b with
  | [], [] => true
  | x :: a', y :: b' => (x =? y) && text_eqb a' b'
  | _, _ => false
  end.

Definition nonempty {A} (l : list A) : bool := match l with [] => false | _ => true end.

(** ** Character classes *)

(** shlex.whitespace = ' \t\r\n' *)
Definition is_shlex_ws (c : N) : bool := (c =? 32) || (c =? 9) || (c =? 13) || (c =? 10).
(** shlex.quotes: the hard and the soft quote character *)
Definition is_quote (c : N) : bool := (c =? SQ) || (c =? DQ).

(** The code points for which Python 3.12 [str.isspace] holds / which [str.strip()] removes. *)
Definition py_space_chars : list N :=
  [9; 10; 11; 12; 13; 28; 29; 30; 31; 32; 133; 160; 5760;
   8192; 8193; 8194; 8195; 8196; 8197; 8198; 8199; 8200; 8201; 8202;
   8232; 8233; 8239; 8287; 12288].
Definition py_isspace (c : N) : bool := existsb (N.eqb c) py_space_chars.

(** str.isspace(): non-empty and all characters are white space *)
Definition py_str_isspace (s : text) : bool := nonempty s && forallb py_isspace s.

(** [s.strip(chars)] / [s.strip()]: remove the characters satisfying [p] from both ends *)
Fixpoint lstrip_by (p : N -> bool) (s : text) : text :=
  match s with
  | c :: s' => if p c then lstrip_by p s' else s
  | [] => []
  end.
Definition rstrip_by (p : N -> bool) (s : text) : text := rev (lstrip_by p (rev s)).
Definition strip_by (p : N -> bool) (s : text) : text := rstrip_by p (lstrip_by p s).
(** [s.strip()], [s.rstrip()] *)
Definition strip_py : text -> text := strip_by py_isspace.
Definition rstrip_py : text -> text := rstrip_by py_isspace.
(** [s.strip(self._lexer.whitespace)] *)
Definition strip_ws : text -> text := strip_by is_shlex_ws.

(** [s[a:b]] *)
Definition slice {A} (s : list A) (a b : nat) : list A := firstn (b - a) (skipn a s).

(** [s.find('\n', start)] *)
Fixpoint find_nl_from (s : text) (pos : nat) : option nat :=
  match s with
  | [] => None
  | c :: s' => if c =? NL then Some pos else find_nl_from s' (S pos)
  end.
Definition find_nl (src : text) (start : nat) : option nat := find_nl_from (skipn start src) start.

(** ** shlex.read_token *)

Inductive lexres :=
| LexTok (s : text)     (* a token *)
| LexNone               (* get_token() returned None (eof) *)
| LexErr.               (* ValueError("No closing quotation") *)

(** lexer.state: ' ' / 'a' / a quote character.  (state None = "past end of file" is the
    boolean third component of the result, and [ts_eof] below.) *)
Inductive lstate := SWs | SWord | SQuote (q : N).

(** [result = self.token; if posix and not quoted and result == '': result = None] *)
Definition emit (quoted : bool) (tok : text) : lexres :=
  if negb quoted && negb (nonempty tok) then LexNone else LexTok tok.

(** One call of read_token, started in state [st] on the remaining input [inp]; [n] counts the
    characters read with instream.read(1).  Result: token / None / ValueError, number of
    characters read, and whether lexer.state is None afterwards.
    Branches that cannot be taken in this configuration (commenters, escape, punctuation_chars
    are empty strings; every non-white-space, non-quote character is appended because
    whitespace_split is set, whether or not it is in wordchars) are omitted. *)
Fixpoint lex_go (st : lstate) (quoted : bool) (tok : text) (n : nat) (inp : text) : lexres * nat * bool :=
  match inp with
  | [] => (* nextchar == '' *)
      match st with
      | SQuote _ => (LexErr, n, false)
      | _ => (emit quoted tok, n, true)          (* self.state = None; break *)
      end
  | c :: inp' =>
      match st with
      | SWs =>
          if is_shlex_ws c then
            if nonempty tok || quoted then (emit quoted tok, S n, false)
            else lex_go SWs quoted tok (S n) inp'
          else if is_quote c then lex_go (SQuote c) quoted tok (S n) inp'
          else lex_go SWord quoted [c] (S n) inp'
      | SQuote q =>
          (* quoted = True *)
          if c =? q then lex_go SWord true tok (S n) inp'
          else lex_go (SQuote q) true (tok ++ [c]) (S n) inp'
      | SWord =>
          if is_shlex_ws c then
            if nonempty tok || quoted then (emit quoted tok, S n, false)   (* self.state = ' '; break *)
            else lex_go SWs quoted tok (S n) inp'
          else if is_quote c then lex_go (SQuote c) quoted tok (S n) inp'
          else lex_go SWord quoted (tok ++ [c]) (S n) inp'
      end
  end.

(** read_token when lexer.state is None: one character is read (if any), the result is None. *)
Definition lex_past_eof (inp : text) : lexres * nat * bool :=
  match inp with
  | [] => (LexNone, 0%nat, true)
  | _ :: _ => (LexNone, 1%nat, true)
  end.

(** ** Token *)
Inductive ttype := PLAIN | QUOTED.
Record token := Tok { t_type : ttype; t_string : text; t_source : text }.

Definition is_plain (t : token) : bool := match t_type t with PLAIN => true | QUOTED => false end.
Definition is_quoted (t : token) : bool := negb (is_plain t).
(** [self[2][0] == HARD_QUOTE_CHAR] (source_string is never empty for a token of the stream) *)
Definition is_hard_quote_type (t : token) : bool :=
  match t_source t with c :: _ => c =? SQ | [] => false end.

(** ** Exceptions *)
Inductive exn :=
| ExTokenSyntax        (* TokenSyntaxError *)
| ExIndex              (* IndexError: s_source[0] of an empty string *)
| ExInvalidArg         (* SingleInstructionInvalidArgumentException (and its subclass for here-documents) *)
| ExOutOfFuel          (* model artefact; theorems show it is not the result on well-formed input *)
| ExOther.             (* any other outcome the harness observed; the model gives it only for what it does not
                          cover (a path argument of a program) *)

Inductive res (A : Type) := Ok (a : A) | Raise (e : exn).
Arguments Ok {A} a.
Arguments Raise {A} e.

Definition bind {A B} (r : res A) (f : A -> res B) : res B :=
  match r with Ok a => f a | Raise e => Raise e end.
Notation "'do' x <- r ; k" := (bind r (fun x => k)) (at level 200, x pattern, r at level 100, k at level 200).

(** ** TokenStream *)
Record tstream := TS {
  ts_src : text;              (* _source *)
  ts_io : nat;                (* _source_io.tell() *)
  ts_start : nat;             (* _start_pos *)
  ts_head : option token;     (* _head_token *)
  ts_err : bool;              (* _head_syntax_error_description is set *)
  ts_eof : bool }.            (* _lexer.state is None *)

Inductive la_state := HAS_TOKEN | LA_NULL | SYNTAX_ERROR.

Definition look_ahead_state (ts : tstream) : la_state :=
  match ts_head ts with
  | Some _ => HAS_TOKEN
  | None => if negb (ts_err ts) then LA_NULL else SYNTAX_ERROR
  end.

Definition ts_is_null (ts : tstream) : bool := match ts_head ts with None => true | Some _ => false end.
Definition ts_is_at_end (ts : tstream) : bool := Nat.eqb (ts_start ts) (length (ts_src ts)).
Definition ts_position (ts : tstream) : nat := ts_start ts.
Definition ts_remaining_source (ts : tstream) : text := skipn (ts_start ts) (ts_src ts).

(** [_revert_reading_of_newline]: [if self._source[pos - 1] == '\n': seek(pos - 1)]
    ([pos = 0] would index the last character in Python) *)
Definition revert_newline (src : text) (pos : nat) : nat :=
  let c := match pos with
           | O => last src 0
           | S p => nth p src 0
           end in
  if c =? NL then Nat.pred pos else pos.

(** [consume].  The two arguments select the code as it is or as it was before a repair:
    [strip]: how the token's source text is trimmed: [strip_ws] since 8cce868 ("token source is trimmed
    of the lexer's white space only"), [strip_py] before;
    [renew]: [if self._lexer.state is None: self._lexer = self._new_lexer()] before get_token(), since
    a75c6db ("re-creates its lexer when shlex has reached end of file"); before, a lexer that had
    reached end of file stayed there ([lex_past_eof]). *)
Definition ts_consume_with (strip : text -> text) (renew : bool) (ts : tstream) : res (option token * tstream) :=
  if ts_err ts then Raise ExTokenSyntax else
  let src := ts_src ts in
  let ret_val := ts_head ts in
  let start := ts_io ts in
  let '(r, k, eof') := if (if renew then false else ts_eof ts) then lex_past_eof (skipn start src)
                       else lex_go SWs false [] 0 (skipn start src) in
  let io1 := (start + k)%nat in
  match r with
  | LexErr => Ok (ret_val, TS src io1 start None true false)      (* new lexer *)
  | LexNone => Ok (ret_val, TS src io1 start None false eof')
  | LexTok s =>
      let io2 := revert_newline src io1 in
      match strip (slice src start io2) with
      | [] => Raise ExIndex
      | (c :: _) as s_source =>
          Ok (ret_val, TS src io2 start (Some (Tok (if is_quote c then QUOTED else PLAIN) s s_source)) false eof')
      end
  end.

Definition ts_consume : tstream -> res (option token * tstream) := ts_consume_with strip_ws true.
(** before 8cce868 (and a75c6db) *)
Definition ts_consume_prefix : tstream -> res (option token * tstream) := ts_consume_with strip_py false.
(** before a75c6db *)
Definition ts_consume_sticky : tstream -> res (option token * tstream) := ts_consume_with strip_ws false.
Definition ts_init_prefix (src : text) : res tstream :=
  match ts_consume_prefix (TS src 0 0 None false false) with Ok r => Ok (snd r) | Raise e => Raise e end.

(** [TokenStream(source)] *)
Definition ts_init (src : text) : res tstream :=
  do r <- ts_consume (TS src 0 0 None false false); Ok (snd r).

Definition ts_remaining_part_of_current_line (ts : tstream) : text :=
  let src := ts_src ts in
  if Nat.eqb (ts_start ts) (length src) then []
  else match find_nl src (ts_start ts) with
       | None => skipn (ts_start ts) src
       | Some p => slice src (ts_start ts) p
       end.

(** [_consume_remaining_part_of_current_line(do_forward_to_next_line)].  [consume], [relex]: the
    consume in force and the test that decides whether the look-ahead token is read again:
    [ret_val.strip(self._lexer.whitespace)] non-empty since fbeae85 ("the rest of a line is re-lexed
    unless it is blank for the lexer"), [ret_val and not ret_val.isspace()] before. *)
Definition ts_consume_line_with (consume : tstream -> res (option token * tstream)) (relex : text -> bool)
           (fwd : bool) (ts : tstream) : res (text * tstream) :=
  let src := ts_src ts in
  let additional := if fwd then 1%nat else 0%nat in
  if Nat.eqb (ts_start ts) (length src) then Ok ([], ts)
  else match find_nl src (ts_start ts) with
       | None =>
           Ok (skipn (ts_start ts) src, TS src (ts_io ts) (length src) None false (ts_eof ts))
       | Some p =>
           let ret_val := slice src (ts_start ts) p in
           if relex ret_val then
             do r <- consume (TS src (p + additional) (ts_start ts) (ts_head ts) false (ts_eof ts));
             Ok (ret_val, snd r)
           else Ok (ret_val, TS src (ts_io ts) (p + additional) (ts_head ts) (ts_err ts) (ts_eof ts))
       end.
Definition relex_lexer_blank (ret_val : text) : bool := nonempty (strip_ws ret_val).
Definition relex_python_blank (ret_val : text) : bool := nonempty ret_val && negb (py_str_isspace ret_val).
Definition ts_consume_line : bool -> tstream -> res (text * tstream) := ts_consume_line_with ts_consume relex_lexer_blank.
(** before fbeae85 *)
Definition ts_consume_line_stale : bool -> tstream -> res (text * tstream) :=
  ts_consume_line_with ts_consume relex_python_blank.

(** ** TokenParser (the methods the string / list parsers use) *)
Definition tp_is_at_eol (ts : tstream) : bool :=
  let r := ts_remaining_part_of_current_line ts in negb (nonempty r) || py_str_isspace r.
Definition tp_has_current_line (ts : tstream) : bool := negb (ts_is_at_end ts).
Definition tp_has_valid_head_token (ts : tstream) : bool :=
  negb (ts_is_null ts || match look_ahead_state ts with SYNTAX_ERROR => true | _ => false end).
(** [require_has_valid_head_token] *)
Definition tp_require_has_valid_head_token (ts : tstream) : res unit :=
  match look_ahead_state ts with
  | LA_NULL => Raise ExInvalidArg
  | SYNTAX_ERROR => Raise ExInvalidArg
  | HAS_TOKEN => Ok tt
  end.
(** [report_superfluous_arguments_if_not_at_eol] (the line is consumed before raising; since an
    exception follows, only a failure of that consumption is visible) *)
Definition tp_report_superfluous (ts : tstream) : res unit :=
  if nonempty (strip_py (ts_remaining_part_of_current_line ts)) then
    do _ <- ts_consume_line false ts; Raise ExInvalidArg
  else Ok tt.
(** token_matchers.is_unquoted_and_equals(value).matches(head), guarded by has_valid_head_token *)
Definition tp_has_valid_head_unquoted_equals (v : text) (ts : tstream) : bool :=
  tp_has_valid_head_token ts &&
  match ts_head ts with
  | Some t => if is_quoted t then false else text_eqb v (t_string t)
  | None => false
  end.

(** ** symbol_syntax *)
Inductive fragment := FConst (s : text) | FSym (name : text).

Section WithAlnum.
  (** Python's str.isalnum on one character: external library, an oracle. *)
  Variable alnum : N -> bool.

  (** [_is_identifier] *)
  Definition is_identifier (c : N) : bool := alnum c || (c =? 95).

  (** [s.find('@[')] on the suffix [s]: offset of the first occurrence *)
  Fixpoint find_begin (s : text) : option nat :=
    match s with
    | a :: ((b :: _) as s') =>
        if (a =? AT) && (b =? LBR) then Some 0%nat
        else match find_begin s' with Some k => Some (S k) | None => None end
    | _ => None
    end.

  (** [''.join(takewhile(_is_identifier, s))] *)
  Fixpoint take_ident (s : text) : text :=
    match s with
    | c :: s' => if is_identifier c then c :: take_ident s' else []
    | [] => []
    end.

  (** [s.startswith(']@')] *)
  Definition starts_with_end (s : text) : bool :=
    match s with a :: b :: _ => (a =? RBR) && (b =? AT) | _ => false end.

  (** [_find_symbol_reference(s)]: [Some (pos, name, rest)] or [None] for (-1, '', '').
      The while loop continues the search at [pos_after_symbol_name]; [base] is the number of
      characters of [s] before the suffix being searched.  Fuel: each iteration advances by at
      least two characters. *)
  Fixpoint find_symbol_reference_from (fuel : nat) (base : nat) (s : text) : option (nat * text * text) :=
    match fuel with
    | O => None
    | S fuel' =>
        match find_begin s with
        | None => None
        | Some k =>
            let after_begin := skipn (k + 2) s in
            let symbol_name := take_ident after_begin in
            let after_name := skipn (length symbol_name) after_begin in
            if nonempty symbol_name && starts_with_end after_name
            then Some ((base + k)%nat, symbol_name, skipn 2 after_name)
            else find_symbol_reference_from fuel' (base + k + 2 + length symbol_name)%nat after_name
        end
    end.
  Definition find_symbol_reference (s : text) : option (nat * text * text) :=
    find_symbol_reference_from (S (length s)) 0 s.

  (** [_extract_fragment] *)
  Definition extract_fragment (s : text) : text * list fragment :=
    match find_symbol_reference s with
    | None => ([], [FConst s])
    | Some (pos, name, rest) =>
        match pos with
        | O => (rest, [FSym name])
        | _ => (rest, [FConst (firstn pos s); FSym name])
        end
    end.

  (** [split]: [while s: s, fragments = _extract_fragment(s); ret_val.extend(fragments)] *)
  Fixpoint split_fuel (fuel : nat) (s : text) : list fragment :=
    match fuel with
    | O => []
    | S fuel' =>
        match s with
        | [] => []
        | _ => let '(s', frs) := extract_fragment s in frs ++ split_fuel fuel' s'
        end
    end.
  Definition split (s : text) : list fragment := split_fuel (S (length s)) s.

  (** ** parse_string.py *)

  (** [RESERVED_TOKENS] *)
  Definition reserved_tokens : list text :=
    [[40]; [41]; [91]; [93]; [123]; [125]; [61]; [124]; [58]; [33]; [38; 38]; [124; 124]].

  (** [parse_fragments_from_token] *)
  Definition parse_fragments_from_token (t : token) : list fragment :=
    if is_quoted t && is_hard_quote_type t then [FConst (t_string t)] else split (t_string t).

  (** [parse_fragments_from_tokens__w_is_plain] *)
  Definition parse_fragments_w_is_plain (ts : tstream) : res (bool * list fragment * tstream) :=
    if ts_is_null ts then Raise ExInvalidArg else
    do r <- ts_consume ts;
    match fst r with
    | None => Raise ExInvalidArg   (* not reachable: the head is not null *)
    | Some string_token =>
        if is_plain string_token && existsb (text_eqb (t_source string_token)) reserved_tokens
        then Raise ExInvalidArg
        else Ok (is_plain string_token, parse_fragments_from_token string_token, snd r)
    end.

  (** [parse_string_sdv]: the fragments of the StringSdv *)
  Definition parse_string (ts : tstream) : res (list fragment * tstream) :=
    do r <- parse_fragments_w_is_plain ts; Ok (snd (fst r), snd r).

  (** [SymbolReferenceOrStringParser.parse]: [inl name] = the token is a single unquoted symbol
      reference *)
  Definition parse_symref_or_string (ts : tstream) : res ((text + list fragment) * tstream) :=
    do r <- parse_fragments_w_is_plain ts;
    let '(is_plain_token, fragments, ts') := r in
    match fragments with
    | [FSym name] => if is_plain_token then Ok (inl name, ts') else Ok (inr fragments, ts')
    | _ => Ok (inr fragments, ts')
    end.

  (** ** parse_rich_string.py *)

  (** [re.fullmatch('(<<)([0-9a-zA-Z_-]+)', s)]: the marker *)
  Definition is_marker_char (c : N) : bool :=
    ((48 <=? c) && (c <=? 57)) || ((97 <=? c) && (c <=? 122)) || ((65 <=? c) && (c <=? 90)) || (c =? 95) || (c =? 45).
  Definition here_doc_marker (s : text) : option text :=
    match s with
    | 60 :: 60 :: m => if nonempty m && forallb is_marker_char m then Some m else None
    | _ => None
    end.

  (** [lines_content]: [''] if no lines, else ['\n'.join(lines) + '\n'] *)
  Definition lines_content (lines : list text) : text := concat (map (fun l => l ++ [NL]) lines).

  (** [HereDocParser._parse_contents] *)
  Fixpoint heredoc_contents (fuel : nat) (marker : text) (here_doc : list text) (ts : tstream)
    : res (list fragment * tstream) :=
    match fuel with
    | O => Raise ExOutOfFuel
    | S fuel' =>
        if tp_has_current_line ts then
          do r <- ts_consume_line false ts;
          let '(line, ts1) := r in
          if text_eqb line marker then Ok (split (lines_content here_doc), ts1)
          else
            do r2 <- ts_consume_line true ts1;
            heredoc_contents fuel' marker (here_doc ++ [line]) (snd r2)
        else Raise ExInvalidArg     (* end marker not found *)
    end.

  (** [HereDocParser(True).parse_from_token_parser] *)
  Definition heredoc_parse (ts : tstream) : res (list fragment * tstream) :=
    do _ <- tp_require_has_valid_head_token ts;
    match ts_head ts with
    | None => Raise ExInvalidArg
    | Some first_token =>
        if is_quoted first_token then Raise ExInvalidArg else
        do r <- ts_consume ts;
        let ts1 := snd r in
        match here_doc_marker (t_string first_token) with
        | None => Raise ExInvalidArg
        | Some marker =>
            do _ <- tp_report_superfluous ts1;
            do r2 <- ts_consume_line true ts1;
            heredoc_contents (S (length (ts_src ts))) marker [] (snd r2)
        end
    end.

  (** [s.startswith('<<')] *)
  Definition starts_with_here_doc_prefix (s : text) : bool :=
    match s with 60 :: 60 :: _ => true | _ => false end.

  (** [SymbolNameOrStringRichStringParser.parse_from_token_parser] followed by the reduction in
      [RichStringParser.parse_from_token_parser] (a symbol name becomes a one-symbol string) *)
  Definition rich_string_parse (ts : tstream) : res (list fragment * tstream) :=
    do _ <- tp_require_has_valid_head_token ts;
    match ts_head ts with
    | None => Raise ExInvalidArg
    | Some head =>
        if starts_with_here_doc_prefix (t_source head) then heredoc_parse ts
        else if tp_has_valid_head_unquoted_equals [58; 62] ts then
          (* TEXT_UNTIL_EOL_TOKEN_MATCHER ':>' *)
          do r <- ts_consume ts;
          do r2 <- ts_consume_line false (snd r);
          Ok (split (strip_py (fst r2)), snd r2)
        else
          do r <- parse_symref_or_string ts;
          match fst r with
          | inl name => Ok ([FSym name], snd r)
          | inr frs => Ok (frs, snd r)
          end
    end.

  (** [SymbolNameOrStringRichStringParser.parse_from_token_parser] itself (the Either is kept: program
      arguments distinguish a bare symbol reference from a string).  [rich_string_parse] above is this
      followed by the reduction of [RichStringParser] (Proofs/TokRich.v [rich_string_parse_reduces]). *)
  Definition rich_symref_or_string (ts : tstream) : res ((text + list fragment) * tstream) :=
    do _ <- tp_require_has_valid_head_token ts;
    match ts_head ts with
    | None => Raise ExInvalidArg
    | Some head =>
        if starts_with_here_doc_prefix (t_source head) then
          do r <- heredoc_parse ts; Ok (inr (fst r), snd r)
        else if tp_has_valid_head_unquoted_equals [58; 62] ts then
          do r <- ts_consume ts;
          do r2 <- ts_consume_line false (snd r);
          Ok (inr (split (strip_py (fst r2))), snd r2)
        else parse_symref_or_string ts
    end.

  (** ** generic_parser.ElementsUntilEndOfLineParser2 / parse_list *)
  Inductive element := ESym (name : text) | EStr (frs : list fragment).

  Fixpoint list_loop (fuel : nat) (acc : list element) (ts : tstream) : res (list element * tstream) :=
    match fuel with
    | O => Raise ExOutOfFuel
    | S fuel' =>
        if negb (tp_is_at_eol ts) then
          if text_eqb (strip_py (ts_remaining_part_of_current_line ts)) [BSL] then
            do r <- ts_consume_line true ts; list_loop fuel' acc (snd r)
          else if tp_has_valid_head_unquoted_equals [41] ts then Ok (acc, ts)   (* break at ')' *)
          else
            do r <- parse_symref_or_string ts;
            let e := match fst r with inl name => ESym name | inr frs => EStr frs end in
            list_loop fuel' (acc ++ [e]) (snd r)
        else Ok (acc, ts)
    end.

  (** [ElementsUntilEndOfLineParser2.parse] *)
  Definition list_parse (ts : tstream) : res (list element * tstream) :=
    do r <- list_loop (2 * length (ts_src ts) + 2) [] ts;
    let ts1 := snd r in
    if tp_is_at_eol ts1 then
      do r2 <- ts_consume_line false ts1; Ok (fst r, snd r2)
    else Ok (fst r, ts1).

  (** ** program arguments: parse_arguments._Parser = the same ElementsUntilEndOfLineParser2 with the
      element parser [_ElementParser]: the options -existing-file / -existing-dir / -existing-path
      (path arguments: outside this model, a distinct error), else a rich string or bare symbol *)
  Definition existing_path_options : list text :=
    [[45;101;120;105;115;116;105;110;103;45;102;105;108;101];
     [45;101;120;105;115;116;105;110;103;45;100;105;114];
     [45;101;120;105;115;116;105;110;103;45;112;97;116;104]].

  Definition args_element (ts : tstream) : res ((text + list fragment) * tstream) :=
    (* require_existing_valid_head_token *)
    match look_ahead_state ts with
    | SYNTAX_ERROR => Raise ExInvalidArg
    | LA_NULL => Raise ExInvalidArg
    | HAS_TOKEN =>
        if existsb (fun o => tp_has_valid_head_unquoted_equals o ts) existing_path_options
        then Raise ExOther      (* a path argument: not modelled *)
        else rich_symref_or_string ts
    end.

  Fixpoint args_loop (fuel : nat) (acc : list element) (ts : tstream) : res (list element * tstream) :=
    match fuel with
    | O => Raise ExOutOfFuel
    | S fuel' =>
        if negb (tp_is_at_eol ts) then
          if text_eqb (strip_py (ts_remaining_part_of_current_line ts)) [BSL] then
            do r <- ts_consume_line true ts; args_loop fuel' acc (snd r)
          else if tp_has_valid_head_unquoted_equals [41] ts then Ok (acc, ts)
          else
            do r <- args_element ts;
            let e := match fst r with inl name => ESym name | inr frs => EStr frs end in
            args_loop fuel' (acc ++ [e]) (snd r)
        else Ok (acc, ts)
    end.

  Definition args_parse (ts : tstream) : res (list element * tstream) :=
    do r <- args_loop (2 * length (ts_src ts) + 2) [] ts;
    let ts1 := snd r in
    if tp_is_at_eol ts1 then
      do r2 <- ts_consume_line false ts1; Ok (fst r, snd r2)
    else Ok (fst r, ts1).
End WithAlnum.

(** ** Observing a whole stream: consume until the head is null (the harness does the same) *)
Record tokobs := TokObs { o_type : ttype; o_string : text; o_source : text; o_pos : nat; o_tell : nat }.
Inductive ts_end := EndNull (pos tell : nat) | EndSyntaxError (pos tell : nat) | EndRaise (e : exn).

Fixpoint ts_run_loop (fuel : nat) (ts : tstream) : list tokobs * ts_end :=
  match fuel with
  | O => ([], EndRaise ExOutOfFuel)
  | S fuel' =>
      match ts_head ts with
      | None => ([], match look_ahead_state ts with
                     | SYNTAX_ERROR => EndSyntaxError (ts_start ts) (ts_io ts)
                     | _ => EndNull (ts_start ts) (ts_io ts)
                     end)
      | Some t =>
          let o := TokObs (t_type t) (t_string t) (t_source t) (ts_start ts) (ts_io ts) in
          match ts_consume ts with
          | Raise e => ([o], EndRaise e)
          | Ok (_, ts') => let '(os, e) := ts_run_loop fuel' ts' in (o :: os, e)
          end
      end
  end.

Definition ts_run (src : text) : list tokobs * ts_end :=
  match ts_init src with
  | Raise e => ([], EndRaise e)
  | Ok ts => ts_run_loop (S (length src)) ts
  end.
