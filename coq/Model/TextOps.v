(** * Model of the text matchers and text transformers (property C05).

    Mirrors, branch by branch:
      - impls/types/string_matcher/impl/emptiness.py        ([is_empty_impl])
      - impls/types/string_matcher/impl/equality.py         ([equals_impl]: the four strategies of
        _ApplierWExtDepsCases; util/str_/read_lines.py = [read_lines_min])
      - impls/types/string_matcher/impl/matches.py, matcher/impls/matches_regex.py ([SMatches])
      - impls/types/string_matcher/impl/num_lines.py        (counting loop = [length])
      - impls/types/string_matcher/impl/line_matchers.py, matcher/impls/quantifier_matchers.py,
        line_matcher/model_construction.py                  ([model_iter], [quantify])
      - impls/types/string_matcher/impl/on_transformed.py   ([STransformed])
      - impls/types/matcher/impls/combinator_matchers.py    (!, &&, || ; && and || freeze the model)
      - impls/types/line_matcher/impl/contents/parse.py     ([LContents]: a constant-str source)
      - impls/types/string_transformer/impl/replace/impl.py ([replacer], [replace_lines] =
        _lines_iterator_from_replacements, [-at] via original_and_model_iter_from_file_line_iter)
      - impls/types/string_transformer/impl/strip_space.py  (three streaming algorithms)
      - impls/types/string_transformer/impl/case_converters.py, identity.py, sequence.py
      - impls/types/string_transformer/impl/filter/line_nums/*.py: through Model/LineNums.v
        [line_nums_transform] (built and proved exact for C13 part 2), clause [TFilterLineNums]
      - impls/types/string_transformer/impl/filter/line_matcher.py (the [TFilter] clause of [eval_t]:
        every numbered line is offered to the matcher; the read-ahead interval that limits which
        lines the implementation reads is modelled in Model/Interval.v [filter_impl] (C13) and
        Proofs/TextOpsFilterC13.v proves that algorithm equal to this clause)
      - type_val_prims/string_source/impls/transformed_string_sources.py, string_source/
        cached_frozen.py, contents/frozen.py: only [may_depend_on_external_resources] before and
        after [freeze()] (fields [s_ext], [s_fext]), which selects the strategy of [equals].

    A line iterator is a [list text].  External libraries are Section variables: Python [re]
    ([re_search], [re_full], [re_sub]), [str.upper]/[str.lower], [str.isspace] (per character).

    Executable definitions ONLY (no proofs). *)
From Coq Require Import ZArith NArith List Bool.
From Exactly Require Import Lib.Text Model.Interval Model.LineNums.
Import ListNotations.

Inductive quant := QAll | QAny.

(** Binary [&&], [||], [|]: the parser builds n-ary nodes, whose evaluation (left to right, stop
    at the first deciding operand; [|] = left-to-right composition) is that of the right-nested
    binary tree the harness emits. *)
Inductive smatcher :=
| SEmpty
| SEquals (e : tsource)
| SMatches (full : bool) (r : nat)
| SNumLines (im : imatcher)
| SLine (q : quant) (lm : lmatcher)
| STransformed (t : ttrans) (m : smatcher)
| SConst (b : bool)
| SNot (m : smatcher)
| SAnd (a b : smatcher)
| SOr (a b : smatcher)
with lmatcher :=
| LContents (m : smatcher)
| LLineNum (im : imatcher)
| LConst (b : bool)
| LNot (m : lmatcher)
| LAnd (a b : lmatcher)
| LOr (a b : lmatcher)
with ttrans :=
| TIdentity
| TReplace (preserve : bool) (sub : nat)
| TReplaceAt (sel : lmatcher) (preserve : bool) (sub : nat)
| TStrip
| TStripTrailingSpace
| TStripTrailingNewLines
| TUpper
| TLower
| TFilter (lm : lmatcher)         (* [grep [-full] R] is parsed to [filter contents matches [-full] R] *)
| TFilterLineNums (rs : list range)   (* [filter -line-nums RANGE...]: the model of C13 part 2 (Model/LineNums.v) *)
| TSeq (a b : ttrans)
with tsource :=
| SrcStr (t : text)               (* RICH-STRING / here-document *)
| SrcFile (t : text)              (* -contents-of FILE, a file checked by [contents], the output of the action to check *)
| SrcTrans (s : tsource) (t : ttrans).

(** What the code observes of a [StringSource]: its line iterator, and
    [may_depend_on_external_resources] now and after [freeze()]. *)
Record src := Src { s_lines : list text; s_ext : bool; s_fext : bool }.

Definition text_of (s : src) : text := concat (s_lines s).
Definition freeze (s : src) : src := Src (s_lines s) (s_fext s) (s_fext s).
(** file iteration / [str.splitlines(keepends=True)] (equal on texts without the exotic line
    boundaries of C14) *)
Definition file_src (t : text) : src := Src (lines_lf t) true true.
Definition str_src (t : text) : src := Src (lines_lf t) false false.

Definition tlen (t : text) : N := N.of_nat (length t).

(** [filter -line-nums]: Model/LineNums.v [line_nums_transform] returns [None] when an IndexError
    escapes from a pocket (a deque).  Here that is the ill-formed line sequence [[""]], which no
    output of the implementation equals (an escaping exception is recorded by the harness as a
    property failure); C13_line_nums_exact proves [None] unreachable, and the C05 theorems use it. *)
Definition lines_or_index_error (o : option (list text)) : list text :=
  match o with Some ls => ls | None => [[]] end.

(** [l = body ++ "\n"] *)
Fixpoint chop_nl (l : text) : option text :=
  match l with
  | [] => None
  | c :: l' =>
      match l' with
      | [] => if N.eqb c NL then Some [] else None
      | _ => option_map (cons c) (chop_nl l')
      end
  end.

(** Split at every ["\n"]: the complete pieces (each ending in ["\n"]) and the rest. *)
Fixpoint split_nl (t : text) : list text * text :=
  match t with
  | [] => ([], [])
  | c :: t' =>
      let (ps, r) := split_nl t' in
      if N.eqb c NL then ([c] :: ps, r)
      else match ps with
           | [] => ([], c :: r)
           | p :: ps' => ((c :: p) :: ps', r)
           end
  end.

(** [_lines_iterator_from_replacements]; [segments] is kept joined. *)
Fixpoint replace_lines {A} (replacer : A -> text) (segments : text) (lines : list A) : list text :=
  match lines with
  | [] => match segments with [] => [] | _ => [segments] end
  | line :: lines' =>
      let (ps, rest) := split_nl (replacer line) in
      match ps with
      | [] => replace_lines replacer (segments ++ rest) lines'
      | p :: ps' => (segments ++ p) :: ps' ++ replace_lines replacer rest lines'
      end
  end.

(** read_lines_as_str__w_minimum_num_chars: the lines read *)
Fixpoint read_lines_min (min_num : N) (actual_read : N) (lines : list text) : list text :=
  match lines with
  | [] => []
  | line :: lines' =>
      let actual_read' := (actual_read + tlen line)%N in
      line :: (if (min_num <=? actual_read')%N then [] else read_lines_min min_num actual_read' lines')
  end.
Definition read_header (min_num : N) (lines : list text) : text := concat (read_lines_min min_num 0 lines).

Definition STRING__EXTRA_TO_READ_FOR_ERROR_MESSAGES : N := 100.
Definition min_num_chars_to_read (operand : text) : N :=
  (tlen operand + 1 + STRING__EXTRA_TO_READ_FOR_ERROR_MESSAGES)%N.

(** _ApplierWExtDepsCases.match *)
Definition equals_impl (expected actual : src) : bool :=
  let expected := freeze expected in
  if s_ext expected then
    if s_ext actual then
      (* _ExtDepsOfBothHandler: filecmp.cmp(as_file, as_file, shallow=False) *)
      text_eqb (text_of actual) (text_of expected)
    else
      (* _ext_deps__only_expected: the header is read from expected.as_file *)
      let actual_str := text_of actual in
      let expected_header := read_header (min_num_chars_to_read actual_str) (lines_lf (text_of expected)) in
      text_eqb expected_header actual_str
  else
    if s_ext actual then
      (* _ext_deps__only_actual *)
      let expected_str := text_of expected in
      let actual_header := read_header (min_num_chars_to_read expected_str) (s_lines actual) in
      text_eqb expected_str actual_header
    else
      (* _ext_deps__none *)
      text_eqb (text_of expected) (text_of actual).

(** EmptinessStringMatcher: the first line (or '') is '' *)
Definition is_empty_impl (lines : list text) : bool :=
  match lines with
  | [] => true
  | first_line :: _ => text_eqb first_line []
  end.

(** model_iter_from_file_line_iter / original_and_model_iter_from_file_line_iter *)
Definition model_iter (lines : list text) : list (Z * text) :=
  enumerate_from text FIRST_LINE_NUMBER (map rstrip_nl lines).
Definition original_and_model_iter (lines : list text) : list (text * (Z * text)) :=
  map (fun nl => (snd nl, (fst nl, rstrip_nl (snd nl)))) (enumerate_from text FIRST_LINE_NUMBER lines).

(** ForAll._matches / Exists._matches *)
Definition quantify (q : quant) (p : Z * text -> bool) (elements : list (Z * text)) : bool :=
  match q with
  | QAll => forallb p elements
  | QAny => existsb p elements
  end.

(** strip_space.py: the loop shared by the three variants.  [skip]: the line is buffered
    ([isspace()], resp. [== '\n'] counted); [final]: what is yielded for the last pending line. *)
Fixpoint strip_loop (skip : text -> bool) (final : text -> list text)
         (cur : text) (skipped : list text) (lines : list text) : list text :=
  match lines with
  | [] => final cur
  | next_line :: lines' =>
      if skip next_line then strip_loop skip final cur (skipped ++ [next_line]) lines'
      else cur :: skipped ++ strip_loop skip final next_line [] lines'
  end.

Fixpoint lstrip_by (p : char -> bool) (t : text) : text :=
  match t with
  | [] => []
  | c :: t' => if p c then lstrip_by p t' else t
  end.

Fixpoint rstrip_by (p : char -> bool) (t : text) : text :=
  match t with
  | [] => []
  | c :: t' =>
      match rstrip_by p t' with
      | [] => if p c then [] else [c]
      | r => c :: r
      end
  end.

Definition is_nl (c : char) : bool := N.eqb c NL.

Section Oracles.
  (** Python [re] on the compiled pattern number [r]: [search(t) is not None],
      [fullmatch(t) is not None]; pattern + replacement pair number [k]: [sub(repl, t)]. *)
  Variable re_search : nat -> text -> bool.
  Variable re_full : nat -> text -> bool.
  Variable re_sub : nat -> text -> text.
  (** [str.upper], [str.lower] *)
  Variable py_upper : text -> text.
  Variable py_lower : text -> text.
  (** [c.isspace()] of a single character; [str.isspace], [lstrip], [rstrip] are its liftings *)
  Variable is_space : char -> bool.
  (** ApplicationEnvironment.mem_buff_size *)
  Variable mem_buff : N.

  Definition isspace (l : text) : bool :=
    match l with [] => false | _ => forallb is_space l end.

  (** first line that is not [isspace()] and the lines after it *)
  Fixpoint first_non_space (lines : list text) : option (text * list text) :=
    match lines with
    | [] => None
    | l :: lines' => if isspace l then first_non_space lines' else Some (l, lines')
    end.

  (** _strip_space *)
  Definition strip_space (lines : list text) : list text :=
    match first_non_space lines with
    | None => []
    | Some (non_empty_line, lines') =>
        strip_loop isspace (fun cur => [rstrip_by is_space cur]) (lstrip_by is_space non_empty_line) [] lines'
    end.

  (** _strip_trailing_space *)
  Definition strip_trailing_space (lines : list text) : list text :=
    match lines with
    | [] => []
    | line_before_empty_lines_list :: lines' =>
        strip_loop isspace
                   (fun cur => match rstrip_by is_space cur with [] => [] | mb_last => [mb_last] end)
                   line_before_empty_lines_list [] lines'
    end.

  (** _strip_trailing_new_lines (the counter of skipped ["\n"] lines is kept as the list of them) *)
  Definition strip_trailing_new_lines (lines : list text) : list text :=
    match lines with
    | [] => []
    | line_before_counted_empty_lines :: lines' =>
        strip_loop (fun l => text_eqb l [NL])
                   (fun cur =>
                      let last_line := match chop_nl cur with Some body => body | None => cur end in
                      match last_line with [] => [] | _ => [last_line] end)
                   line_before_counted_empty_lines [] lines'
    end.

  (** _StrReplacerIncludingNewLines / _StrReplacerExcludingNewLines.  ([line[-1]] of an empty
      line raises IndexError in Python; line iterators never yield empty lines — the theorems
      assume well-formed line sequences.) *)
  Definition replacer (preserve_new_lines : bool) (k : nat) (line : text) : text :=
    if preserve_new_lines then
      match chop_nl line with
      | Some body => re_sub k body ++ [NL]
      | None => re_sub k line
      end
    else re_sub k line.

  (** a transformed source: TransformedStringSourceFromLines *)
  Definition from_lines (dep : bool) (lines : list text) (s : src) : src :=
    Src lines (dep || s_ext s) (dep || s_fext s).

  (** filter: StringSourceWithCachedFrozen over _ContentsViaAsLines; frozen via a SpooledTextFile
      that rolls over to disk when more than [mem_buff] characters have been written. *)
  Definition cached_from_lines (lines : list text) : src :=
    Src lines true (mem_buff <? tlen (concat lines))%N.

  Fixpoint eval_m (m : smatcher) (s : src) {struct m} : bool :=
    match m with
    | SEmpty => is_empty_impl (s_lines s)
    | SEquals e => equals_impl (eval_src e) s
    | SMatches full r => if full then re_full r (text_of s) else re_search r (text_of s)
    | SNumLines im => imatches (fun _ _ => false) im (Z.of_nat (length (s_lines s)))
    | SLine q lm => quantify q (fun e => eval_lm lm (fst e) (snd e)) (model_iter (s_lines s))
    | STransformed t m' => eval_m m' (eval_t t s)
    | SConst b => b
    | SNot m' => negb (eval_m m' s)
    | SAnd a b => let s' := freeze s in if eval_m a s' then eval_m b s' else false
    | SOr a b => let s' := freeze s in if eval_m a s' then true else eval_m b s'
    end
  with eval_lm (lm : lmatcher) (n : Z) (contents : text) {struct lm} : bool :=
    match lm with
    | LContents m => eval_m m (str_src contents)
    | LLineNum im => imatches (fun _ _ => false) im n
    | LConst b => b
    | LNot m => negb (eval_lm m n contents)
    | LAnd a b => if eval_lm a n contents then eval_lm b n contents else false
    | LOr a b => if eval_lm a n contents then true else eval_lm b n contents
    end
  with eval_t (t : ttrans) (s : src) {struct t} : src :=
    match t with
    | TIdentity => from_lines false (s_lines s) s
    | TReplace preserve k => from_lines false (replace_lines (replacer preserve k) [] (s_lines s)) s
    | TReplaceAt sel preserve k =>
        from_lines true
          (replace_lines (fun line => if eval_lm sel (fst (snd line)) (snd (snd line))
                                      then replacer preserve k (fst line) else fst line)
                         [] (original_and_model_iter (s_lines s))) s
    | TStrip => from_lines false (strip_space (s_lines s)) s
    | TStripTrailingSpace => from_lines false (strip_trailing_space (s_lines s)) s
    | TStripTrailingNewLines => from_lines false (strip_trailing_new_lines (s_lines s)) s
    | TUpper => from_lines false (map py_upper (s_lines s)) s
    | TLower => from_lines false (map py_lower (s_lines s)) s
    | TFilter lm =>
        cached_from_lines
          (map fst (filter (fun line => eval_lm lm (fst (snd line)) (snd (snd line)))
                           (original_and_model_iter (s_lines s))))
    | TFilterLineNums rs =>
        (* ten single-range sources / segments source / multiple ranges with negative values: one of
           [sources.py]'s cached sources; the flags are not modelled per variant (information only) *)
        from_lines false (lines_or_index_error (line_nums_transform rs (s_lines s))) s
    | TSeq a b => eval_t b (eval_t a s)
    end
  with eval_src (e : tsource) {struct e} : src :=
    match e with
    | SrcStr t => str_src t
    | SrcFile t => file_src t
    | SrcTrans e' t => eval_t t (eval_src e')
    end.
End Oracles.
