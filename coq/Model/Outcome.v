(** * Model of the outcome table (property C02).

    Mirrors:
      - exactly_lib/execution/full_execution/result.py   ([translate_status])
      - exactly_lib/execution/full_execution/execution.py ([_STATUS_TRANSLATION] for the conf phase, SKIP)
      - exactly_lib/processing/exit_values.py            ([exit_value_of_full], [exit_value])
      - exactly_lib/processing/standalone/result_reporting.py (the three reporters)
      - exactly_lib/common/process_result_reporters.py   (identifier first, on the chosen stream)
      - exactly_lib/cli/main_program.py                  (invalid usage: 64, no identifier)
    Executable definitions only. *)
From Coq Require Import ZArith List Bool String.
Import ListNotations.
Local Open Scope Z_scope.

Inductive tc_status := TPass | TSkip | TFail.

(** ExecutionFailureStatus *)
Inductive fail_status := FSyntax | FValidation | FFail | FHard | FInternal.

(** FullExeResultStatus *)
Inductive full_status :=
  SYNTAX_ERROR | PASS | VALIDATION_ERROR | FAIL | SKIPPED | XFAIL | XPASS | HARD_ERROR | INTERNAL_ERROR.

(** [FullExeResultStatus(ps.value)] *)
Definition full_of_fail (ps : fail_status) : full_status :=
  match ps with
  | FSyntax => SYNTAX_ERROR | FValidation => VALIDATION_ERROR | FFail => FAIL
  | FHard => HARD_ERROR | FInternal => INTERNAL_ERROR
  end.

(** result.translate_status: [ps = None] means the partial execution ended without failure. *)
Definition translate_status (mode : tc_status) (ps : option fail_status) : full_status :=
  match mode, ps with
  | TFail, Some FFail => XFAIL
  | TFail, None => XPASS
  | _, None => PASS
  | _, Some s => full_of_fail s
  end.

Inductive access_error := FILE_ACCESS_ERROR | PRE_PROCESS_ERROR | ACC_SYNTAX_ERROR.

(** The identifiers that can be printed *)
Inductive ident :=
| IdFull (s : full_status)
| IdAccess (a : access_error).

(** test_case_processing.Result *)
Inductive proc_result :=
| Executed (s : full_status) (has_sds : bool) (atc_exit : option Z)
| AccessErr (a : access_error)
| InternalErr.

Definition exit_code_of_full (s : full_status) : Z :=
  match s with
  | PASS => 0 | SKIPPED => 0
  | SYNTAX_ERROR => 65 | VALIDATION_ERROR => 65
  | FAIL => 32 | XFAIL => 33 | XPASS => 33
  | HARD_ERROR => 128 | INTERNAL_ERROR => 129
  end.

(** exit_values.from_result *)
Definition exit_value (r : proc_result) : Z * ident :=
  match r with
  | Executed s _ _ => (exit_code_of_full s, IdFull s)
  | AccessErr a => (65, IdAccess a)
  | InternalErr => (129, IdFull INTERNAL_ERROR)
  end.


Inductive mode := Normal | Keep | Act.

(** The exit identifier line printed for an identifier *)
Definition full_status_name (s : full_status) : string :=
  match s with
  | SYNTAX_ERROR => "SYNTAX_ERROR" | PASS => "PASS" | VALIDATION_ERROR => "VALIDATION_ERROR"
  | FAIL => "FAIL" | SKIPPED => "SKIPPED" | XFAIL => "XFAIL" | XPASS => "XPASS"
  | HARD_ERROR => "HARD_ERROR" | INTERNAL_ERROR => "INTERNAL_ERROR"
  end%string.
Definition ident_name (i : ident) : string :=
  match i with
  | IdFull s => full_status_name s
  | IdAccess FILE_ACCESS_ERROR => "FILE_ACCESS_ERROR"
  | IdAccess PRE_PROCESS_ERROR => "PRE_PROCESS_ERROR"
  | IdAccess ACC_SYNTAX_ERROR => "SYNTAX_ERROR"
  end%string.

(** What the process writes: the lines of interest on stdout (an exit identifier line, the
    sandbox path, output of the action to check), the identifier printed on stderr (if any),
    whether the action's stderr passed through, and the process exit code.  Error message
    text is not modelled. *)
Inductive out_item := OIdent (name : string) | OSdsPath | OAtcOut | OOther.
Record report_t := Report { r_exit : Z; r_out : list out_item; r_err_ident : option string; r_atc_err : bool }.

Definition full_execution_complete (s : full_status) : bool :=
  match s with PASS | FAIL | XPASS | XFAIL => true | _ => false end.

(** [_report_with_exit_value_output]: identifier on the reporter's stream, message on stderr *)
Definition report_ident (on_stdout : bool) (pre_out : list out_item) (ev : Z * ident) : report_t :=
  if on_stdout then Report (fst ev) (pre_out ++ [OIdent (ident_name (snd ev))]) None false
  else Report (fst ev) pre_out (Some (ident_name (snd ev))) false.

(** TestCaseResultReporter.report for the three reporter classes *)
Definition report (m : mode) (r : proc_result) : report_t :=
  let ev := exit_value r in
  match r with
  | Executed s has_sds atc =>
      match m with
      | Normal => report_ident true [] ev
      | Keep => report_ident false (if has_sds then [OSdsPath] else []) ev
      | Act =>
          match atc with
          | Some c => if full_execution_complete s then Report c [] None false else report_ident false [] ev
          | None => report_ident false [] ev
          end
      end
  | _ => report_ident (match m with Normal => true | _ => false end) [] ev
  end.

(** The whole process: under --act the action to check writes to the real stdout/stderr while it
    runs (before the reporter), whenever it was executed. *)
Definition program_output (m : mode) (r : proc_result) : report_t :=
  let rep := report m r in
  match m, r with
  | Act, Executed _ _ (Some _) => Report (r_exit rep) (OAtcOut :: r_out rep) (r_err_ident rep) true
  | _, _ => rep
  end.

(** main_program._InvalidUsageReporter *)
Definition report_invalid_usage : report_t := Report 64 [] None false.

(** full execution: outcome of the configuration phase ([_STATUS_TRANSLATION]), SKIP, else
    the translated status of the partial execution. *)
Definition full_status_of (conf_failure : option fail_status) (mode : tc_status) (ps : option fail_status)
  : full_status :=
  match conf_failure with
  | Some f => full_of_fail f
  | None => match mode with TSkip => SKIPPED | _ => translate_status mode ps end
  end.

(** enumerations of the finite domains *)
Definition all_tc_status := [TPass; TSkip; TFail].
Definition all_fail_status := [FSyntax; FValidation; FFail; FHard; FInternal].
Definition all_full_status :=
  [SYNTAX_ERROR; PASS; VALIDATION_ERROR; FAIL; SKIPPED; XFAIL; XPASS; HARD_ERROR; INTERNAL_ERROR].
Definition all_access_error := [FILE_ACCESS_ERROR; PRE_PROCESS_ERROR; ACC_SYNTAX_ERROR].
Definition all_mode := [Normal; Keep; Act].

Definition full_status_eqb (a b : full_status) : bool :=
  match a, b with
  | SYNTAX_ERROR, SYNTAX_ERROR | PASS, PASS | VALIDATION_ERROR, VALIDATION_ERROR | FAIL, FAIL
  | SKIPPED, SKIPPED | XFAIL, XFAIL | XPASS, XPASS | HARD_ERROR, HARD_ERROR
  | INTERNAL_ERROR, INTERNAL_ERROR => true
  | _, _ => false
  end.
Definition access_error_eqb (a b : access_error) : bool :=
  match a, b with
  | FILE_ACCESS_ERROR, FILE_ACCESS_ERROR | PRE_PROCESS_ERROR, PRE_PROCESS_ERROR
  | ACC_SYNTAX_ERROR, ACC_SYNTAX_ERROR => true
  | _, _ => false
  end.
Definition ident_eqb (a b : ident) : bool :=
  match a, b with
  | IdFull x, IdFull y => full_status_eqb x y
  | IdAccess x, IdAccess y => access_error_eqb x y
  | _, _ => false
  end.
Definition out_item_eqb (a b : out_item) : bool :=
  match a, b with
  | OIdent x, OIdent y => String.eqb x y
  | OSdsPath, OSdsPath | OAtcOut, OAtcOut | OOther, OOther => true
  | _, _ => false
  end.
Definition tc_status_eqb (a b : tc_status) : bool :=
  match a, b with TPass, TPass | TSkip, TSkip | TFail, TFail => true | _, _ => false end.
Definition fail_status_eqb (a b : fail_status) : bool := full_status_eqb (full_of_fail a) (full_of_fail b).
Definition mode_eqb (a b : mode) : bool :=
  match a, b with Normal, Normal | Keep, Keep | Act, Act => true | _, _ => false end.
