(** Model of path parsing, symbol validation and path resolution of exactly (property C12).
    Executable definitions only.  Mirrors, branch by branch:
      impls/types/path/parse_path.py, parse_relativity.py            -> [parse_path]
      type_val_deps/types/path/path_ddvs.py, impl/path_base.py         -> [ddv], [ddv_relativity], [ddv_suffix], [ddv_value]
      path_sdv_impls/path_rel_symbol.py, path_from_symbol_reference.py -> [resolve_sdv]
      type_val_deps/types/path/references.py, value_restrictions.py,
      reference_restrictions.py, execution/impl/symbol_validation.py   -> [validate_ref], [validate_usages]
      tcfs/relativity_root.py, relative_path_options.py                -> [root_of], [option_of_name]
      pathlib.PurePosixPath (parse, str, /, is_absolute; Python 3.12)  -> [parse_pp], [pp_str], [pp_join]
    Strings are lists of code points. *)
From Coq Require Import NArith List Bool.
Import ListNotations.
Local Open Scope N_scope.

Definition text := list N.

Fixpoint text_eqb (a b : text) : bool :=
  match a, b with
  | [], [] => true
  | x :: a', y :: b' => N.eqb x y && text_eqb a' b'
  | _, _ => false
  end.

(** * pathlib.PurePosixPath *)
Definition SLASH : N := 47.
Definition DOT : N := 46.

(** [str.split('/')] *)
Fixpoint split_on (c : N) (s : text) : list text :=
  match s with
  | [] => [[]]
  | x :: s' =>
      if N.eqb x c then [] :: split_on c s'
      else match split_on c s' with
           | [] => [[x]]
           | h :: t => (x :: h) :: t
           end
  end.

Definition is_empty (p : text) : bool := match p with [] => true | _ => false end.
Definition is_dot (p : text) : bool := match p with [c] => N.eqb c DOT | _ => false end.
(** [x and x != '.'] in PurePath._parse_path *)
Definition keep_part (p : text) : bool := negb (is_empty p) && negb (is_dot p).

(** A pure path: root is 0 (relative), 1 ('/') or 2 ('//'); parts without the root. *)
Record ppath := PP { pp_root : N; pp_parts : list text }.

(** posixpath.splitroot *)
Definition root_of_text (s : text) : N :=
  match s with
  | c1 :: rest1 =>
      if N.eqb c1 SLASH then
        match rest1 with
        | c2 :: rest2 =>
            if N.eqb c2 SLASH then
              match rest2 with
              | c3 :: _ => if N.eqb c3 SLASH then 1 else 2
              | [] => 2
              end
            else 1
        | [] => 1
        end
      else 0
  | [] => 0
  end.

Definition parse_pp (s : text) : ppath := PP (root_of_text s) (filter keep_part (split_on SLASH s)).

Definition pp_is_absolute (p : ppath) : bool := negb (N.eqb (pp_root p) 0).

(** [str.startswith('/')]: what decides replacement in posixpath.join *)
Definition str_abs (s : text) : bool := match s with c :: _ => N.eqb c SLASH | [] => false end.

Fixpoint join_with (sep : N) (ps : list text) : text :=
  match ps with
  | [] => []
  | [p] => p
  | p :: ps' => p ++ sep :: join_with sep ps'
  end.

Definition root_text (r : N) : text :=
  if N.eqb r 0 then [] else if N.eqb r 2 then [SLASH; SLASH] else [SLASH].

(** [str(path)] *)
Definition pp_str (p : ppath) : text :=
  match pp_root p, pp_parts p with
  | 0, [] => [DOT]
  | r, ps => root_text r ++ join_with SLASH ps
  end.

(** [a / b]: an absolute right operand REPLACES the left one (posixpath.join) *)
Definition pp_join (a b : ppath) : ppath :=
  if pp_is_absolute b then b else PP (pp_root a) (pp_parts a ++ pp_parts b).

Definition ppath_eqb (a b : ppath) : bool :=
  N.eqb (pp_root a) (pp_root b) &&
  (fix go (x y : list text) := match x, y with
                               | [], [] => true
                               | p :: x', q :: y' => text_eqb p q && go x' y'
                               | _, _ => false
                               end) (pp_parts a) (pp_parts b).

(** * Relativities *)
Inductive relopt := RCwd | RHdsCase | RHdsAct | RAct | RTmp | RResult.

Definition relopt_eqb (a b : relopt) : bool :=
  match a, b with
  | RCwd, RCwd | RHdsCase, RHdsCase | RHdsAct, RHdsAct | RAct, RAct | RTmp, RTmp | RResult, RResult => true
  | _, _ => false
  end.

Definition all_relopts : list relopt := [RCwd; RHdsCase; RHdsAct; RAct; RTmp; RResult].

(** PathRelativityVariants *)
Record variants := Variants { v_rels : list relopt; v_abs : bool }.

Definition rel_in (r : relopt) (l : list relopt) : bool := existsb (relopt_eqb r) l.

(** tcfs/relativity_validation.is_satisfied_by; [None] = absolute *)
Definition variants_sat (rel : option relopt) (acc : variants) : bool :=
  match rel with
  | None => v_abs acc
  | Some r => rel_in r (v_rels acc)
  end.

(** RELATIVITY_VARIANTS_FOR_FILE_CREATION *)
Definition creation_variants : variants := Variants [RAct; RTmp; RCwd] false.

(** The directories of one test case run, and the current directory at the time of USE. *)
Record env := Env { e_hds_case : ppath; e_hds_act : ppath; e_sds : ppath; e_cwd : ppath }.

Definition t_act : text := [97; 99; 116].
Definition t_tmp : text := [116; 109; 112].
Definition t_result : text := [114; 101; 115; 117; 108; 116].

(** REL_OPTIONS_MAP[r].root_resolver.from_tcds *)
Definition root_of (e : env) (r : relopt) : ppath :=
  match r with
  | RCwd => e_cwd e
  | RHdsCase => e_hds_case e
  | RHdsAct => e_hds_act e
  | RAct => pp_join (e_sds e) (PP 0 [t_act])
  | RTmp => pp_join (e_sds e) (PP 0 [t_tmp])
  | RResult => pp_join (e_sds e) (PP 0 [t_result])
  end.

(** RESOLVING_DEPENDENCY_OF = HDS *)
Definition rel_is_hds (r : relopt) : bool := match r with RHdsCase | RHdsAct => true | _ => false end.

(** option names (definitions/path.py) *)
Definition opt_name (r : relopt) : text :=
  match r with
  | RCwd => [114;101;108;45;99;100]                          (* rel-cd *)
  | RHdsCase => [114;101;108;45;104;111;109;101]             (* rel-home *)
  | RHdsAct => [114;101;108;45;97;99;116;45;104;111;109;101] (* rel-act-home *)
  | RAct => [114;101;108;45;97;99;116]                       (* rel-act *)
  | RTmp => [114;101;108;45;116;109;112]                     (* rel-tmp *)
  | RResult => [114;101;108;45;114;101;115;117;108;116]      (* rel-result *)
  end.

(** parse_relativity._resolve_relativity_option_type (argument without the leading dash) *)
Definition option_of_name (s : text) : option relopt := find (fun r => text_eqb (opt_name r) s) all_relopts.

(** * Path values (DDV) *)
Inductive part := PNothing | PFixed (s : text).

Definition part_value (p : part) : text := match p with PNothing => [] | PFixed s => s end.

Inductive ddv :=
| DRel (r : relopt) (p : part)       (* _PathDdvFromRelRootResolver / _PathDdvRelHds *)
| DAbs (p : part)                    (* _PathDdvAbsolute *)
| DStacked (b : ddv) (p : part).     (* _StackedPathDdv *)

(** [relativity().relativity_type]; None = absolute *)
Fixpoint ddv_relativity (d : ddv) : option relopt :=
  match d with
  | DRel r _ => Some r
  | DAbs _ => None
  | DStacked b _ => ddv_relativity b
  end.

(** _StackedPathDdv._combine *)
Definition combine_part (first second : part) : part :=
  match first, second with
  | PNothing, _ => second
  | _, PNothing => first
  | PFixed a, PFixed b => PFixed (pp_str (pp_join (parse_pp a) (parse_pp b)))
  end.

(** [path_suffix()] *)
Fixpoint ddv_suffix (d : ddv) : part :=
  match d with
  | DRel _ p => p
  | DAbs p => p
  | DStacked b p => combine_part (ddv_suffix b) p
  end.

(** [exists_pre_sds()] *)
Definition ddv_exists_pre_sds (d : ddv) : bool :=
  match ddv_relativity d with
  | None => true
  | Some r => rel_is_hds r
  end.

(** [value_pre_sds] / [value_post_sds]: root / suffix with pathlib's [/] *)
Fixpoint ddv_value_dep (e : env) (d : ddv) : ppath :=
  match d with
  | DRel r p => pp_join (root_of e r) (parse_pp (part_value p))
  | DAbs p => parse_pp (part_value p)
  | DStacked b p => pp_join (ddv_value_dep e b) (parse_pp (part_value p))
  end.

(** [value_of_any_dependency(tcds)]: both branches compute the same expression over the model's [env] *)
Definition ddv_value (e : env) (d : ddv) : ppath :=
  if ddv_exists_pre_sds d then ddv_value_dep e d else ddv_value_dep e d.

(** * Symbol dependent values (SDV) *)
Definition sym := N.

(** fragments of a string: symbol_syntax.split *)
Inductive frag := FConst (s : text) | FSym (n : sym).

(** PathPartSdv *)
Inductive psdv := PSNothing | PSConst (s : text) | PSString (fs : list frag).

(** reference restrictions that occur around paths *)
Inductive restr :=
| RPathRel (acc : variants)       (* ReferenceRestrictionsOnDirectAndIndirect(PathAndRelativityRestriction acc) *)
| RPathOrString (acc : variants)  (* path_or_string_reference_restrictions acc *)
| RStringAll                      (* PATH_COMPONENT_STRING_REFERENCES_RESTRICTION *)
| RAnyWStr.                       (* is_any_type_w_str_rendering: fragments of a [def string] value *)

Inductive sdv :=
| SConst (d : ddv)                                         (* PathConstantSdv *)
| SRelOpt (r : relopt) (p : psdv)                          (* _PathSdvOfRelativityOptionAndSuffixSdv *)
| SRelSym (n : sym) (acc : variants) (p : psdv)            (* PathSdvRelSymbol *)
| SRef (n : sym) (acc : variants) (p : psdv) (dflt : relopt) (* SdvThatIsIdenticalToReferencedPathOrWithStringValueAsSuffix *)
| SRelHere (root : text) (p : psdv).                       (* _PathSdvOfAbsPathAndSuffixSdv *)

Definition frag_refs (r : restr) (fs : list frag) : list (sym * restr) :=
  flat_map (fun f => match f with FConst _ => [] | FSym n => [(n, r)] end) fs.

Definition psdv_refs (p : psdv) : list (sym * restr) :=
  match p with
  | PSString fs => frag_refs RStringAll fs
  | _ => []
  end.

(** [.references] *)
Definition sdv_refs (s : sdv) : list (sym * restr) :=
  match s with
  | SConst _ => []
  | SRelOpt _ p => psdv_refs p
  | SRelSym n acc p => (n, RPathRel acc) :: psdv_refs p
  | SRef n acc p _ => (n, RPathOrString acc) :: psdv_refs p
  | SRelHere _ p => psdv_refs p
  end.

(** values of symbols *)
Inductive value :=
| VString (fs : list frag)
| VPath (s : sdv)
| VList          (* a list symbol (constant elements) *)
| VOther.        (* a symbol of a type without string rendering (matchers, programs, ...) *)

Definition value_refs (v : value) : list (sym * restr) :=
  match v with
  | VString fs => frag_refs RAnyWStr fs
  | VPath s => sdv_refs s
  | _ => []
  end.

(** the symbol table, newest definition first; a definition only refers to older ones *)
Definition table := list (sym * value).

(** errors of resolution: each is an exception (implementation error) in the real program; symbol validation
    excludes them (proved in Proofs/PathsValid.v) *)
Inductive rerr :=
| EUndefined       (* KeyError in SymbolTable.lookup *)
| ENotPath         (* assert isinstance(.., PathSdv) *)
| ENotString       (* a path component that is not a string: value has dir dependencies / is a list *)
| EListAsPath.     (* 'Impossible to convert a list to a path' *)

Inductive res (A : Type) := Ok (a : A) | Err (e : rerr).
Arguments Ok {A} a.
Arguments Err {A} e.

Definition bind {A B} (x : res A) (f : A -> res B) : res B :=
  match x with Ok a => f a | Err e => Err e end.

Inductive rvalue := RVStr (s : text) | RVPath (d : ddv) | RVList | RVOther.

Section Resolve.
  (** resolution of the symbols defined so far *)
  Variable look : sym -> res rvalue.

  Definition look_str (n : sym) : res text :=
    bind (look n) (fun v => match v with RVStr s => Ok s | _ => Err ENotString end).

  Definition look_path (n : sym) : res ddv :=
    bind (look n) (fun v => match v with RVPath d => Ok d | _ => Err ENotPath end).

  (** StringSdv.resolve(..).value_when_no_dir_dependencies() *)
  Fixpoint concat_frags (fs : list frag) : res text :=
    match fs with
    | [] => Ok []
    | FConst s :: fs' => bind (concat_frags fs') (fun t => Ok (s ++ t))
    | FSym n :: fs' => bind (look_str n) (fun s => bind (concat_frags fs') (fun t => Ok (s ++ t)))
    end.

  Definition resolve_psdv (p : psdv) : res part :=
    match p with
    | PSNothing => Ok PNothing
    | PSConst s => Ok (PFixed s)
    | PSString fs => bind (concat_frags fs) (fun s => Ok (PFixed s))
    end.

  (** str.lstrip('/') *)
  Fixpoint lstrip_slash (s : text) : text :=
    match s with
    | c :: s' => if N.eqb c SLASH then lstrip_slash s' else s
    | [] => []
    end.

  Definition resolve_sdv (s : sdv) : res ddv :=
    match s with
    | SConst d => Ok d
    | SRelOpt r p => bind (resolve_psdv p) (fun sfx => Ok (DRel r sfx))
    | SRelSym n _ p =>
        bind (look_path n) (fun base =>
        bind (resolve_psdv p) (fun sfx =>
        Ok (if is_empty (part_value sfx) then base else DStacked base sfx)))
    | SRef n _ p dflt =>
        bind (look n) (fun v =>
        match v with
        | RVPath path =>
            bind (resolve_psdv p) (fun sfx =>
            let suffix_str := part_value sfx in
            Ok (if is_empty suffix_str then path else DStacked path (PFixed (lstrip_slash suffix_str))))
        | RVStr first =>
            bind (resolve_psdv p) (fun sfx =>
            let path_str := first ++ part_value sfx in
            Ok (if pp_is_absolute (parse_pp path_str) then DAbs (PFixed path_str) else DRel dflt (PFixed path_str)))
        | RVList => Err EListAsPath
        | RVOther => Err ENotPath
        end)
    | SRelHere root p =>
        bind (resolve_psdv p) (fun sfx =>
        Ok (DAbs (PFixed (pp_str (pp_join (parse_pp root) (parse_pp (part_value sfx)))))))
    end.
End Resolve.

(** what a symbol resolves to; structural recursion over the table: a definition is resolved in the
    table of the OLDER definitions (names are unique, so this is the lookup of the real dict) *)
Fixpoint rvalue_of_sym (tbl : table) (n : sym) : res rvalue :=
  match tbl with
  | [] => Err EUndefined
  | (m, v) :: rest =>
      if N.eqb m n then
        match v with
        | VString fs => bind (concat_frags (rvalue_of_sym rest) fs) (fun s => Ok (RVStr s))
        | VPath s => bind (resolve_sdv (rvalue_of_sym rest) s) (fun d => Ok (RVPath d))
        | VList => Ok RVList
        | VOther => Ok RVOther
        end
      else rvalue_of_sym rest n
  end.

Definition resolve (tbl : table) (s : sdv) : res ddv := resolve_sdv (rvalue_of_sym tbl) s.

(** * Symbol validation *)
Fixpoint lookup (tbl : table) (n : sym) : option (value * table) :=
  match tbl with
  | [] => None
  | (m, v) :: rest => if N.eqb m n then Some (v, rest) else lookup rest n
  end.

Definition contains (tbl : table) (n : sym) : bool := match lookup tbl n with Some _ => true | None => false end.

(** is_string__all_indirect_refs_are_strings: the symbol is a string and so is every symbol reached from it *)
Fixpoint sym_all_strings (tbl : table) (n : sym) : bool :=
  match tbl with
  | [] => false
  | (m, v) :: rest =>
      if N.eqb m n then
        match v with
        | VString fs => forallb (fun f => match f with FConst _ => true | FSym k => sym_all_strings rest k end) fs
        | _ => false
        end
      else sym_all_strings rest n
  end.

Inductive verdict :=
| VAccept
| VReject     (* VALIDATION_ERROR *)
| VCrash.     (* an exception inside validation (implementation error) *)

(** PathAndRelativityRestriction.is_satisfied_by *)
Definition check_path_rel (rest : table) (v : value) (acc : variants) : verdict :=
  match v with
  | VPath s =>
      match resolve rest s with
      | Ok d => if variants_sat (ddv_relativity d) acc then VAccept else VReject
      | Err _ => VCrash
      end
  | _ => VReject
  end.

Definition of_bool (b : bool) : verdict := if b then VAccept else VReject.

(** symbol_validation._validate_symbol_reference *)
Definition validate_ref (tbl : table) (nr : sym * restr) : verdict :=
  let (n, r) := nr in
  match lookup tbl n with
  | None => VReject                                   (* undefined symbol *)
  | Some (v, rest) =>
      match r with
      | RPathRel acc => check_path_rel rest v acc
      | RPathOrString acc =>
          match v with
          | VPath _ => check_path_rel rest v acc
          | VString _ => of_bool (sym_all_strings tbl n)
          | VList => VReject                          (* no matching part *)
          | VOther => VReject
          end
      | RStringAll => of_bool (sym_all_strings tbl n)
      | RAnyWStr => match v with VOther => VReject | _ => VAccept end
      end
  end.

Fixpoint validate_refs (tbl : table) (refs : list (sym * restr)) : verdict :=
  match refs with
  | [] => VAccept
  | r :: refs' =>
      match validate_ref tbl r with
      | VAccept => validate_refs tbl refs'
      | v => v
      end
  end.

(** symbol_validation._validate_symbol_definition *)
Definition validate_def (tbl : table) (n : sym) (v : value) : verdict * table :=
  if contains tbl n then (VReject, tbl)
  else match validate_refs tbl (value_refs v) with
       | VAccept => (VAccept, (n, v) :: tbl)
       | x => (x, tbl)
       end.

Fixpoint validate_defs (tbl : table) (defs : list (sym * value)) : verdict * table :=
  match defs with
  | [] => (VAccept, tbl)
  | (n, v) :: defs' =>
      match validate_def tbl n v with
      | (VAccept, tbl') => validate_defs tbl' defs'
      | x => x
      end
  end.

(** * The parser of a PATH argument *)
Inductive quote := QPlain | QSoft | QHard.

(** the PATH-STRING token: how it is quoted and its fragments ([symbol_syntax.split]; a hard-quoted
    token is one constant) *)
Record strtok := StrTok { st_quote : quote; st_frags : list frag }.

(** the option token in front of it *)
Inductive relarg :=
| RNone
| ROpt (r : relopt)     (* -rel-home -rel-act-home -rel-act -rel-tmp -rel-result -rel-cd *)
| RSym (n : sym)        (* -rel NAME *)
| RHere                 (* -rel-here *)
| RUnknownOpt.          (* any other token beginning with a dash *)

Record parg := PArg { pa_rel : relarg; pa_str : option strtok }.

(** RelOptionArgumentConfiguration (+ source file location given by [def]) *)
Record conf := Conf { c_acc : variants; c_default : relopt; c_suffix_required : bool; c_here : option text }.

Inductive presult :=
| PSyntaxError
| PCrash                  (* an exception other than the syntax error while parsing (none in the current code) *)
| PParsed (s : sdv).

Definition RESERVED : list text :=
  [[40]; [41]; [91]; [93]; [123]; [125]; [61]; [124]; [58]; [33]; [38;38]; [124;124]].

Definition tok_is_reserved (t : strtok) : bool :=
  match st_quote t, st_frags t with
  | QPlain, [FConst w] => existsb (text_eqb w) RESERVED
  | _, _ => false
  end.

Definition DASH : N := 45.

(** a plain token whose source begins with a dash *)
Definition tok_is_optionlike (t : strtok) : bool :=
  match st_quote t, st_frags t with
  | QPlain, FConst (c :: _) :: _ => N.eqb c DASH
  | _, _ => false
  end.

Definition all_const (fs : list frag) : bool := forallb (fun f => match f with FConst _ => true | FSym _ => false end) fs.
Fixpoint const_concat (fs : list frag) : text :=
  match fs with
  | [] => []
  | FConst s :: fs' => s ++ const_concat fs'
  | FSym _ :: fs' => const_concat fs'
  end.

(** _path_suffix_sdv_from_fragments *)
Definition suffix_of_frags (fs : list frag) : psdv := match fs with [] => PSNothing | _ => PSString fs end.

(** _just_string_argument *)
Definition just_string_argument (c : conf) (s : text) : sdv :=
  if pp_is_absolute (parse_pp s) then SConst (DAbs (PFixed s))
  else SConst (DRel (c_default c) (PFixed s)).

(** _without_explicit_relativity (+ reduction of a bare symbol name by MakePathFromMbSymbolReference) *)
Definition without_explicit_relativity (c : conf) (t : strtok) : presult :=
  match st_frags t with
  | [] => PParsed (SRelOpt (c_default c) (suffix_of_frags []))   (* the empty string "": no fragments *)
  | [FSym n] => PParsed (SRef n (c_acc c) PSNothing (c_default c))
  | [FConst s] => PParsed (just_string_argument c s)
  | FSym n :: (FConst k :: _) as rest =>
      if str_abs k then PParsed (SRef n (c_acc c) (suffix_of_frags rest) (c_default c))
      else PParsed (SRelOpt (c_default c) (suffix_of_frags (st_frags t)))
  | fs => PParsed (SRelOpt (c_default c) (suffix_of_frags fs))
  end.

(** _with_explicit_relativity *)
Definition with_explicit_relativity (t : strtok) (ctor : psdv -> sdv) : sdv :=
  if all_const (st_frags t) then
    let s := const_concat (st_frags t) in
    if pp_is_absolute (parse_pp s) then SConst (DAbs (PFixed s)) else ctor (PSConst s)
  else ctor (PSString (st_frags t)).

(** parse_explicit_relativity_info: None = syntax error; Some None = no relativity given *)
Definition relativity_ctor (c : conf) (r : relarg) : option (option (psdv -> sdv)) :=
  match r with
  | RNone => Some None
  | RSym n => Some (Some (SRelSym n (c_acc c)))
  | RHere => match c_here c with
             | Some root => Some (Some (SRelHere root))
             | None => None                               (* Invalid option *)
             end
  | ROpt o => if rel_in o (v_rels (c_acc c)) then Some (Some (SRelOpt o)) else None  (* Illegal relativity option *)
  | RUnknownOpt => None
  end.

Definition parse_path (c : conf) (a : parg) : presult :=
  match pa_rel a, pa_str a with
  | RNone, None =>
      if c_suffix_required c then PSyntaxError                      (* Missing PATH *)
      else PParsed (SConst (DRel (c_default c) PNothing))           (* _result_from_no_arguments *)
  | _, _ =>
      match relativity_ctor c (pa_rel a) with
      | None => PSyntaxError
      | Some info =>
          match pa_str a with
          | None =>
              if c_suffix_required c then PSyntaxError
              else match info with
                   | None => PParsed (SConst (DRel (c_default c) PNothing))
                   | Some ctor => PParsed (ctor PSNothing)
                   end
          | Some t =>
              if tok_is_reserved t then PSyntaxError
              else if tok_is_optionlike t then PSyntaxError
              else match info with
                   | None => without_explicit_relativity c t
                   | Some ctor => PParsed (with_explicit_relativity t ctor)
                   end
          end
      end
  end.

(** configuration of the PATH argument of [def path] (all relativities, absolute, default -rel-cd) *)
Definition def_conf (here : text) : conf := Conf (Variants all_relopts true) RCwd true (Some here).
(** configuration of every argument that names a file or directory to create *)
Definition creation_conf (suffix_required : bool) : conf := Conf creation_variants RCwd suffix_required None.
