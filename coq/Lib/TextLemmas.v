(** Lemmas about [Lib/Text.v]. *)
From Coq Require Import NArith List Bool Lia.
From Exactly Require Import Lib.Text.
Import ListNotations.
Local Open Scope N_scope.

(** ** Boolean equalities *)
Lemma text_eqb_eq : forall a b, text_eqb a b = true <-> a = b.
Proof.
  induction a as [|x a IH]; destruct b as [|y b]; cbn; split; intros H; try reflexivity; try discriminate.
  - apply andb_true_iff in H as [H1 H2]. apply N.eqb_eq in H1. apply IH in H2. congruence.
  - injection H as -> ->. apply andb_true_iff. split; [apply N.eqb_refl | apply IH; reflexivity].
Qed.

Lemma text_eqb_refl : forall a, text_eqb a a = true.
Proof. intros a. apply text_eqb_eq. reflexivity. Qed.

Lemma lines_eqb_eq : forall a b, lines_eqb a b = true <-> a = b.
Proof.
  induction a as [|x a IH]; destruct b as [|y b]; cbn; split; intros H; try reflexivity; try discriminate.
  - apply andb_true_iff in H as [H1 H2]. apply text_eqb_eq in H1. apply IH in H2. congruence.
  - injection H as -> ->. apply andb_true_iff. split; [apply text_eqb_refl | apply IH; reflexivity].
Qed.

Lemma lines_eqb_refl : forall a, lines_eqb a a = true.
Proof. intros a. apply lines_eqb_eq. reflexivity. Qed.

(** ** [cons_to_first] *)
Lemma concat_cons_to_first : forall c ls, concat (cons_to_first c ls) = c :: concat ls.
Proof. intros c [|l ls]; reflexivity. Qed.

(** ** [lines_lf]: concatenation gives the text back *)
Lemma concat_lines_lf : forall t, concat (lines_lf t) = t.
Proof.
  induction t as [|c t IH]; cbn [lines_lf]; [reflexivity|].
  destruct (N.eqb c NL).
  - cbn. now rewrite IH.
  - rewrite concat_cons_to_first. now rewrite IH.
Qed.

Lemma lines_lf_nil_iff : forall t, lines_lf t = [] <-> t = [].
Proof.
  intros t. split; [|intros ->; reflexivity].
  destruct t as [|c t]; [reflexivity|]. cbn [lines_lf].
  destruct (N.eqb c NL); [discriminate|]. destruct (lines_lf t); discriminate.
Qed.

(** ** Shape of the lines: every line but possibly the last ends in "\n" and contains no other
    "\n"; the last one is such a line or a non-empty line without "\n". *)
Lemma is_full_line_cons : forall c l, N.eqb c NL = false -> is_full_line l = true -> is_full_line (c :: l) = true.
Proof. intros c [|d l] Hc H; [discriminate|]. cbn [is_full_line]. rewrite Hc. exact H. Qed.

Lemma is_partial_line_cons : forall c l, N.eqb c NL = false -> (l = [] \/ is_partial_line l = true) -> is_partial_line (c :: l) = true.
Proof.
  intros c l Hc [->|H]; cbn; rewrite Hc; [reflexivity|].
  destruct l; [reflexivity|]. exact H.
Qed.

Lemma wf_lines_cons_to_first : forall c ls, N.eqb c NL = false -> wf_lines ls = true -> wf_lines (cons_to_first c ls) = true.
Proof.
  intros c [|l ls] Hc H.
  - cbn. rewrite Hc. reflexivity.
  - cbn [cons_to_first]. destruct ls as [|l2 ls].
    + cbn [wf_lines] in *. apply orb_true_iff in H as [H|H]; apply orb_true_iff.
      * left. now apply is_full_line_cons.
      * right. apply is_partial_line_cons; [exact Hc | now right].
    + cbn [wf_lines] in *. apply andb_true_iff in H as [H1 H2]. apply andb_true_iff. split; [|exact H2].
      now apply is_full_line_cons.
Qed.

Lemma wf_lines_cons_full : forall l ls, is_full_line l = true -> wf_lines ls = true -> wf_lines (l :: ls) = true.
Proof.
  intros l [|l2 ls] Hl H; cbn [wf_lines].
  - rewrite Hl. reflexivity.
  - rewrite Hl. exact H.
Qed.

Lemma wf_lines_lines_lf : forall t, wf_lines (lines_lf t) = true.
Proof.
  induction t as [|c t IH]; [reflexivity|]. cbn [lines_lf].
  destruct (N.eqb c NL) eqn:Hc.
  - apply wf_lines_cons_full; [|exact IH]. cbn. exact Hc.
  - now apply wf_lines_cons_to_first.
Qed.

(** Explicit reading of [wf_lines]: all lines but the last are full lines. *)
Lemma wf_lines_all_but_last_full : forall ls l, wf_lines (ls ++ [l]) = true -> Forall (fun x => is_full_line x = true) ls.
Proof.
  induction ls as [|x ls IH]; intros l H; [constructor|].
  cbn [app wf_lines] in H. destruct (ls ++ [l]) eqn:E.
  - destruct ls; discriminate.
  - rewrite <- E in H. apply andb_true_iff in H as [H1 H2]. constructor; [exact H1 | eapply IH; exact H2].
Qed.

Lemma is_full_line_spec : forall l, is_full_line l = true <-> exists body, l = body ++ [NL] /\ forallb (fun c => negb (N.eqb c NL)) body = true.
Proof.
  induction l as [|c l IH].
  - split; [discriminate|]. intros [b [E _]]. destruct b; discriminate.
  - destruct l as [|d l].
    + cbn [is_full_line]. split.
      * intros H. apply N.eqb_eq in H. subst c. exists []. split; reflexivity.
      * intros [b [E Hb]]. destruct b as [|x [|y b]]; cbn in E.
        -- injection E as ->. reflexivity.
        -- discriminate.
        -- discriminate.
    + change (is_full_line (c :: d :: l)) with (negb (N.eqb c NL) && is_full_line (d :: l)). split.
      * intros H. apply andb_true_iff in H as [H1 H2]. apply IH in H2 as [b [E Hb]].
        exists (c :: b). split; [cbn; now rewrite E|]. cbn. now rewrite H1, Hb.
      * intros [b [E Hb]]. destruct b as [|x b]; [discriminate|]. cbn in E. injection E as -> E.
        cbn in Hb. apply andb_true_iff in Hb as [Hb1 Hb2]. apply andb_true_iff. split; [exact Hb1|].
        apply IH. exists b. split; assumption.
Qed.

(** ** [lines_lf] of a well-formed line sequence gives the sequence back *)
Lemma lines_lf_app_full : forall l t, is_full_line l = true -> lines_lf (l ++ t) = l :: lines_lf t.
Proof.
  induction l as [|c l IH]; intros t H; [discriminate|].
  destruct l as [|d l].
  - cbn [is_full_line] in H. cbn [app lines_lf]. rewrite H. apply N.eqb_eq in H. now subst c.
  - change (is_full_line (c :: d :: l)) with (negb (N.eqb c NL) && is_full_line (d :: l)) in H.
    apply andb_true_iff in H as [H1 H2]. apply negb_true_iff in H1.
    change ((c :: d :: l) ++ t) with (c :: ((d :: l) ++ t)). cbn [lines_lf]. rewrite H1.
    rewrite (IH t H2). reflexivity.
Qed.

Lemma lines_lf_partial : forall l, is_partial_line l = true -> lines_lf l = [l].
Proof.
  induction l as [|c l IH]; intros H; [discriminate|].
  cbn in H. apply andb_true_iff in H as [H1 H2]. apply negb_true_iff in H1.
  cbn [lines_lf]. rewrite H1. destruct l as [|d l]; [reflexivity|].
  rewrite IH; [reflexivity|]. exact H2.
Qed.

Lemma lines_lf_concat : forall ls, wf_lines ls = true -> lines_lf (concat ls) = ls.
Proof.
  induction ls as [|l ls IH]; intros H; [reflexivity|].
  destruct ls as [|l2 ls].
  - cbn [wf_lines] in H. cbn [concat]. rewrite app_nil_r. apply orb_true_iff in H as [H|H].
    + rewrite <- (app_nil_r l) at 1. rewrite lines_lf_app_full by exact H. reflexivity.
    + now apply lines_lf_partial.
  - cbn [wf_lines] in H. apply andb_true_iff in H as [H1 H2]. cbn [concat].
    rewrite lines_lf_app_full by exact H1. f_equal. apply IH. exact H2.
Qed.

(** ** [splitlines_keepends] *)
Lemma concat_splitlines : forall t, concat (splitlines_keepends t) = t.
Proof.
  induction t as [|c t IH]; [reflexivity|]. cbn [splitlines_keepends].
  destruct (is_break c && negb (N.eqb c CR && head_is NL t)).
  - cbn. now rewrite IH.
  - rewrite concat_cons_to_first. now rewrite IH.
Qed.

Lemma is_break_not_exotic : forall c, is_exotic_break c = false -> is_break c = N.eqb c NL.
Proof.
  intros c H. unfold is_exotic_break in H. destruct (N.eqb c NL) eqn:E.
  - apply N.eqb_eq in E. subst c. reflexivity.
  - destruct (is_break c); [discriminate H | reflexivity].
Qed.

Lemma not_exotic_not_cr : forall c, is_exotic_break c = false -> N.eqb c CR = false.
Proof.
  intros c H. destruct (N.eqb c CR) eqn:E; [|reflexivity].
  apply N.eqb_eq in E. subst c. discriminate H.
Qed.

(** The heart of C14: on a text without any boundary character other than "\n",
    [str.splitlines(True)] and file iteration agree. *)
Lemma splitlines_eq_lines_lf : forall t, no_exotic_breaks t = true -> splitlines_keepends t = lines_lf t.
Proof.
  induction t as [|c t IH]; intros H; [reflexivity|].
  cbn in H. apply andb_true_iff in H as [Hc Ht]. apply negb_true_iff in Hc.
  cbn [splitlines_keepends lines_lf]. rewrite (IH Ht).
  rewrite (is_break_not_exotic c Hc), (not_exotic_not_cr c Hc). cbn [andb negb]. rewrite andb_true_r.
  reflexivity.
Qed.

(** The converse is FALSE (DESIGN.md section 5 says "iff"): a boundary character at the very end of the
    text does not change the division, e.g. "a\x0c". *)
Example splitlines_eq_lines_lf_converse_false :
  splitlines_keepends [97; 12] = lines_lf [97; 12] /\ no_exotic_breaks [97; 12] = false.
Proof. split; reflexivity. Qed.

(** ** [universal_nl] is the identity on texts without "\r" *)
Lemma universal_nl_no_cr : forall t, no_cr t = true -> universal_nl t = t.
Proof.
  induction t as [|c t IH]; intros H; [reflexivity|].
  cbn in H. apply andb_true_iff in H as [Hc Ht]. apply negb_true_iff in Hc.
  cbn [universal_nl]. rewrite Hc. now rewrite IH.
Qed.

Lemma no_exotic_no_cr : forall t, no_exotic_breaks t = true -> no_cr t = true.
Proof.
  induction t as [|c t IH]; intros H; [reflexivity|].
  cbn in H. apply andb_true_iff in H as [Hc Ht]. apply negb_true_iff in Hc.
  cbn. rewrite (not_exotic_not_cr c Hc). cbn. now apply IH.
Qed.

Lemma universal_nl_clean : forall t, no_exotic_breaks t = true -> universal_nl t = t.
Proof. intros t H. apply universal_nl_no_cr. now apply no_exotic_no_cr. Qed.

(** ** The guard is stable under concatenation and taking lines *)
Lemma no_exotic_app : forall a b, no_exotic_breaks (a ++ b) = no_exotic_breaks a && no_exotic_breaks b.
Proof. intros a b. unfold no_exotic_breaks. apply forallb_app. Qed.

Lemma no_exotic_concat : forall ls, no_exotic_breaks (concat ls) = forallb no_exotic_breaks ls.
Proof.
  induction ls as [|l ls IH]; [reflexivity|]. cbn [concat forallb]. now rewrite no_exotic_app, IH.
Qed.

Lemma no_exotic_lines_lf : forall t, no_exotic_breaks t = true -> forallb no_exotic_breaks (lines_lf t) = true.
Proof. intros t H. rewrite <- no_exotic_concat, concat_lines_lf. exact H. Qed.
