(** * A universe of Python values and the dynamic semantics of the operations that the
    source translator [harness/py2coq.py] emits.

    The translator is untyped: every Python expression becomes a Gallina term of type [pyval],
    every Python operation becomes one of the functions below, which implement the operation
    on the values they are defined for and give [VErr] on everything else (a raised exception,
    or an operand outside what is implemented here -- never a default result).  Hence a tie
    theorem  [py_f (enc x) = enc' (model_f x)]  can only be proved if the translated function
    stays inside the implemented fragment on all encoded inputs.

    [VRet v] is a control marker ("the enclosing function has executed [return v]"); it never
    occurs inside a value and is not produced by any encoder.

    Executable definitions ONLY (no proofs); the lemmas are in Proofs/PyValLemmas.v. *)
From Coq Require Import ZArith List Bool String.
Import ListNotations.
Local Open Scope Z_scope.

Inductive pyval :=
| VNone
| VBool (b : bool)
| VInt (z : Z)
| VStr (s : string)
| VTuple (l : list pyval)
| VList (l : list pyval)
| VSet (l : list pyval)                      (* a set display of hashable atoms; only [in] is defined on it *)
| VDict (kvs : list (pyval * pyval))         (* a dict display; only subscription and [in] *)
| VEnum (cls : string) (name : string) (value : pyval)   (* member of an Enum class *)
| VObj (cls : string) (fields : list pyval)  (* instance of a record-like class: fields in the order of __init__ *)
| VRet (v : pyval)
| VErr.

(** a proper value at the top: neither an exception nor the control marker *)
Definition py_ok (v : pyval) : bool := match v with VErr | VRet _ => false | _ => true end.

(** ** control *)
(** [x = e; rest] *)
Definition py_let (e : pyval) (k : pyval -> pyval) : pyval := if py_ok e then k e else VErr.
(** [block; rest]: a block evaluates to [VRet v] (returned), [VErr] (raised) or the tuple of the
    variables that are live after it *)
Definition py_seq (e : pyval) (k : pyval -> pyval) : pyval :=
  match e with VRet v => VRet v | VErr => VErr | _ => k e end.
Definition py_ret (e : pyval) : pyval := if py_ok e then VRet e else VErr.
(** body of a function: falling off the end returns None *)
Definition py_fun_result (body : pyval) : pyval :=
  match body with VRet v => v | VTuple [] => VNone | _ => VErr end.
(** body of a function that mutates list parameters ("out parameters"): the result is the tuple
    (returned value, final values of the out parameters...) *)
Definition py_fun_result_out (body : pyval) : pyval :=
  match body with VRet v => v | VTuple outs => VTuple (VNone :: outs) | _ => VErr end.
(** the parameters of a function are evaluated before the call *)
Definition py_strict (a : pyval) (k : pyval) : pyval := if py_ok a then k else VErr.

(** truth value testing (objects: the translator refuses classes defining __bool__/__len__) *)
Definition py_truthy (v : pyval) : option bool :=
  match v with
  | VNone => Some false
  | VBool b => Some b
  | VInt z => Some (negb (z =? 0))
  | VStr s => Some (negb (String.eqb s ""))
  | VTuple l | VList l | VSet l => Some (match l with [] => false | _ => true end)
  | VDict l => Some (match l with [] => false | _ => true end)
  | VEnum _ _ _ => Some true
  | VObj _ _ => Some true
  | VRet _ | VErr => None
  end.
Definition py_not (v : pyval) : pyval :=
  match py_truthy v with Some b => VBool (negb b) | None => VErr end.
(** [a and b], [a or b]: the value of an operand, the second one evaluated only if needed *)
Definition py_and (a : pyval) (b : unit -> pyval) : pyval :=
  match py_truthy a with Some true => b tt | Some false => a | None => VErr end.
Definition py_or (a : pyval) (b : unit -> pyval) : pyval :=
  match py_truthy a with Some true => a | Some false => b tt | None => VErr end.

(** ** constructors of compound values evaluate their elements *)
Definition all_ok (l : list pyval) : bool := forallb py_ok l.
Definition py_tuple (l : list pyval) : pyval := if all_ok l then VTuple l else VErr.
Definition py_list (l : list pyval) : pyval := if all_ok l then VList l else VErr.
Definition py_obj (cls : string) (l : list pyval) : pyval := if all_ok l then VObj cls l else VErr.

(** ** integers *)
Definition py_int2 (f : Z -> Z -> Z) (a b : pyval) : pyval :=
  match a, b with VInt x, VInt y => VInt (f x y) | _, _ => VErr end.
Definition py_add (a b : pyval) : pyval :=
  match a, b with
  | VInt x, VInt y => VInt (x + y)
  | VStr x, VStr y => VStr (String.append x y)
  | VList x, VList y => VList (x ++ y)
  | VTuple x, VTuple y => VTuple (x ++ y)
  | _, _ => VErr
  end.
Definition py_sub := py_int2 Z.sub.
Definition py_mul := py_int2 Z.mul.
Definition py_neg (a : pyval) : pyval := match a with VInt x => VInt (- x) | _ => VErr end.
Definition py_abs (a : pyval) : pyval := match a with VInt x => VInt (Z.abs x) | _ => VErr end.
Definition py_max2 := py_int2 Z.max.
Definition py_min2 := py_int2 Z.min.

(** ** comparison: ints, and tuples of comparable values (lexicographic); anything else is refused *)
Fixpoint py_cmp (a b : pyval) : option comparison :=
  match a, b with
  | VInt x, VInt y => Some (x ?= y)
  | VTuple l1, VTuple l2 =>
      (fix go (l1 l2 : list pyval) : option comparison :=
         match l1, l2 with
         | [], [] => Some Eq
         | [], _ :: _ => Some Lt
         | _ :: _, [] => Some Gt
         | x :: l1', y :: l2' =>
             match py_cmp x y with Some Eq => go l1' l2' | r => r end
         end) l1 l2
  | _, _ => None
  end.
Definition py_cmp_with (f : comparison -> bool) (a b : pyval) : pyval :=
  match py_cmp a b with Some c => VBool (f c) | None => VErr end.
Definition py_lt := py_cmp_with (fun c => match c with Lt => true | _ => false end).
Definition py_le := py_cmp_with (fun c => match c with Gt => false | _ => true end).
Definition py_gt := py_cmp_with (fun c => match c with Gt => true | _ => false end).
Definition py_ge := py_cmp_with (fun c => match c with Lt => false | _ => true end).

(** equality of hashable atoms (None, bool, int, str, members of ONE enum class, tuples of those).  Mixed
    bool/int (True == 1), an enum member against an int or a member of another class (IntEnum members equal
    ints), objects (a class may define __eq__) and everything else is refused ([None]). *)
Fixpoint py_eqb (a b : pyval) : option bool :=
  match a, b with
  | VNone, VNone => Some true
  | VBool x, VBool y => Some (Bool.eqb x y)
  | VInt x, VInt y => Some (x =? y)
  | VStr x, VStr y => Some (String.eqb x y)
  | VEnum c1 n1 _, VEnum c2 n2 _ => if String.eqb c1 c2 then Some (String.eqb n1 n2) else None
  | VTuple l1, VTuple l2 =>
      (fix go (l1 l2 : list pyval) : option bool :=
         match l1, l2 with
         | [], [] => Some true
         | x :: l1', y :: l2' =>
             match py_eqb x y with Some true => go l1' l2' | r => r end
         | _, _ => Some false
         end) l1 l2
  | VNone, (VInt _ | VStr _ | VEnum _ _ _ | VTuple _) | (VInt _ | VStr _ | VEnum _ _ _ | VTuple _), VNone => Some false
  | VInt _, (VStr _ | VTuple _) | (VStr _ | VTuple _), VInt _ => Some false
  | VStr _, VTuple _ | VTuple _, VStr _ => Some false
  | _, _ => None
  end.
Definition py_eq (a b : pyval) : pyval := match py_eqb a b with Some r => VBool r | None => VErr end.
Definition py_ne (a b : pyval) : pyval := match py_eqb a b with Some r => VBool (negb r) | None => VErr end.

(** [x is None], [x is not None] *)
Definition py_is_none (a : pyval) : pyval :=
  match a with VNone => VBool true | VRet _ | VErr => VErr | _ => VBool false end.
Definition py_is_not_none (a : pyval) : pyval :=
  match a with VNone => VBool false | VRet _ | VErr => VErr | _ => VBool true end.
(** [x is True], [x is False]: identity with the bool singletons (1 is True = False) *)
Definition py_is_bool (b : bool) (a : pyval) : pyval :=
  match a with VBool x => VBool (Bool.eqb x b) | VRet _ | VErr => VErr | _ => VBool false end.
(** [x is M] for an enum member M (members are singletons): x must be None or an enum member *)
Definition py_is (a b : pyval) : pyval :=
  match a, b with
  | VEnum c1 n1 _, VEnum c2 n2 _ => VBool (String.eqb c1 c2 && String.eqb n1 n2)
  | VNone, VEnum _ _ _ | VEnum _ _ _, VNone => VBool false
  | VNone, VNone => VBool true
  | _, _ => VErr
  end.
Definition py_is_not (a b : pyval) : pyval :=
  match py_is a b with VBool r => VBool (negb r) | _ => VErr end.

(** ** sequences *)
Definition seq_items (v : pyval) : option (list pyval) :=
  match v with VTuple l | VList l => Some l | _ => None end.
Definition py_len (v : pyval) : pyval :=
  match v with
  | VTuple l | VList l | VSet l => VInt (Z.of_nat (List.length l))
  | VDict l => VInt (Z.of_nat (List.length l))
  | _ => VErr
  end.
Fixpoint nth_opt (l : list pyval) (n : nat) : pyval :=
  match l, n with
  | [], _ => VErr
  | x :: _, O => x
  | _ :: l', S n' => nth_opt l' n'
  end.
(** [v[i]] on a tuple or list (negative indices count from the end; IndexError = VErr), or on a dict *)
Fixpoint dict_get (kvs : list (pyval * pyval)) (k : pyval) : pyval :=
  match kvs with
  | [] => VErr
  | (k', v) :: kvs' =>
      match py_eqb k' k with Some true => v | Some false => dict_get kvs' k | None => VErr end
  end.
Definition py_index (v i : pyval) : pyval :=
  match v, i with
  | (VTuple l | VList l), VInt z =>
      let n := Z.of_nat (List.length l) in
      if (0 <=? z) && (z <? n) then nth_opt l (Z.to_nat z)
      else if (z <? 0) && (- n <=? z) then nth_opt l (Z.to_nat (n + z))
      else VErr
  | VDict kvs, _ => if py_ok i then dict_get kvs i else VErr
  | _, _ => VErr
  end.
(** [v[k]] for a literal k >= 0 *)
Definition py_item (v : pyval) (k : nat) : pyval :=
  match v with VTuple l | VList l => nth_opt l k | _ => VErr end.
(** str (a Coq [string]: characters 0..255 only) *)
Fixpoint str_take (k : nat) (s : string) : string :=
  match k, s with S k', String c s' => String c (str_take k' s') | _, _ => EmptyString end.
Fixpoint str_drop (k : nat) (s : string) : string :=
  match k, s with S k', String _ s' => str_drop k' s' | _, _ => s end.
(** [v[k:]], [v[:k]] for a literal k >= 0 *)
Definition py_slice_from (v : pyval) (k : nat) : pyval :=
  match v with VTuple l => VTuple (skipn k l) | VList l => VList (skipn k l) | VStr s => VStr (str_drop k s) | _ => VErr end.
Definition py_slice_to (v : pyval) (k : nat) : pyval :=
  match v with VTuple l => VTuple (firstn k l) | VList l => VList (firstn k l) | VStr s => VStr (str_take k s) | _ => VErr end.
(** [l.append(x)], [l.insert(0, x)], [del l[0]] as rebinding of the (uniquely owned) list *)
Definition py_append (l x : pyval) : pyval :=
  match l with VList xs => if py_ok x then VList (xs ++ [x]) else VErr | _ => VErr end.
Definition py_insert0 (l x : pyval) : pyval :=
  match l with VList xs => if py_ok x then VList (x :: xs) else VErr | _ => VErr end.
Definition py_del0 (l : pyval) : pyval :=
  match l with VList (_ :: xs) => VList xs | _ => VErr end.
Definition py_reversed (v : pyval) : pyval :=
  match seq_items v with Some l => VList (rev l) | None => VErr end.
Definition py_list_of (v : pyval) : pyval :=
  match v with VTuple l | VList l | VSet l => VList l | VDict kvs => VList (map fst kvs) | _ => VErr end.
Definition py_tuple_of (v : pyval) : pyval :=
  match v with VTuple l | VList l | VSet l => VTuple l | _ => VErr end.
Definition py_dict_values (v : pyval) : pyval :=
  match v with VDict kvs => VList (map snd kvs) | _ => VErr end.

(** [max(seq)], [min(seq)] of a non-empty sequence of ints (ValueError on the empty one) *)
Definition py_fold1 (f : Z -> Z -> Z) (v : pyval) : pyval :=
  match seq_items v with
  | Some (VInt x :: l) =>
      fold_left (fun acc y => match acc, y with VInt a, VInt b => VInt (f a b) | _, _ => VErr end) l (VInt x)
  | _ => VErr
  end.
Definition py_max1 := py_fold1 Z.max.
Definition py_min1 := py_fold1 Z.min.

(** [filter(f, seq)], [map(f, seq)] consumed at once *)
Fixpoint filter_go (f : pyval -> pyval) (l : list pyval) : option (list pyval) :=
  match l with
  | [] => Some []
  | x :: l' =>
      match py_truthy (f x), filter_go f l' with
      | Some true, Some r => Some (x :: r)
      | Some false, Some r => Some r
      | _, _ => None
      end
  end.
Definition py_filter (f : pyval -> pyval) (v : pyval) : pyval :=
  match seq_items v with
  | Some l => match filter_go f l with Some r => VList r | None => VErr end
  | None => VErr
  end.
Definition py_map (f : pyval -> pyval) (v : pyval) : pyval :=
  match seq_items v with Some l => py_list (map f l) | None => VErr end.

(** [sorted(seq)]: stable insertion sort with [<] (the only comparison [sorted] uses): an element is
    placed before the first element of the sorted rest that is not smaller than it *)
Fixpoint insert_go (x : pyval) (l : list pyval) : option (list pyval) :=
  match l with
  | [] => Some [x]
  | y :: l' =>
      match py_cmp y x with
      | Some Lt => match insert_go x l' with Some r => Some (y :: r) | None => None end
      | Some _ => Some (x :: l)
      | None => None
      end
  end.
Fixpoint sort_go (l : list pyval) : option (list pyval) :=
  match l with
  | [] => Some []
  | x :: l' => match sort_go l' with Some r => insert_go x r | None => None end
  end.
Definition py_sorted (v : pyval) : pyval :=
  match seq_items v with
  | Some l => match sort_go l with Some r => VList r | None => VErr end
  | None => VErr
  end.

(** [x in container] *)
Fixpoint mem_go (x : pyval) (l : list pyval) : option bool :=
  match l with
  | [] => Some false
  | y :: l' => match py_eqb y x with Some true => Some true | Some false => mem_go x l' | None => None end
  end.
(** set and dict displays: the elements / keys must be pairwise different hashable atoms (Python would silently
    drop duplicates; here a duplicate, or an element whose equality is not implemented, is refused) *)
Fixpoint distinct_go (l : list pyval) : bool :=
  match l with
  | [] => true
  | x :: l' => match mem_go x l' with Some false => distinct_go l' | _ => false end
  end.
Definition py_set (l : list pyval) : pyval := if all_ok l && distinct_go l then VSet l else VErr.
(** [set(x)], [frozenset(x)] of a set, or of a sequence of pairwise different hashable atoms *)
Definition py_set_of (v : pyval) : pyval :=
  match v with VSet l => VSet l | VTuple l | VList l => if distinct_go l then VSet l else VErr | _ => VErr end.
Definition py_dict (l : list (pyval * pyval)) : pyval :=
  if all_ok (map fst l) && all_ok (map snd l) && distinct_go (map fst l) then VDict l else VErr.
Definition py_in (x c : pyval) : pyval :=
  if py_ok x then
    match c with
    | VTuple l | VList l | VSet l => match mem_go x l with Some r => VBool r | None => VErr end
    | VDict kvs => match mem_go x (map fst kvs) with Some r => VBool r | None => VErr end
    | _ => VErr
    end
  else VErr.
Definition py_not_in (x c : pyval) : pyval :=
  match py_in x c with VBool r => VBool (negb r) | _ => VErr end.

(** [for x in seq: body]: the state is the tuple of the variables the body rebinds; a [return]
    ([VRet]) or an exception in the body ends the loop *)
Definition py_for (seq : pyval) (body : pyval -> pyval -> pyval) (init : pyval) : pyval :=
  match seq_items seq with
  | Some l => fold_left (fun st x => match st with VRet _ | VErr => st | _ => body x st end) l init
  | None => VErr
  end.

(** ** objects and enums *)
Definition py_field (v : pyval) (cls : string) (i : nat) : pyval :=
  match v with VObj c fs => if String.eqb c cls then nth_opt fs i else VErr | _ => VErr end.
Definition py_cls (v : pyval) : string := match v with VObj c _ => c | _ => "" end.
Definition py_enum_name (v : pyval) : pyval := match v with VEnum _ n _ => VStr n | _ => VErr end.
Definition py_enum_value (v : pyval) : pyval := match v with VEnum _ _ x => x | _ => VErr end.
(** [Cls(value)]: the member with that value (ValueError = VErr) *)
Fixpoint py_enum_of_value (members : list pyval) (x : pyval) : pyval :=
  match members with
  | [] => VErr
  | m :: ms =>
      match py_eqb (py_enum_value m) x with
      | Some true => m
      | Some false => py_enum_of_value ms x
      | None => VErr
      end
  end.

(** nesting depth: the fuel of the recursive groups the translator emits is a multiple of it *)
Fixpoint py_depth (v : pyval) : nat :=
  match v with
  | VTuple l | VList l | VSet l | VObj _ l => S (fold_right (fun x n => Nat.max (py_depth x) n) O l)
  | VDict kvs => S (fold_right (fun kv n => match kv with (k, x) => Nat.max (Nat.max (py_depth k) (py_depth x)) n end) O kvs)
  | VEnum _ _ x => S (py_depth x)
  | VRet x => S (py_depth x)
  | _ => O
  end.

(** [isinstance(v, C)] for a user-defined class C: [yes] = the tags of the classes of the translated world that are C or
    subclasses of it, [no] = those that are not; an object of any other class is refused *)
Definition py_isinstance (v : pyval) (yes no : list string) : pyval :=
  match v with
  | VObj c _ => if existsb (String.eqb c) yes then VBool true else if existsb (String.eqb c) no then VBool false else VErr
  | VNone | VBool _ | VInt _ | VStr _ | VTuple _ | VList _ | VSet _ | VDict _ => VBool false
  | _ => VErr
  end.
