(** Additional lemmas on texts and line sequences used by C05 (on top of Lib/TextLemmas.v). *)
From Coq Require Import ZArith NArith List Bool Lia.
From Exactly Require Import Lib.Text Lib.TextLemmas.
Import ListNotations.

Definition not_nl (c : char) : bool := negb (N.eqb c NL).
Definition no_nl (t : text) : bool := forallb not_nl t.
Definition line_ok (l : text) : Prop := is_full_line l = true \/ is_partial_line l = true.

Lemma text_eqb_sym : forall a b, text_eqb a b = text_eqb b a.
Proof.
  intros a b. apply eq_true_iff_eq. rewrite !text_eqb_eq. split; congruence.
Qed.

Lemma text_eqb_neq : forall a b, a <> b -> text_eqb a b = false.
Proof.
  intros a b H. destruct (text_eqb a b) eqn:E; [|reflexivity]. apply text_eqb_eq in E. contradiction.
Qed.

(** ** Shapes of lines *)
Lemma full_line_inv : forall l, is_full_line l = true -> exists body, l = body ++ [NL] /\ no_nl body = true.
Proof. intros l H. apply is_full_line_spec in H. exact H. Qed.

Lemma full_line_intro : forall body, no_nl body = true -> is_full_line (body ++ [NL]) = true.
Proof. intros body H. apply is_full_line_spec. exists body. split; [reflexivity | exact H]. Qed.

Lemma partial_line_no_nl : forall l, is_partial_line l = true -> l <> [] /\ no_nl l = true.
Proof. intros [|c l] H; [discriminate|]. split; [discriminate | exact H]. Qed.

Lemma partial_line_intro : forall l, l <> [] -> no_nl l = true -> is_partial_line l = true.
Proof. intros [|c l] H1 H2; [contradiction | exact H2]. Qed.

Lemma full_line_nonempty : forall l, is_full_line l = true -> l <> [].
Proof. intros [|c l] H; [discriminate | discriminate]. Qed.

Lemma line_ok_nonempty : forall l, line_ok l -> l <> [].
Proof. intros l [H|H]; [now apply full_line_nonempty | now apply partial_line_no_nl]. Qed.

Lemma no_nl_app : forall a b, no_nl (a ++ b) = no_nl a && no_nl b.
Proof. intros. apply forallb_app. Qed.

Lemma full_line_prepend : forall a l, no_nl a = true -> is_full_line l = true -> is_full_line (a ++ l) = true.
Proof.
  induction a as [|c a IH]; intros l Ha Hl; [exact Hl|].
  cbn in Ha. apply andb_true_iff in Ha as [Hc Ha]. cbn [app].
  apply is_full_line_cons; [now apply negb_true_iff in Hc | now apply IH].
Qed.

(** ** Well-formed line sequences *)
Lemma wf_lines_cons_inv : forall l ls, wf_lines (l :: ls) = true ->
  (ls = [] /\ line_ok l) \/ (ls <> [] /\ is_full_line l = true /\ wf_lines ls = true).
Proof.
  intros l [|l2 ls] H.
  - left. split; [reflexivity|]. cbn in H. apply orb_true_iff in H. exact H.
  - right. change (is_full_line l && wf_lines (l2 :: ls) = true) in H. apply andb_true_iff in H as [H1 H2].
    split; [discriminate | split; assumption].
Qed.

Lemma wf_lines_tail : forall l ls, wf_lines (l :: ls) = true -> wf_lines ls = true.
Proof. intros l ls H. apply wf_lines_cons_inv in H as [[-> _]|[_ [_ H]]]; [reflexivity | exact H]. Qed.

Lemma wf_lines_head_ok : forall l ls, wf_lines (l :: ls) = true -> line_ok l.
Proof. intros l ls H. apply wf_lines_cons_inv in H as [[_ H]|[_ [H _]]]; [exact H | now left]. Qed.

Lemma wf_lines_single : forall l, line_ok l -> wf_lines [l] = true.
Proof. intros l H. cbn. apply orb_true_iff. exact H. Qed.

Lemma wf_lines_Forall : forall ls, wf_lines ls = true -> Forall line_ok ls.
Proof.
  induction ls as [|l ls IH]; intros H; constructor.
  - eapply wf_lines_head_ok; exact H.
  - apply IH. eapply wf_lines_tail; exact H.
Qed.

Lemma wf_lines_app_inv : forall xs y ys, wf_lines (xs ++ y :: ys) = true ->
  Forall (fun l => is_full_line l = true) xs /\ wf_lines (y :: ys) = true.
Proof.
  induction xs as [|x xs IH]; intros y ys H; [split; [constructor | exact H]|].
  cbn [app] in H. apply wf_lines_cons_inv in H as [[E _]|[_ [H1 H2]]].
  - destruct xs; discriminate.
  - apply IH in H2 as [H2 H3]. split; [constructor; assumption | exact H3].
Qed.

Lemma wf_lines_app_full : forall xs ys, Forall (fun l => is_full_line l = true) xs -> wf_lines ys = true ->
  wf_lines (xs ++ ys) = true.
Proof.
  induction xs as [|x xs IH]; intros ys H1 H2; [exact H2|].
  inversion H1; subst. cbn [app]. apply wf_lines_cons_full; [assumption | now apply IH].
Qed.

Lemma lines_lf_app_fulls : forall ps t, Forall (fun l => is_full_line l = true) ps ->
  lines_lf (concat ps ++ t) = ps ++ lines_lf t.
Proof.
  induction ps as [|p ps IH]; intros t H; [reflexivity|].
  inversion H; subst. cbn [concat]. rewrite <- app_assoc. rewrite lines_lf_app_full by assumption.
  cbn [app]. f_equal. now apply IH.
Qed.

Lemma lines_lf_no_nl : forall t, no_nl t = true -> lines_lf t = match t with [] => [] | _ => [t] end.
Proof.
  intros [|c t] H; [reflexivity|]. apply lines_lf_partial. exact H.
Qed.

(** ** Lengths *)
Definition tlen' (t : text) : N := N.of_nat (length t).
Lemma tlen'_app : forall a b, tlen' (a ++ b) = (tlen' a + tlen' b)%N.
Proof. intros. unfold tlen'. rewrite app_length. lia. Qed.

(** ** Enumerations and boolean folds *)
Lemma forallb_ext_in : forall {A} (f g : A -> bool) l, (forall x, In x l -> f x = g x) -> forallb f l = forallb g l.
Proof.
  induction l as [|x l IH]; intros H; [reflexivity|]. cbn. rewrite H by (now left). f_equal. apply IH.
  intros y Hy. apply H. now right.
Qed.

Lemma existsb_ext_in : forall {A} (f g : A -> bool) l, (forall x, In x l -> f x = g x) -> existsb f l = existsb g l.
Proof.
  induction l as [|x l IH]; intros H; [reflexivity|]. cbn. rewrite H by (now left). f_equal. apply IH.
  intros y Hy. apply H. now right.
Qed.

Lemma filter_ext_in' : forall {A} (f g : A -> bool) l, (forall x, In x l -> f x = g x) -> filter f l = filter g l.
Proof.
  induction l as [|x l IH]; intros H; [reflexivity|]. cbn. rewrite H by (now left).
  rewrite IH; [reflexivity|]. intros y Hy. apply H. now right.
Qed.
