(** Shared text library (DESIGN.md section 5).  DEFINITIONS ONLY - the lemmas are in
    [Lib/TextLemmas.v].  Names and signatures in this file are stable (C05 and C14 import it).

    A character is a Unicode code point, a text is a list of characters.  The functions mirror
    what the Python runtime does with [str] values and text-mode files:

    - [lines_lf]            iterating a text file / [io.StringIO] (after newline translation):
                            split AFTER each ["\n"], the last fragment is kept iff non-empty;
    - [splitlines_keepends] [str.splitlines(True)]: line boundaries are
                            \n \r \r\n \x0b \x0c \x1c \x1d \x1e \x85 U+2028 U+2029;
    - [universal_nl]        reading a file opened in text mode with [newline=None]:
                            \r\n -> \n, lone \r -> \n;
    - [rstrip_nl]           [str.rstrip('\n')]: removes ALL trailing ["\n"]. *)
From Coq Require Import NArith List Bool.
Import ListNotations.
Local Open Scope N_scope.

Definition char := N.
Definition text := list char.

Definition NL : char := 10.
Definition CR : char := 13.

Definition char_eqb (a b : char) : bool := N.eqb a b.

Fixpoint text_eqb (a b : text) : bool :=
  match a, b with
  | [], [] => true
  | x :: a', y :: b' => N.eqb x y && text_eqb a' b'
  | _, _ => false
  end.

Fixpoint lines_eqb (a b : list text) : bool :=
  match a, b with
  | [], [] => true
  | x :: a', y :: b' => text_eqb x y && lines_eqb a' b'
  | _, _ => false
  end.

(** Prepend a character to the first line of a line list (a lone character if there is none). *)
Definition cons_to_first (c : char) (ls : list text) : list text :=
  match ls with
  | [] => [[c]]
  | l :: ls' => (c :: l) :: ls'
  end.

(** What iterating a Python text file yields. *)
Fixpoint lines_lf (t : text) : list text :=
  match t with
  | [] => []
  | c :: t' => if N.eqb c NL then [c] :: lines_lf t' else cons_to_first c (lines_lf t')
  end.

(** The line boundaries of [str.splitlines]. *)
Definition is_break (c : char) : bool :=
  N.eqb c 10 || N.eqb c 13 || N.eqb c 11 || N.eqb c 12 || N.eqb c 28 || N.eqb c 29 || N.eqb c 30 ||
  N.eqb c 133 || N.eqb c 8232 || N.eqb c 8233.

(** A boundary character other than ["\n"]. *)
Definition is_exotic_break (c : char) : bool := is_break c && negb (N.eqb c NL).

Definition head_is (c : char) (t : text) : bool :=
  match t with
  | x :: _ => N.eqb x c
  | [] => false
  end.

(** Python [str.splitlines(True)].  [\r\n] is ONE boundary: a [\r] directly followed by [\n] is
    glued to the line [[\n]] that the recursive call starts with. *)
Fixpoint splitlines_keepends (t : text) : list text :=
  match t with
  | [] => []
  | c :: t' =>
      if is_break c && negb (N.eqb c CR && head_is NL t')
      then [c] :: splitlines_keepends t'
      else cons_to_first c (splitlines_keepends t')
  end.

(** Text-mode read with universal newlines. *)
Fixpoint universal_nl (t : text) : text :=
  match t with
  | [] => []
  | c :: t' =>
      if N.eqb c CR
      then (if head_is NL t' then universal_nl t' else NL :: universal_nl t')
      else c :: universal_nl t'
  end.

(** [str.rstrip('\n')] *)
Fixpoint rstrip_nl (t : text) : text :=
  match t with
  | [] => []
  | c :: t' =>
      match rstrip_nl t' with
      | [] => if N.eqb c NL then [] else [c]
      | r => c :: r
      end
  end.

(** The guards used by C14 / C05. *)
Definition no_exotic_breaks (t : text) : bool := forallb (fun c => negb (is_exotic_break c)) t.
Definition no_cr (t : text) : bool := forallb (fun c => negb (N.eqb c CR)) t.

(** A line ends in ["\n"] and contains no other ["\n"]. *)
Fixpoint is_full_line (l : text) : bool :=
  match l with
  | [] => false
  | [c] => N.eqb c NL
  | c :: l' => negb (N.eqb c NL) && is_full_line l'
  end.

(** A non-empty line without any ["\n"] (the only shape allowed for an unterminated last line). *)
Definition is_partial_line (l : text) : bool :=
  match l with
  | [] => false
  | _ => forallb (fun c => negb (N.eqb c NL)) l
  end.

(** Well-formed line sequence: every line but possibly the last is a full line; the last is a
    full line or a non-empty line without newline. *)
Fixpoint wf_lines (ls : list text) : bool :=
  match ls with
  | [] => true
  | [l] => is_full_line l || is_partial_line l
  | l :: ls' => is_full_line l && wf_lines ls'
  end.
