(** Helpers used by the generated case files of the correspondence check. *)
From Coq Require Import List Bool Arith ZArith NArith.
Import ListNotations.

(** [(corr, prop)] per case: correspondence (model = implementation) and the property predicate
    evaluated on the implementation's observed behaviour. *)
Fixpoint bad_indices_from (i : nat) (sel : bool * bool -> bool) (l : list (bool * bool)) : list nat :=
  match l with
  | [] => []
  | v :: l' => (if sel v then [] else [i]) ++ bad_indices_from (S i) sel l'
  end.

Definition summary (l : list (bool * bool)) : nat * nat * list nat * list nat :=
  let c := bad_indices_from 0 fst l in
  let p := bad_indices_from 0 snd l in
  (length c, length p, c, p).

Fixpoint list_eqb {A} (eqb : A -> A -> bool) (l1 l2 : list A) : bool :=
  match l1, l2 with
  | [], [] => true
  | x :: l1', y :: l2' => eqb x y && list_eqb eqb l1' l2'
  | _, _ => false
  end.

Definition option_eqb {A} (eqb : A -> A -> bool) (x y : option A) : bool :=
  match x, y with
  | None, None => true
  | Some a, Some b => eqb a b
  | _, _ => false
  end.

Definition pair_eqb {A B} (ea : A -> A -> bool) (eb : B -> B -> bool) (x y : A * B) : bool :=
  ea (fst x) (fst y) && eb (snd x) (snd y).

Lemma list_eqb_eq {A} (eqb : A -> A -> bool) :
  (forall x y, eqb x y = true <-> x = y) -> forall l1 l2, list_eqb eqb l1 l2 = true <-> l1 = l2.
Proof.
  intros H. induction l1 as [|x l1 IH]; destruct l2 as [|y l2]; cbn; split; intros E; try reflexivity; try discriminate.
  - apply andb_true_iff in E as [E1 E2]. apply H in E1. apply IH in E2. congruence.
  - injection E as -> ->. apply andb_true_iff; split; [apply H | apply IH]; reflexivity.
Qed.
