(** File-system trees (DESIGN.md section 5): regular files, directories, symbolic links.

    A symbolic link carries the tree it resolves to ([None] = dangling).  The type is inductive,
    so symbolic-link cycles are outside of it (stated in notes/C15.md).

    This file: the type, a nested induction principle, association-list helpers for directory
    contents, and the handful of lemmas every user needs.  *)
From Coq Require Import NArith List Bool Arith Lia.
Import ListNotations.

(** A name is a string of code points; a path is a list of components. *)
Definition name := list N.
Definition path := list name.

Fixpoint name_eqb (a b : name) : bool :=
  match a, b with
  | [], [] => true
  | x :: a', y :: b' => N.eqb x y && name_eqb a' b'
  | _, _ => false
  end.

Fixpoint path_eqb (a b : path) : bool :=
  match a, b with
  | [], [] => true
  | x :: a', y :: b' => name_eqb x y && path_eqb a' b'
  | _, _ => false
  end.

Lemma name_eqb_eq : forall a b, name_eqb a b = true <-> a = b.
Proof.
  induction a as [|x a IH]; destruct b as [|y b]; cbn; split; intros H; try reflexivity; try discriminate.
  - apply andb_true_iff in H as [H1 H2]. apply N.eqb_eq in H1. apply IH in H2. congruence.
  - injection H as -> ->. apply andb_true_iff. split; [apply N.eqb_refl | apply IH; reflexivity].
Qed.

Lemma name_eqb_refl : forall a, name_eqb a a = true.
Proof. intros a. apply name_eqb_eq. reflexivity. Qed.

Lemma name_eqb_neq : forall a b, name_eqb a b = false <-> a <> b.
Proof.
  intros a b. split.
  - intros H E. apply name_eqb_eq in E. congruence.
  - intros H. destruct (name_eqb a b) eqn:E; [apply name_eqb_eq in E; contradiction | reflexivity].
Qed.

Lemma path_eqb_eq : forall a b, path_eqb a b = true <-> a = b.
Proof.
  induction a as [|x a IH]; destruct b as [|y b]; cbn; split; intros H; try reflexivity; try discriminate.
  - apply andb_true_iff in H as [H1 H2]. apply name_eqb_eq in H1. apply IH in H2. congruence.
  - injection H as -> ->. apply andb_true_iff. split; [apply name_eqb_refl | apply IH; reflexivity].
Qed.

Lemma path_eqb_refl : forall a, path_eqb a a = true.
Proof. intros a. apply path_eqb_eq. reflexivity. Qed.

Definition name_eq_dec (a b : name) : {a = b} + {a <> b}.
Proof. destruct (name_eqb a b) eqn:E; [left; apply name_eqb_eq; exact E | right; apply name_eqb_neq; exact E]. Defined.

(** * Trees *)
Inductive tree :=
| File (c : list N)                 (* regular file with its contents *)
| Dir (es : list (name * tree))     (* directory: entries in listing order *)
| Link (tgt : option tree).         (* symbolic link: what it resolves to *)

Definition dirc := list (name * tree).

Section TreeInd.
  Variable P : tree -> Prop.
  Hypothesis HFile : forall c, P (File c).
  Hypothesis HDir : forall es, Forall (fun p => P (snd p)) es -> P (Dir es).
  Hypothesis HLinkNone : P (Link None).
  Hypothesis HLinkSome : forall t, P t -> P (Link (Some t)).

  Fixpoint tree_ind' (t : tree) : P t :=
    match t with
    | File c => HFile c
    | Dir es =>
        HDir es ((fix go (es : dirc) : Forall (fun p => P (snd p)) es :=
                    match es with
                    | [] => Forall_nil _
                    | p :: es' => Forall_cons p (tree_ind' (snd p)) (go es')
                    end) es)
    | Link None => HLinkNone
    | Link (Some t') => HLinkSome t' (tree_ind' t')
    end.
End TreeInd.

(** Number of nodes, counted through links (bounds the work of any walk that follows links). *)
Fixpoint tsize (t : tree) : nat :=
  match t with
  | File _ => 1
  | Dir es => S ((fix go (es : dirc) : nat := match es with [] => 0 | p :: es' => tsize (snd p) + go es' end) es)
  | Link None => 1
  | Link (Some t') => S (tsize t')
  end.

Definition dsize (es : dirc) : nat := fold_right (fun p acc => tsize (snd p) + acc) 0 es.

Lemma tsize_Dir : forall es, tsize (Dir es) = S (dsize es).
Proof. intros es. reflexivity. Qed.

Lemma tsize_pos : forall t, 1 <= tsize t.
Proof. destruct t as [c|es|[t|]]; cbn; lia. Qed.

(** Following symbolic links to the first non-link ([None]: dangling). *)
Fixpoint resolve (t : tree) : option tree :=
  match t with
  | Link None => None
  | Link (Some t') => resolve t'
  | _ => Some t
  end.

Definition is_dir (t : tree) : bool := match resolve t with Some (Dir _) => true | _ => false end.
Definition is_file (t : tree) : bool := match resolve t with Some (File _) => true | _ => false end.
Definition is_symlink (t : tree) : bool := match t with Link _ => true | _ => false end.

(** The entries of a directory, or of the directory a link leads to; [[]] for anything else. *)
Definition children (t : tree) : dirc := match resolve t with Some (Dir es) => es | _ => [] end.

Lemma resolve_size : forall t r, resolve t = Some r -> tsize r <= tsize t.
Proof.
  induction t as [c|es _| |t IH] using tree_ind'; cbn [resolve]; intros r H.
  - injection H as <-. lia.
  - injection H as <-. lia.
  - discriminate.
  - apply IH in H. cbn [tsize]. lia.
Qed.

Lemma children_size : forall t, dsize (children t) < tsize t.
Proof.
  intros t. unfold children. destruct (resolve t) as [[c|es|l]|] eqn:E; cbn [dsize fold_right]; try (pose proof (tsize_pos t); lia).
  apply resolve_size in E. rewrite tsize_Dir in E. lia.
Qed.

(** * Directory contents as association lists (first binding wins; names are unique in trees
      that come from a file system) *)
Fixpoint lookup {A} (n : name) (es : list (name * A)) : option A :=
  match es with
  | [] => None
  | (k, v) :: es' => if name_eqb k n then Some v else lookup n es'
  end.

(** Replace the first binding of [n] (nothing happens if there is none). *)
Fixpoint update {A} (n : name) (v : A) (es : list (name * A)) : list (name * A) :=
  match es with
  | [] => []
  | (k, w) :: es' => if name_eqb k n then (k, v) :: es' else (k, w) :: update n v es'
  end.

Definition names {A} (es : list (name * A)) : list name := map fst es.

Lemma lookup_In : forall A n (es : list (name * A)) v, lookup n es = Some v -> In (n, v) es.
Proof.
  induction es as [|[k w] es IH]; cbn; intros v H; [discriminate|].
  destruct (name_eqb k n) eqn:E.
  - apply name_eqb_eq in E. injection H as ->. left. congruence.
  - right. apply IH. exact H.
Qed.

Lemma lookup_None : forall A n (es : list (name * A)), lookup n es = None <-> ~ In n (names es).
Proof.
  induction es as [|[k w] es IH]; cbn.
  - tauto.
  - destruct (name_eqb k n) eqn:E.
    + apply name_eqb_eq in E. split; [discriminate | intros H; exfalso; apply H; left; exact E].
    + apply name_eqb_neq in E. rewrite IH. tauto.
Qed.

Lemma lookup_size : forall n es t, lookup n es = Some t -> tsize t <= dsize es.
Proof.
  induction es as [|[k w] es IH]; cbn [lookup]; intros t H; [discriminate|].
  change (dsize ((k, w) :: es)) with (tsize w + dsize es).
  destruct (name_eqb k n); [injection H as ->; lia | apply IH in H; lia].
Qed.

(** Unique names in every directory, everywhere (also behind links). *)
Fixpoint wf_tree (t : tree) : Prop :=
  match t with
  | File _ => True
  | Dir es => NoDup (names es) /\ (fix go (es : dirc) : Prop := match es with [] => True | p :: es' => wf_tree (snd p) /\ go es' end) es
  | Link None => True
  | Link (Some t') => wf_tree t'
  end.

Definition wf_dirc (es : dirc) : Prop := Forall (fun p => wf_tree (snd p)) es.

Lemma wf_tree_Dir : forall es, wf_tree (Dir es) <-> NoDup (names es) /\ wf_dirc es.
Proof.
  intros es. cbn [wf_tree]. apply and_iff_compat_l. unfold wf_dirc.
  induction es as [|p es IH]; cbn.
  - split; [constructor | trivial].
  - rewrite IH. split; [intros [H1 H2]; constructor; assumption | intros H; inversion H; tauto].
Qed.

(** No symbolic link anywhere. *)
Fixpoint link_free (t : tree) : bool :=
  match t with
  | File _ => true
  | Dir es => (fix go (es : dirc) : bool := match es with [] => true | p :: es' => link_free (snd p) && go es' end) es
  | Link _ => false
  end.

Lemma link_free_Dir : forall es, link_free (Dir es) = forallb (fun p => link_free (snd p)) es.
Proof. intros es. cbn [link_free]. induction es as [|p es IH]; cbn; [reflexivity | rewrite IH; reflexivity]. Qed.
