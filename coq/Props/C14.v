(** temporary while the proofs are being extended to run/concat *)
From Coq Require Import NArith List Bool.
From Exactly Require Import Lib.Text Lib.TextLemmas Model.StrSrc Spec.C14.
Theorem C14_splitlines_is_file_iteration :
  forall t : text, no_exotic_breaks t = true -> splitlines_keepends t = lines_lf t.
Proof. exact splitlines_eq_lines_lf. Qed.
Print Assumptions C14_splitlines_is_file_iteration.
