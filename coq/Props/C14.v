(** Property C14 - a text has one value however it is consumed.  Theorem statements only.

    Vocabulary (Model/StrSrc.v, Spec/C14.v, Proofs/StrSrcViews.v):
    [src]       a string source expression together with the state of its Python objects;
    [den x]     the text the expression denotes (declarative: Spec/C14.v);
    [run b accs x]  the observations made by the access sequence [accs] (as_str, as_lines, as_file, write_to,
                may_depend_on_external_resources, freeze - in any order, any length) on [x] created
                with mem_buff_size [b];
    [obs_ok t o]  observation [o] shows exactly the text [t]: same characters, divided into lines
                after each "\n", file with exactly these characters, nothing raised;
    [fresh x]   newly created objects (nothing cached, not frozen);
    [leaves_ok x]  every literal / file / program output of the expression consists of Unicode scalar
                values and contains no [str.splitlines] boundary other than "\n" (no \r \v \f FS GS RS
                NEL LS PS);
    [lfs_ok x]  every line transformation in the expression maps well-formed sequences of such lines
                to well-formed sequences of such lines, every external program (program sources with
                their stdin parts, [run]) maps such texts to such texts and prints the same at every run, every concat has at least one part. *)
From Coq Require Import NArith List Bool.
From Exactly Require Import Lib.Text Lib.TextLemmas Model.StrSrc Spec.C14 Proofs.Utf8 Proofs.StrSrcSpool Proofs.StrSrcViews
  Proofs.StrSrcMatch Proofs.StrSrcStrip.
Import ListNotations.
Local Open Scope N_scope.

(** Iterating a text file and [str.splitlines(True)] divide a text into the same lines when the
    text contains no line boundary of [str.splitlines] other than "\n". *)
Theorem C14_splitlines_is_file_iteration :
  forall t : text, no_exotic_breaks t = true -> splitlines_keepends t = lines_lf t.
Proof. exact splitlines_eq_lines_lf. Qed.
Print Assumptions C14_splitlines_is_file_iteration.

(** The lines of a text concatenate to the text; every line but possibly the last ends in "\n"
    and contains no other "\n"; and a well-formed line sequence is the line sequence of its
    concatenation. *)
Theorem C14_lines_of_text :
  forall t : text, concat (lines_lf t) = t /\ wf_lines (lines_lf t) = true /\
                   (forall ls, wf_lines ls = true -> lines_lf (concat ls) = ls).
Proof. intros t. split; [apply concat_lines_lf | split; [apply wf_lines_lines_lf | exact lines_lf_concat]]. Qed.
Print Assumptions C14_lines_of_text.

(** The spooled file (memory buffer of ANY size [b], rolled over to disk when exceeded) keeps
    exactly what is written to it line by line - all characters, also non-ASCII ones. *)
Theorem C14_spool_keeps_text :
  forall (b : N) (ls : list text) (d : text),
    spool_lines b (SpMem d) ls = SpMem (d ++ concat ls) \/
    spool_lines b (SpMem d) ls = SpDisk (utf8 (d ++ concat ls)) (length (utf8 (d ++ concat ls))).
Proof. exact spool_lines_complete. Qed.
Print Assumptions C14_spool_keeps_text.

Theorem C14_utf8_roundtrip : forall t : text, valid_text t = true -> utf8_decode (utf8 t) = Some t.
Proof. exact utf8_roundtrip. Qed.
Print Assumptions C14_utf8_roundtrip.

(** The line iterator of [replace] is the division into lines of the substituted text, whatever the
    substitution does to the single lines: remove their new-lines, insert new-lines, anything. *)
Theorem C14_replace_lines_are_the_lines_of_the_text :
  forall (sub : text -> text) (ls : list text), lf_replace sub ls = lines_lf (concat (map sub ls)).
Proof. exact lf_replace_spec. Qed.
Print Assumptions C14_replace_lines_are_the_lines_of_the_text.

(** The three [strip] transformers (strip, strip -trailing-space, strip -trailing-new-lines) are admitted line
    transformations: the hypothesis [atom_ok (TStrip v)] of the partial theorems below holds for every variant, so these
    theorems apply to every chain containing them. *)
Theorem C14_strip_admissible : forall v : strip_variant, atom_ok (TStrip v).
Proof. exact lf_ok_strip_of. Qed.
Print Assumptions C14_strip_admissible.

(** The lines handed out by a [strip] transformer are the lines of the stripped text - no empty element, joined = the
    text - for every admitted text (also texts of only new-lines or blanks: the statement seeded change C14-m13 violated). *)
Theorem C14_strip_lines_are_the_lines_of_the_text :
  forall (v : strip_variant) (t : text), text_ok t = true ->
    lf_strip_of v (lines_lf t) = lines_lf (concat (lf_strip_of v (lines_lf t))) /\
    ~ In [] (lf_strip_of v (lines_lf t)).
Proof. exact strip_lines_are_lines. Qed.
Print Assumptions C14_strip_lines_are_the_lines_of_the_text.

Example C14_strip_of_all_newline_texts :
  map (fun v => map (fun t => lf_strip_of v (lines_lf t)) [[10]; [10; 10]; [10; 10; 10]; [32; 10; 10]])
      [StripBoth; StripTrailingSpace; StripTrailingNewLines]
  = [[[]; []; []; []]; [[]; []; []; []]; [[]; []; []; [[32]]]].
Proof. vm_compute. reflexivity. Qed.

(** MAIN THEOREM (partial: under the guard [leaves_ok]; without it the statement is refuted below -
    known findings KF-C14-1, KF-C14-2).
    For every source expression (literal, file, program output captured from stdout or stderr with any
    number of stdin parts, any nesting of line transformers, filters, [run], concatenations of any
    number of parts of any kinds), every memory buffer size from 0 upwards, every sequence of accesses of any
    length in any order before and after freezing: every observation shows exactly the text the
    expression denotes. *)
Theorem C14_views_agree_partial :
  forall (x : src) (b : N) (accs : list access),
    fresh x -> leaves_ok x = true -> lfs_ok x ->
    forallb (obs_ok (den x)) (fst (run b accs x)) = true.
Proof. exact views_agree. Qed.
Print Assumptions C14_views_agree_partial.

(** The memory buffer size is irrelevant: the same access sequence on the same expression gives the same
    observations for any two buffer sizes (the dependency hint, which is not part of the text, aside). *)
Theorem C14_buffer_size_irrelevant_partial :
  forall (x : src) (accs : list access) (b1 b2 : N),
    fresh x -> leaves_ok x = true -> lfs_ok x ->
    map strip_dep (fst (run b1 accs x)) = map strip_dep (fst (run b2 accs x)).
Proof. exact buffer_size_irrelevant. Qed.
Print Assumptions C14_buffer_size_irrelevant_partial.

(** concat._lines_iter for ANY number of parts: the lines it yields for well-formed parts are the lines of
    the concatenated text. *)
Theorem C14_concat_lines_any_number_of_parts :
  forall ts : list text, ts <> [] -> concat_lines_n (map lines_lf ts) = Some (lines_lf (concat ts)).
Proof. exact concat_lines_n_ok. Qed.
Print Assumptions C14_concat_lines_any_number_of_parts.

(** The same for the expressions of the modelled surface language, SOURCE [-transformed-by T] with
    T built from identity, char-case, filter (any line predicate), replace (any substitution), run PROGRAM and sequences: the
    hypotheses about line transformers are discharged; what remains is the guard on the texts and
    on the external programs and substitutions ([otrans_ok]: each maps admitted texts to admitted texts). *)
Theorem C14_views_agree_language_partial :
  forall (base : src) (t : option trans) (b : N) (accs : list access),
    fresh base -> lfs_ok base -> leaves_ok base = true -> otrans_ok t ->
    forallb (obs_ok (den (build base t))) (fst (run b accs (build base t))) = true.
Proof.
  intros base t b accs F0 K0 L A. destruct (build_guard base t A F0 K0) as [F [G E]].
  apply views_agree; [exact F | now rewrite E | exact G].
Qed.
Print Assumptions C14_views_agree_language_partial.

(** REFUTED without the guard (faithful model of the unchanged code; both replayed on the real
    program, DESIGN.md Appendix A7/A8):
    (1) file "a\x0cb\n" through a filter: one line before freezing, two lines after (str.splitlines);
    (2) file "a\r\nb\r\n": as_str shows "a\nb\n" while the file holds "a\r\nb\r\n". *)
Theorem C14_views_agree_refuted :
  (exists (x : src) (b : N) (accs : list access),
      fresh x /\ lfs_ok x /\ no_cr (den x) = true /\ forallb (obs_ok (den x)) (fst (run b accs x)) = false) /\
  (exists (x : src) (b : N) (accs : list access),
      fresh x /\ lfs_ok x /\ forallb (fun c => negb (is_exotic_break c && negb (N.eqb c CR))) (den x) = true /\
      forallb (obs_ok (den x)) (fst (run b accs x)) = false).
Proof.
  split.
  - exists (SFilter (lf_filter (p_has 97)) cs0 (SFile [97; 12; 98; 10])), 8192, [ALines; AFreeze; ALines].
    split; [cbn; auto|]. split; [cbn; split; [apply lf_ok_filter | exact I]|]. split; vm_compute; reflexivity.
  - exists (SFile [97; 13; 10; 98; 13; 10]), 8192, [AStr; AFile].
    split; [exact I|]. split; [exact I|]. split; vm_compute; reflexivity.
Qed.
Print Assumptions C14_views_agree_refuted.

(** Writing several parts to one file as it was BEFORE the repair (commit 527f9c3, found by this
    check; regression input harness/corpus/C14/concat_program_part_d.case): a literal part followed by
    a part written by a child process through the descriptor ended up in the opposite order. *)
Theorem C14_prefix_concat_file_refuted :
  exists evs : list wev, file_of_events_prefix evs <> text_of evs /\ file_of_events evs = text_of evs.
Proof. exists [WStr [88]; WFd [97; 10; 98; 10]]. split; [vm_compute; discriminate | reflexivity]. Qed.
Print Assumptions C14_prefix_concat_file_refuted.

(** The rollover of the spooled file as it was BEFORE the repair (commit 9d1b36a, found by this
    check): with a non-ASCII character in the memory buffer the lines written after the rollover
    overwrite the tail of what was written before. *)
Theorem C14_prefix_spool_keeps_text_refuted :
  exists (b : N) (ls : list text),
    spool_lines_prefix b (SpMem []) ls <> SpMem (concat ls) /\
    forall pos, spool_lines_prefix b (SpMem []) ls <> SpDisk (utf8 (concat ls)) pos.
Proof.
  exists 1, [[8364; 97; 10]; [98; 10]]. split; [vm_compute; discriminate|].
  intros pos. vm_compute. intros H. discriminate H.
Qed.
Print Assumptions C14_prefix_spool_keeps_text_refuted.

(** CONSEQUENCES (partial: same guard, also on the expected operands of [equals] - [matcher_ok]).
    [m_eval b extra m x]: the verdict the matcher [m] (num-lines, is-empty, equals SOURCE with its four
    comparison strategies incl. filecmp, !, &&, || - which freeze the model -, -transformed-by T) gives
    on the source [x]; [sem_m m t]: the declarative meaning of [m] on the TEXT [t]. *)
Theorem C14_verdict_depends_only_on_text_partial :
  forall (m : smatcher) (x : src) (b extra : N),
    fresh x -> leaves_ok x = true -> lfs_ok x -> matcher_ok m ->
    fst (m_eval b extra m x) = Some (sem_m m (den x)).
Proof. exact verdict_is_semantic. Qed.
Print Assumptions C14_verdict_depends_only_on_text_partial.

(** M, ( M && M ), ( M || M ) and M with the operand wrapped in [identity] give one verdict. *)
Theorem C14_identity_and_conj_idempotent_partial :
  forall (m : smatcher) (x : src) (b extra : N),
    fresh x -> leaves_ok x = true -> lfs_ok x -> matcher_ok m ->
    map (fun m' => fst (m_eval b extra m' x)) [m; MConj m m; MDisj m m; MOnTrans (TAtom TId) m]
    = [Some (sem_m m (den x)); Some (sem_m m (den x)); Some (sem_m m (den x)); Some (sem_m m (den x))].
Proof. intros m x b extra F L K Hm. exact (variants_agree m x b extra F L K Hm). Qed.
Print Assumptions C14_identity_and_conj_idempotent_partial.

(** [equals]: expected text [te] and actual text [ta] (optionally transformed) each coming from a
    literal, a file or a program's output - all 9 combinations give the verdict "the texts are equal". *)
Theorem C14_source_kind_irrelevant_partial :
  forall (pk : pkind) (sin : bool) (te ta : text) (tr : option trans) (b extra : N),
    text_ok te = true -> text_ok ta = true -> otrans_ok tr ->
    forall v, In v (kind_verdicts pk sin b extra te ta tr) -> v = Some (text_eqb te (den (build (SStr ta) tr))).
Proof. exact kinds_agree. Qed.
Print Assumptions C14_source_kind_irrelevant_partial.

(** Chains of transformers nested in chains (parenthesised sub-chains, the transformation of a program followed by
    the one given at its reference, the transformation of the program of [run]): a tree of chains applies its
    non-identity atoms in order, and inserting [identity] at any position of any chain of the tree changes
    nothing - for every source, without any guard. *)
Theorem C14_nested_chain_is_flat :
  forall (c : tchain) (x : src),
    chain_transform c x = fold_left (fun m a => transform_atom a m) (chain_atoms c) x.
Proof. exact chain_transform_atoms. Qed.
Print Assumptions C14_nested_chain_is_flat.

Theorem C14_identity_in_chain_irrelevant :
  forall (l1 l2 : list tchain) (x : src),
    chain_transform (CSeq (l1 ++ CAtom TId :: l2)) x = chain_transform (CSeq (l1 ++ l2)) x.
Proof. exact chain_transform_insert_identity. Qed.
Print Assumptions C14_identity_in_chain_irrelevant.

(** REFUTED without the guard (both replayed on the real program, DESIGN.md Appendix A7 / A8):
    (1) "a\x0cb\n" through a filter: [num-lines == 1] passes, [( num-lines == 1 && num-lines == 1 )] fails;
    (2) CR LF files: [equals -contents-of F2] passes on F1, fails when F1 is wrapped in [identity]. *)
Theorem C14_identity_and_conj_idempotent_refuted :
  (exists (m : smatcher) (x : src) (b extra : N),
      fresh x /\ lfs_ok x /\ matcher_ok m /\
      fst (m_eval b extra m x) = Some true /\ fst (m_eval b extra (MConj m m) x) = Some false) /\
  (exists (e x : src) (b extra : N),
      fresh x /\ lfs_ok x /\ fresh e /\ lfs_ok e /\
      fst (m_eval b extra (MEquals e) x) = Some true /\
      fst (m_eval b extra (MOnTrans (TAtom TId) (MEquals e)) x) = Some false).
Proof.
  split.
  - exists (MNumLines CEq 1), (SFilter (lf_filter (p_has 97)) cs0 (SFile [97; 12; 98; 10])), 8192, 100.
    split; [cbn; auto|]. split; [cbn; split; [apply lf_ok_filter | exact I]|]. split; [exact I|].
    split; vm_compute; reflexivity.
  - exists (SFile [97; 13; 10; 98; 13; 10]), (SFile [97; 13; 10; 98; 13; 10]), 8192, 100.
    split; [exact I|]. split; [exact I|]. split; [exact I|]. split; [exact I|]. split; vm_compute; reflexivity.
Qed.
Print Assumptions C14_identity_and_conj_idempotent_refuted.

(** Non-vacuity: a source with a transformer chain, a non-ASCII multi-line text without final
    newline, a buffer smaller than the text, accesses before and after freezing - satisfies the
    hypotheses of the main theorem, rolls over to disk, and shows one value. *)
Example C14_example :
  let x := build (SProg PFile (det (g_prefix [8364; 97; 10])) cs0 [SStr [10; 98; 99]]) (Some (TSeq [TId; TReplace (subst [97; 10] [97]); TFilter (p_num_ge 1); TRun g_cat; TUpper])) in
  leaves_ok x = true /\ den x = [8364; 65; 10; 66; 67] /\
  fst (run 2 [AFile; AFreeze; ADep; AWrite; ALines; AStr; AFile] x)
  = [OFile (FText [8364; 65; 10; 66; 67]); OFrozen; ODep true; OWritten (FText [8364; 65; 10; 66; 67]); OLines [[8364; 65; 10]; [66; 67]];
     OStr [8364; 65; 10; 66; 67]; OFile (FText [8364; 65; 10; 66; 67])].
Proof. cbv zeta. split; [vm_compute; reflexivity|]. split; vm_compute; reflexivity. Qed.

(** Non-vacuity of the consequences: a matcher using every construct, expected text from a program,
    model from a file through a transformer chain, small buffer. *)
Example C14_example_verdicts :
  let x := build (SFile [97; 10; 98; 10; 99]) (Some (TAtom (TFilter (p_num_ne 2)))) in
  let m := MConj (MNeg MEmpty) (MDisj (MNumLines CGe 3) (MOnTrans (TSeq [TUpper; TId]) (MEquals (SConcat cs0 [SFile [65]; SStr []; SProg PFd (det g_cat) cs0 [SStr [10]; SFile [67]]])))) in
  leaves_ok x = true /\
  map (fun m' => fst (m_eval 1 100 m' x)) (variants m) = [Some true; Some true; Some true; Some true] /\
  kind_verdicts PFile true 2 100 [97; 10; 98] [97; 10; 98] (Some (TAtom TId)) = repeat (Some true) 9.
Proof. cbv zeta. split; [vm_compute; reflexivity|]. split; vm_compute; reflexivity. Qed.
