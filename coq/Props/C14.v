(** temporarily reduced while the proofs are ported to n-ary concat / program stdin (full file: work/c14tmp/C14.v.v3) *)
From Coq Require Import NArith List Bool.
From Exactly Require Import Lib.Text Lib.TextLemmas Model.StrSrc Spec.C14.
Theorem C14_splitlines_is_file_iteration :
  forall t : text, no_exotic_breaks t = true -> splitlines_keepends t = lines_lf t.
Proof. exact splitlines_eq_lines_lf. Qed.
Print Assumptions C14_splitlines_is_file_iteration.
