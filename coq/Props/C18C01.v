(** C18 o C01 - the exception-routing model and the executor model agree.  Statements only.
    [route], [site], [exc], [subclass] : Model/Errors.v; [full_execute] : Model/Exec.v;
    [single_fault tc p k idx b] (the only non-OK behaviour of [tc] is [b] at step [k] of instruction
    [idx] of phase [p]), [executed] (that step is reached when nothing before it fails), [site_of],
    [raise_beh] (the translation "raises [e]" -> Exec's behaviours, by class only), [one_fault] :
    Proofs/ComposeC18.v. *)
From Coq Require Import ZArith List Bool Arith.
From Exactly Require Import Lib.Harness Model.Outcome Model.Exec Model.Errors Spec.C01 Proofs.ComposeLib Proofs.ComposeC18.
Import ListNotations.

(** The executor on a test case with a single fault: that step is the reported failure; the verdict
    is its kind - directly for a [conf] instruction, through [translate_status] otherwise. *)
Theorem C18C01_single_fault_result : forall tc p k idx b st,
  single_fault tc p k idx b -> outcome b = Some st -> executed tc p k = true ->
  fr_failure (snd (full_execute tc)) = Some (Failure p k idx st) /\
  fr_status (snd (full_execute tc)) =
    (if pk_eqb (p, k) (Conf, SMain) then full_of_fail st else translate_status (tc_status tc) (Some st)).
Proof. exact single_fault_result. Qed.
Print Assumptions C18C01_single_fault_result.

(** For every executor step that is reached, every exception class below [Exception] (at the act
    sites: other than the internal PhaseStepFailureException), every test-case status and every
    shape of the rest of the test case: what [route] reports is the verdict of [full_execute], and
    the executor locates the failure at that step. *)
Theorem C18C01_route_is_executor : forall tc p k idx (e : exc),
  subclass (e_cls e) EException = true ->
  (is_act_site (site_of p k) = true -> subclass (e_cls e) EPhaseStepFailure = false) ->
  single_fault tc p k idx (raise_beh (site_of p k) e) -> executed tc p k = true ->
  route (tc_status tc) (site_of p k) e = Ret (RExecuted (fr_status (snd (full_execute tc)))) /\
  exists st, outcome (raise_beh (site_of p k) e) = Some st /\
             fr_failure (snd (full_execute tc)) = Some (Failure p k idx st).
Proof. exact route_is_executor. Qed.
Print Assumptions C18C01_route_is_executor.

(** HardErrorException -> HARD_ERROR, anything else -> INTERNAL_ERROR, at that step, in both models,
    whatever the status (FAIL does not turn it into XFAIL). *)
Theorem C18C01_raising_step_verdict : forall tc p k idx (e : exc),
  subclass (e_cls e) EException = true -> subclass (e_cls e) EPhaseStepFailure = false ->
  subclass (e_cls e) EActorParseException = false ->
  single_fault tc p k idx (raise_beh (site_of p k) e) -> executed tc p k = true ->
  let st := if subclass (e_cls e) EHardError then FHard else FInternal in
  route (tc_status tc) (site_of p k) e = Ret (RExecuted (full_of_fail st)) /\
  fr_status (snd (full_execute tc)) = full_of_fail st /\
  fr_failure (snd (full_execute tc)) = Some (Failure p k idx st).
Proof. exact raising_step_verdict. Qed.
Print Assumptions C18C01_raising_step_verdict.

(** single-fault test cases of every shape exist *)
Theorem C18C01_one_fault_is_single_fault : forall n p k idx b mode ao,
  (if phase_eqb Exec.Act p then idx = 0 else idx < n) -> single_fault (one_fault n p k idx b mode ao) p k idx b.
Proof. exact one_fault_single. Qed.
Print Assumptions C18C01_one_fault_is_single_fault.

(** REFUTED without the exclusion at the act sites: C18's chain re-raises a PhaseStepFailureException
    raised by an act step (the status it carries is reported: here FAIL); Exec's "raises any other
    exception" is INTERNAL_ERROR. *)
Theorem C18C01_route_is_executor_for_phase_step_failure_refuted :
  exists tc (e : exc),
    subclass (e_cls e) EException = true /\
    single_fault tc Exec.Act SExecute 0 (raise_beh (site_of Exec.Act SExecute) e) /\ executed tc Exec.Act SExecute = true /\
    route (tc_status tc) (site_of Exec.Act SExecute) e = Ret (RExecuted FAIL) /\
    fr_status (snd (full_execute tc)) = INTERNAL_ERROR.
Proof. exact route_is_executor_for_phase_step_failure_refuted. Qed.
Print Assumptions C18C01_route_is_executor_for_phase_step_failure_refuted.
