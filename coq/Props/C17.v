(** Property C17 — cases are independent; suite contents apply alike standalone and in a suite
    run.  Theorem statements only.

    PARTIAL as a whole: the theorems are about the model of the bookkeeping (what is shared, what is
    copied, what is restored, what a suite adds to a case).  That the 74 kLOC contain no OTHER state
    that survives a case (module-level caches and the like) is not a theorem: it is established by
    the differential runs of the harness only. *)
From Coq Require Import ZArith NArith List Bool Arith.
From Exactly Require Import Lib.Harness Model.Outcome Model.Exec Model.World Model.Suite Model.Cases
  Spec.C01 Spec.C17 Proofs.CasesMerge Proofs.CasesIsolation.
Import ListNotations.

(** ** Suite contents *)

(** The test case that is executed under suite contents [s] has, in every phase, the suite's
    instructions before the case's own — except in cleanup, where they come after. *)
Theorem C17_merge_order : forall (I : Type) (s tc : casedoc I) p,
  phase_of (merge s tc) p = match p with
                            | Cleanup => phase_of tc p ++ phase_of s p
                            | _ => phase_of s p ++ phase_of tc p
                            end.
Proof. exact (@merge_is_spec). Qed.
Print Assumptions C17_merge_order.

(** Composed with the plan of the phased executor (C01: the trace of every execution is a prefix of
    this plan followed by the cleanup plan): in every step of the phases conf, setup, before-assert,
    assert the suite's instructions are scheduled first, the case's own after them; in the steps of
    cleanup the case's own first. *)
Theorem C17_suite_instrs_first_except_cleanup :
  forall (I : Type) (beh_of : I -> instr) status_of atc act_only (s c : casedoc I),
  let tc := to_testcase beh_of status_of atc act_only (merge s c) in
  (forall p k, (p = Conf \/ p = Setup \/ p = BeforeAssert \/ p = Assert) ->
     sched_step tc (p, k) = sched_list p k None 0 (map beh_of (phase_of s p)) ++
                            sched_list p k None (length (phase_of s p)) (map beh_of (phase_of c p))) /\
  (forall k, sched_step tc (Cleanup, k) = sched_list Cleanup k None 0 (map beh_of (d_cleanup c)) ++
                                          sched_list Cleanup k None (length (d_cleanup c)) (map beh_of (d_cleanup s))) /\
  (forall prev, sched_cleanup tc prev =
     (ECleanupBegin prev, None) :: sched_list Cleanup SMain (Some prev) 0 (map beh_of (d_cleanup c)) ++
                                   sched_list Cleanup SMain (Some prev) (length (d_cleanup c)) (map beh_of (d_cleanup s))).
Proof. exact (@suite_instrs_first_except_cleanup). Qed.
Print Assumptions C17_suite_instrs_first_except_cleanup.

(** A case listed in suite file [s] — at whatever depth of the hierarchy [s] is included — is handled
    with the setup resolved from [s] alone; running it alone with [--suite s], or alone when [s] is
    the [exactly.suite] beside it, resolves the same setup, so that the executor is given the same
    test case and the same default actor. *)
Theorem C17_standalone_equals_in_suite :
  forall (I : Type) (files : fname -> suite_state I) default source h s c hs,
  In (s, c, hs) (case_runs files default h) ->
  (forall beside, standalone_handling files default (Some s) beside = hs) /\
  standalone_handling files default None (Some s) = hs /\
  (forall hs', hs = Some hs' ->
     forall beside, option_map (fun x => executor_input source x c) (standalone_handling files default (Some s) beside)
                    = Some (executor_input source hs' c)).
Proof. exact (@standalone_equals_in_suite). Qed.
Print Assumptions C17_standalone_equals_in_suite.

(** Nothing is inherited from an including suite: the setup for the cases of [s] is that of [s]'s
    own file, and every instruction of an executed case of [s] comes from [s] or from the case. *)
Theorem C17_not_inherited_by_sub_suites :
  forall (I : Type) (files : fname -> suite_state I) default source h s c hs r,
  hs_transformer default = [] ->
  In (s, c, hs) (case_runs files default h) ->
  files s = SSGood r ->
  hs = Some (resolve_handling (parse_suite r) default) /\
  forall doc p i,
    accessor source (resolve_handling (parse_suite r) default) c = inr doc ->
    In i (phase_of doc p) ->
    In i (phase_of (sd_case_phases (parse_suite r)) p) \/
    exists own, source (hs_preproc (resolve_handling (parse_suite r) default)) c = inr own /\ In i (phase_of own p).
Proof. exact (@not_inherited_by_sub_suites). Qed.
Print Assumptions C17_not_inherited_by_sub_suites.

(** The cases processed with these setups are exactly the cases of C16, in the same order. *)
Theorem C17_case_runs_are_the_processed_cases :
  forall (I : Type) (files : fname -> suite_state I) default h, map fst (case_runs files default h) = processed h.
Proof. exact (@case_runs_processed). Qed.
Print Assumptions C17_case_runs_are_the_processed_cases.

(** ** Independence of cases *)

(** With a copy on every path from the shared configuration to what instructions are handed (the
    code has two on each: [_exe_conf_that_may_be_updated], and [_PartialExecutor.__init__] /
    [SymbolsValidator] / [_setup_post_sds_environment]), a case — ANY function of what it can see,
    doing ANY sequence of mutations through what it is handed — changes no dictionary and no symbol
    table that existed before it started; in particular not the shared ones. *)
Theorem C17_config_isolated : forall (R : Type) pol keep ec (sem : case_sem R) cw st,
  env_policy_ok pol = true -> sym_policy_ok pol = true ->
  let '(cw', st', o) := run_case pol keep ec sem (cw, st) in
  length (s_envs st) <= length (s_envs st') /\ length (s_syms st) <= length (s_syms st') /\
  (forall r, r < length (s_envs st) -> get_env st' r = get_env st r) /\
  (forall r, r < length (s_syms st) -> get_sym st' r = get_sym st r).
Proof. exact (@config_isolated). Qed.
Print Assumptions C17_config_isolated.

(** It rests on those copies: under EVERY policy that leaves one path without a copy, one fixed
    test case changes the shared environment dictionary or the shared predefined symbols ... *)
Theorem C17_isolation_needs_the_copies : forall pol,
  env_policy_ok pol && sym_policy_ok pol = false ->
  let '(_, st', _) := run_case pol false shared_conf meddling_case (start_world, start_store) in
  get_env st' 0 <> get_env start_store 0 \/ get_sym st' 0 <> get_sym start_store 0.
Proof. exact isolation_needs_the_copies. Qed.
Print Assumptions C17_isolation_needs_the_copies.

(** ... so the isolation lemma is false for the variant of the executor without the copies. *)
Theorem C17_config_isolated_without_copies_refuted :
  exists (ec : exe_conf) (sem : case_sem nat) cw st,
    let '(_, st', _) := run_case no_copy_policy false ec sem (cw, st) in
    ~ (length (s_envs st) <= length (s_envs st') /\ length (s_syms st) <= length (s_syms st') /\
       (forall r, r < length (s_envs st) -> get_env st' r = get_env st r) /\
       (forall r, r < length (s_syms st) -> get_sym st' r = get_sym st r)).
Proof. exact config_isolated_without_copies_refuted. Qed.
Print Assumptions C17_config_isolated_without_copies_refuted.

(** After a case that is not kept, whatever it did and however it ended: current directory,
    process environment, existing sandboxes and their files are what they were (given that the
    default environment getter hands out a copy of os.environ). *)
Theorem C17_world_restored : forall (R : Type) pol ec (sem : case_sem R) cw st,
  p_getter pol = true -> cw_ok cw ->
  let '(cw', st', o) := run_case pol false ec sem (cw, st) in
  w_cwd (cw_w cw') = w_cwd (cw_w cw) /\ w_environ (cw_w cw') = w_environ (cw_w cw) /\
  w_roots (cw_w cw') = w_roots (cw_w cw) /\ cw_files cw' = cw_files cw /\
  w_next (cw_w cw) <= w_next (cw_w cw') /\ cw_ok cw'.
Proof. exact (@world_restored). Qed.
Print Assumptions C17_world_restored.

(** A case run on the shared store, among others, observes / does / results in exactly what the
    reference semantics [spec_case] (no store, no sharing: private values) says. *)
Theorem C17_case_behaves_as_if_alone : forall (R : Type) keep ec (sem : case_sem R) cw st,
  store_wf st ec -> cw_ok cw ->
  snd (run_case real_policy keep ec sem (cw, st)) = spec_obs ec (cw, st) sem.
Proof. exact (@case_behaves_as_if_alone). Qed.
Print Assumptions C17_case_behaves_as_if_alone.

(** In a run of ANY list of cases every case behaves as the reference semantics says of it in the
    state the program was started in: nothing carries over.
    PARTIAL: proved for the state the model contains (environment dictionary, predefined symbols,
    timeout, os.environ, cwd, sandboxes and their files, all reached through the handles of
    processors.py / executor.py).  That exactly_lib keeps no OTHER state across cases is not proved;
    experiments 2 and 3 of the harness look for such state on every run. *)
Theorem C17_every_case_as_if_first_partial : forall (R : Type) ec (cases : list (case_sem R)) cw st,
  store_wf st ec -> cw_ok cw ->
  snd (run_cases real_policy false ec cases (cw, st)) = map (spec_obs ec (cw, st)) cases.
Proof. exact (@every_case_as_if_first). Qed.
Print Assumptions C17_every_case_as_if_first_partial.

(** (PARTIAL in the same sense.) *)
Theorem C17_outcome_independent_of_predecessors_partial : forall (R : Type) ec (pre : list (case_sem R)) c post cw st,
  store_wf st ec -> cw_ok cw ->
  nth_error (snd (run_cases real_policy false ec (pre ++ c :: post) (cw, st))) (length pre) =
  nth_error (snd (run_cases real_policy false ec [c] (cw, st))) 0.
Proof. exact (@outcome_independent_of_predecessors). Qed.
Print Assumptions C17_outcome_independent_of_predecessors_partial.

Theorem C17_run_leaves_no_trace : forall (R : Type) ec (cases : list (case_sem R)) cw st,
  store_wf st ec -> cw_ok cw ->
  let '(cw', st', _) := run_cases real_policy false ec cases (cw, st) in
  same_pristine ec (cw, st) (cw', st') /\ w_roots (cw_w cw') = w_roots (cw_w cw) /\ cw_files cw' = cw_files cw.
Proof. exact (@run_leaves_no_trace). Qed.
Print Assumptions C17_run_leaves_no_trace.

(** The instruction objects parsed from a suite file are shared by all cases of the suite.  If they
    behave as functions of what the case lets them see (nothing they remember changes what they
    do), a run with them is a run of independent cases: every theorem above applies to it. *)
Theorem C17_stateless_suite_objects_independent :
  forall (R M : Type) ec (cases : list (shared_case R M)) (m0 m : M) cw st,
  (forall c, In c cases -> forall m', shc_sem c m' = shc_sem c m0) ->
  snd (fst (run_cases_shared real_policy false ec cases m (cw, st))) =
  snd (run_cases real_policy false ec (map (fun c => shc_sem c m0) cases) (cw, st)).
Proof. intros R M ec cases m0 m cw st. exact (stateless_suite_objects_independent ec cases m0 m cw st). Qed.
Print Assumptions C17_stateless_suite_objects_independent.

(** ... and it rests on that: with a suite instruction object that caches the value it resolved a
    symbol to, the second case of the suite is judged by the first case's value — independence is
    false for that variant.  (That the instruction objects of exactly_lib are stateless is NOT a
    theorem: experiment 2 lets suite-supplied instructions of every phase look at state the cases set
    differently, on every run.) *)
Theorem C17_independence_with_caching_suite_objects_refuted :
  exists (cases : list (shared_case nat (option nat))) c,
    nth_error (map (@o_result nat) (snd (fst (run_cases_shared real_policy false shared_conf (cases ++ [c]) None (start_world, start_store))))) (length cases)
    <> nth_error (map (@o_result nat) (snd (fst (run_cases_shared real_policy false shared_conf [c] None (start_world, start_store))))) 0.
Proof. exact independence_with_caching_suite_objects_refuted. Qed.
Print Assumptions C17_independence_with_caching_suite_objects_refuted.

(** Non-vacuity: a case that sets variables, defines a symbol, changes directory and writes a file,
    followed by an observer: the observer sees the pristine state; under the copy-less executor it
    sees the first case's variable and symbol. *)
Example C17_example :
  let actor : case_sem nat := CS (fun _ => (inr tt, [MSymPut 7 7]))
                                 (fun _ => (0, [MEnvSet 5 5; MActEnvSet 6 6; MSymPut 7 7; MTimeout (Some 1%Z); MChdir (CCur (Some DTmp)); MFile DAct 3])) in
  let observer : case_sem nat := CS (fun v => (inr tt, [])) (fun v => (length (v_env v) + length (v_syms v), [])) in
  let s0 := (start_world, start_store) in
  map (@o_view2 nat) (snd (run_cases real_policy false shared_conf [actor; observer] s0)) =
    [Some (V [(1, 1)] [(1, 1)] (Some 60%Z) [(2, 2)] (VCur (Some DAct)) []);
     Some (V [(1, 1)] [(1, 1)] (Some 60%Z) [(2, 2)] (VCur (Some DAct)) [])] /\
  map (@o_end2 nat) (snd (run_cases real_policy false shared_conf [actor] s0)) =
    [Some (V [(1, 1); (5, 5)] [(1, 1); (6, 6)] (Some 1%Z) [(2, 2); (7, 7)] (VCur (Some DTmp)) [(DAct, 3)])] /\
  map (@o_result nat) (snd (run_cases real_policy false shared_conf [actor; observer] s0)) = [0; 2] /\
  map (@o_result nat) (snd (run_cases no_copy_policy false shared_conf [actor; observer] s0)) = [0; 5].
Proof. vm_compute. repeat split. Qed.
