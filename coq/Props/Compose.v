(** Composition of the executor (C01), the processing pipeline and its world (C03/C04) and the
    outcome table with its reporters (C02): what the user sees as a function of what the
    instructions do.  Statements only; definitions ([user_result], [verdict], [reported_failure],
    [failure_kind], [sandbox_created], [atc_completed], [admissible_tc], [sym_plan], ...) and proofs
    in Proofs/Compose.v; plans ([schedule], [sched_cleanup], [ffail], [tuf]) in Spec/C01.v; the
    documented table ([doc_program_output], [doc_exit], [doc_verdict]) in Spec/C02.v. *)
From Coq Require Import ZArith List Bool String.
From Exactly Require Import Lib.Harness Model.Outcome Model.Exec Model.World Spec.C01 Spec.C02 Proofs.Compose.
Import ListNotations.

(** ** 1.  For every source, --keep flag, effects of instructions, world and output mode: the
    processing result is [user_result s] - the access error if the file cannot be read /
    preprocessed / parsed, otherwise [Executed (verdict tc) (sandbox_created tc) ...] where
    [verdict tc] is the documented verdict table applied to the status in force and the kind of
    the first failing step of the plan [schedule tc] (or of the failing cleanup step that replaced
    it); and everything the process prints and returns is the documented table applied to it. *)
Theorem Compose_process_result_declarative : forall keep s eff w, snd (process keep s eff w) = user_result s.
Proof. exact process_result_declarative. Qed.
Print Assumptions Compose_process_result_declarative.

Theorem Compose_user_sees : forall keep s eff w m,
  program_output m (snd (process keep s eff w)) = doc_program_output m (user_result s) /\
  report m (snd (process keep s eff w)) = report m (user_result s) /\
  exit_value (snd (process keep s eff w)) = (doc_exit (verdict_ident (user_result s)), verdict_ident (user_result s)).
Proof. exact user_sees. Qed.
Print Assumptions Compose_user_sees.

(** the executor's whole result record, declaratively *)
Theorem Compose_full_result_declarative : forall tc,
  snd (full_execute tc) =
  FResult (verdict tc)
          (match ffail (conf_plan tc) with
           | Some f => Some f
           | None => match tc_status tc with TSkip => None | _ => reported_failure tc end
           end)
          (sandbox_created tc) (atc_completed tc).
Proof. exact full_result_declarative. Qed.
Print Assumptions Compose_full_result_declarative.

(** (a) Normal mode: exit code 0 exactly when the file is accessible, no configuration instruction
    fails, and the case is skipped, or (status PASS and) no step of the plan and no cleanup step fails. *)
Theorem Compose_exit_zero_iff : forall keep s eff w,
  r_exit (program_output Normal (snd (process keep s eff w))) = 0%Z <->
  exists tc, access s = StageOk tc /\ ffail (conf_plan tc) = None /\
    (tc_status tc = TSkip \/
     (tc_status tc = TPass /\ ffail (schedule tc) = None /\
      ffail (sched_cleanup tc (prev_of (tc_act_only tc) None)) = None)).
Proof. exact exit_zero_iff. Qed.
Print Assumptions Compose_exit_zero_iff.

Theorem Compose_exit_zero_verdict : forall keep s eff w,
  r_exit (program_output Normal (snd (process keep s eff w))) = 0%Z ->
  exists h c, snd (process keep s eff w) = Executed PASS h c \/ snd (process keep s eff w) = Executed SKIPPED h c.
Proof. exact exit_zero_verdict. Qed.
Print Assumptions Compose_exit_zero_verdict.

(** (b) the exit code is always one of 0, 32, 33, 65, 128, 129 (under --act a completed execution
    exits with the code of the action instead: C02_act_passes_exit_code_iff). *)
Theorem Compose_exit_code_documented : forall keep s eff w,
  In (fst (exit_value (snd (process keep s eff w)))) documented_codes /\
  r_exit (program_output Normal (snd (process keep s eff w))) = fst (exit_value (snd (process keep s eff w))) /\
  r_exit (program_output Keep (snd (process keep s eff w))) = fst (exit_value (snd (process keep s eff w))).
Proof. exact exit_code_documented. Qed.
Print Assumptions Compose_exit_code_documented.

(** 65 exactly for an access error or a reported failure of kind syntax / validation *)
Theorem Compose_exit_65_iff : forall keep s eff w,
  fst (exit_value (snd (process keep s eff w))) = 65%Z <->
  (exists e, access s = StageErr e) \/
  (exists tc, access s = StageOk tc /\ (failure_kind tc = Some FSyntax \/ failure_kind tc = Some FValidation)).
Proof. exact exit_65_iff. Qed.
Print Assumptions Compose_exit_65_iff.

(** "65 iff nothing but validation ran" is REFUTED in both directions (admissible behaviours):
    post-setup validation reports 65 after setup ran in a sandbox; a hard error in pre-sds
    validation gives 128 with nothing but validation run.  What holds instead follows. *)
Theorem Compose_exit_65_iff_only_validation_refuted :
  (exists tc, admissible_tc tc = true /\
     fst (exit_value (snd (process false (src_of tc) no_eff w1))) = 65%Z /\
     existsb is_sandbox (snd (fst (process false (src_of tc) no_eff w1))) = true /\
     In (EInstr Setup SMain 0 None) (snd (fst (process false (src_of tc) no_eff w1)))) /\
  (exists tc, admissible_tc tc = true /\
     fst (exit_value (snd (process false (src_of tc) no_eff w1))) = 128%Z /\
     forallb is_validation_event (snd (fst (process false (src_of tc) no_eff w1))) = true).
Proof. exact exit_65_iff_only_validation_refuted. Qed.
Print Assumptions Compose_exit_65_iff_only_validation_refuted.

Theorem Compose_exit_65_admissible : forall keep s eff w tc,
  access s = StageOk tc -> admissible_tc tc = true ->
  fst (exit_value (snd (process keep s eff w))) = 65%Z ->
  sandbox_created tc = false \/
  exists f, reported_failure tc = Some f /\ f_step f = SValPost /\ f_status f = FValidation.
Proof. exact exit_65_admissible. Qed.
Print Assumptions Compose_exit_65_admissible.

Theorem Compose_no_sandbox_only_validation : forall keep s eff w tc,
  access s = StageOk tc -> sandbox_created tc = false ->
  let '(w', t, r) := process keep s eff w in
  Forall (fun e => is_validation_event e = true) t /\ existsb is_sandbox t = false /\
  ((forall r, In r (w_roots w) -> r < w_next w) -> w_roots w' = w_roots w).
Proof. exact no_sandbox_only_validation. Qed.
Print Assumptions Compose_no_sandbox_only_validation.

(** (c) C02's has_sds = C01's sandbox event = the declarative [sandbox_created] = C04's kept root *)
Theorem Compose_sandbox_event_iff_created : forall tc,
  existsb is_sandbox (fst (full_execute tc)) = sandbox_created tc.
Proof. exact sandbox_event_iff_created. Qed.
Print Assumptions Compose_sandbox_event_iff_created.

Theorem Compose_keep_prints_the_kept_sandbox : forall s eff w,
  (forall r, In r (w_roots w) -> r < w_next w) ->
  let '(w', t, r) := process true s eff w in
  let created := match access s with StageOk tc => sandbox_created tc | StageErr _ => false end in
  existsb is_sandbox t = created /\
  r_out (program_output Keep r) = (if created then [OSdsPath] else []) /\
  w_roots w' = (if created then w_next w :: w_roots w else w_roots w) /\
  (created = true -> ~ In (w_next w) (w_roots w)).
Proof. exact keep_prints_the_kept_sandbox. Qed.
Print Assumptions Compose_keep_prints_the_kept_sandbox.

Theorem Compose_nothing_left_without_keep : forall s eff w,
  (forall r, In r (w_roots w) -> r < w_next w) ->
  w_roots (fst (fst (process false s eff w))) = w_roots w.
Proof. exact nothing_left_without_keep. Qed.
Print Assumptions Compose_nothing_left_without_keep.

(** ** 2.  Later steps cannot matter: test cases whose plans agree up to and including the first
    failing step are executed identically, hence reported identically. *)
Theorem Compose_agree_up_to_first_failure : forall tc1 tc2,
  tuf (conf_plan tc1) = tuf (conf_plan tc2) ->
  (ffail (conf_plan tc1) = None ->
     tc_status tc1 = tc_status tc2 /\
     (tc_status tc1 <> TSkip ->
        tc_act_only tc1 = tc_act_only tc2 /\
        tuf (schedule tc1) = tuf (schedule tc2) /\
        forall prev, tuf (sched_cleanup tc1 prev) = tuf (sched_cleanup tc2 prev))) ->
  full_execute tc1 = full_execute tc2.
Proof. exact agree_up_to_first_failure. Qed.
Print Assumptions Compose_agree_up_to_first_failure.

Theorem Compose_same_execution_same_report : forall keep s1 s2 eff w tc1 tc2 m,
  access s1 = StageOk tc1 -> access s2 = StageOk tc2 -> full_execute tc1 = full_execute tc2 ->
  process keep s1 eff w = process keep s2 eff w /\
  program_output m (snd (process keep s1 eff w)) = program_output m (snd (process keep s2 eff w)).
Proof. exact same_execution_same_report. Qed.
Print Assumptions Compose_same_execution_same_report.

(** instruction-level instance *)
Theorem Compose_later_assert_mains_cannot_matter : forall tc pre i post1 post2,
  tc_assert tc = pre ++ i :: post1 -> outcome (i SMain) <> None -> Forall2 agree_off_main post1 post2 ->
  full_execute (set_assert tc (pre ++ i :: post2)) = full_execute tc.
Proof. exact later_assert_mains_cannot_matter. Qed.
Print Assumptions Compose_later_assert_mains_cannot_matter.

(** ** 3.  The [symbol] command *)
Theorem Compose_symbol_command_declarative : forall s,
  symbol_command s =
  match access s with
  | StageErr e => ([], Some (inl e))
  | StageOk tc => (map fst (tuf (sym_plan tc)), option_map inr (ffail (sym_plan tc)))
  end.
Proof. exact symbol_command_declarative. Qed.
Print Assumptions Compose_symbol_command_declarative.

Theorem Compose_symbol_failure_is_run_failure : forall keep s eff w tc f,
  access s = StageOk tc -> snd (symbol_command s) = Some (inr f) ->
  ffail (conf_plan tc) = Some f \/ tc_status tc <> TSkip ->
  let '(w', t, r) := process keep s eff w in
  t = fst (symbol_command s) /\
  r = Executed (match ffail (conf_plan tc) with
                | Some _ => full_of_fail (f_status f)
                | None => translate_status (tc_status tc) (Some (f_status f))
                end) false None.
Proof. exact symbol_failure_is_run_failure. Qed.
Print Assumptions Compose_symbol_failure_is_run_failure.
