(** * Source tie for property C06 (expression grammar; [&&] / [||] of matchers): the interval combinators of
    util/interval/w_inversion/combinations.py, which the conjunction / disjunction of integer and line matchers use, as
    translated from the current Python source text (Gen/Src_Interval.v, shared with C13; proofs in
    Proofs/SrcTieInterval.v) against Model/Interval.v.  (Model/Expr.v, C06's own model, has no intervals; these are the
    ties of the code that seeded change C06-m10 touched.) *)
From Coq Require Import ZArith List Bool String.
From Exactly Require Import Lib.PyVal Model.Interval Gen.Src_Interval Proofs.PyValLemmas Proofs.SrcTieInterval.
Import ListNotations.
Local Open Scope Z_scope.

Theorem SrcTie_C06_intersection : forall a b, is_w a = true -> is_w b = true ->
  exists o, py_combinations_intersection (enc a) (enc b) = enc o /\ is_w o = true
            /\ abs o = Interval.intersection (abs a) (abs b).
Proof. exact tie_intersection. Qed.
Print Assumptions SrcTie_C06_intersection.

Theorem SrcTie_C06_union : forall a b, is_w a = true -> is_w b = true ->
  exists o, py_combinations_union (enc a) (enc b) = enc o /\ is_w o = true
            /\ abs o = Interval.union (abs a) (abs b).
Proof. exact tie_union. Qed.
Print Assumptions SrcTie_C06_union.

Theorem SrcTie_C06_of : forall lo hi,
  py_combinations__of (enc_opt lo) (enc_opt hi) = enc (of_obj lo hi) /\ abs (of_obj lo hi) = of_ lo hi.
Proof. intros lo hi. exact (conj (tie_of lo hi) (abs_of lo hi)). Qed.
Print Assumptions SrcTie_C06_of.
