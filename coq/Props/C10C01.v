(** C10 o C01 - the verdicts of C10's program-execution model, run through the executor model.
    Statements only.  [run_case_with], [exec_instr], [exec_phase], [exec_act], [exit_code_verdict],
    [status] : Model/Prog.v; [full_execute] : Model/Exec.v; [lower R A fuel mode cwd tbl0 c oracle]
    (the C10 case as a test case of Exec: every instruction's main step - act: execute - behaves as
    the status C10's [exec_instr] / [exec_act] computes for it in the state in which it is executed:
    PASS -> OK, FAIL -> returns FAIL, HARD_ERROR -> returns a hard error; unexecuted instructions OK),
    [phase_behs], [fail_idx], [kind_of], [beh_of_status], [main_case], [mains] : Proofs/ComposeC10.v. *)
From Coq Require Import ZArith NArith List Bool Arith.
From Exactly Require Import Lib.Harness Model.Outcome Model.Exec Spec.C01 Proofs.ComposeC10.
From Exactly Require Import Model.Prog.
Import ListNotations.

(** For every resolver / stdin assembly / fuel / symbol table / case / oracle on which C10's model
    evaluates without a model error, and every test-case status other than SKIP: the executor's
    verdict on the lowered case is [translate_status] of the kind of the failure it reports; it
    reports no failure iff C10's verdict is PASS (and C10 reports no phase); a reported failure is a main
    step (act: execute), its kind is C10's verdict (FAIL from [assert], HARD_ERROR from elsewhere) and its
    phase is the phase C10 reports ([rs_phase], through [code_of_phase]) - in ALL cases: a before-assert
    failure followed by a failing cleanup is reported in before-assert, a setup / act / assert failure
    followed by a failing cleanup in cleanup, by both models. *)
Theorem C10C01_verdict_through_executor : forall R A fuel mode cwd tbl0 c oracle res,
  run_case_with R A fuel cwd tbl0 c oracle = Ok res -> mode <> TSkip ->
  let r := snd (full_execute (lower R A fuel mode cwd tbl0 c oracle)) in
  fr_status r = translate_status mode (option_map f_status (fr_failure r)) /\
  match fr_failure r with
  | None => rs_verdict res = StPass /\ rs_phase res = 0%N
  | Some f =>
      rs_verdict res <> StPass /\
      f_step f = (match f_phase f with Exec.Act => SExecute | _ => SMain end) /\
      kind_of (rs_verdict res) = f_status f /\
      rs_phase res = code_of_phase (f_phase f)
  end.
Proof. exact verdict_through_executor. Qed.
Print Assumptions C10C01_verdict_through_executor.

Theorem C10C01_verdict_table : forall R A fuel mode cwd tbl0 c oracle res,
  run_case_with R A fuel cwd tbl0 c oracle = Ok res -> mode <> TSkip ->
  let r := snd (full_execute (lower R A fuel mode cwd tbl0 c oracle)) in
  (fr_failure r = None -> rs_verdict res = StPass /\ rs_phase res = 0%N /\ fr_status r = translate_status mode None) /\
  (forall f, fr_failure r = Some f ->
     fr_status r = translate_status mode (Some (kind_of (rs_verdict res))) /\
     rs_phase res = code_of_phase (f_phase f)).
Proof. exact verdict_table. Qed.
Print Assumptions C10C01_verdict_table.

(** the executor on any test case whose instructions act only in main (act: execute): which failure
    it reports, from the first failures of the phases' main lists *)
Theorem C10C01_main_case_result : forall bs ba bb bas bc mode,
  mode <> TSkip ->
  let tc := main_case bs ba bb bas bc mode in
  let fc prev := ffail (mains Cleanup (Some prev) bc) in
  let reported :=
    match ffail (mains Setup None bs) with
    | Some f => Some (pick_cleanup (fc PSetup) f)
    | None =>
        match option_map (Failure Exec.Act SExecute 0) (Exec.outcome ba) with
        | Some f => Some (pick_cleanup (fc PAct) f)
        | None =>
            match ffail (mains BeforeAssert None bb) with
            | Some f => Some f
            | None =>
                match ffail (mains Assert None bas) with
                | Some f => Some (pick_cleanup (fc PAssert) f)
                | None => fc PAssert
                end
            end
        end
    end in
  fr_failure (snd (full_execute tc)) = reported /\
  fr_status (snd (full_execute tc)) = translate_status mode (option_map f_status reported).
Proof. exact main_case_result. Qed.
Print Assumptions C10C01_main_case_result.

(** located at the instruction: the first failure of a phase's main list is at the index of the
    first instruction whose main step C10 gives a non-PASS status, with that status' kind; and a
    non-OK behaviour at position [j] is the status of the j-th instruction in the state reached after
    the first [j] passed. *)
Theorem C10C01_first_failure_of_a_phase : forall R A fuel p prev ph l st s0 s st',
  exec_phase R A fuel ph l st = Ok (s, st') ->
  ffail (sched_list p SMain prev s0 (map main_at (phase_behs R A fuel ph l st))) =
  match s with
  | StPass => None
  | _ => Some (Failure p SMain (s0 + fail_idx R A fuel ph l st) (kind_of s))
  end.
Proof. exact phase_behs_ffail. Qed.
Print Assumptions C10C01_first_failure_of_a_phase.

Theorem C10C01_located_at_the_instruction : forall R A fuel ph l st j b,
  nth_error (phase_behs R A fuel ph l st) j = Some b -> b <> BOk ->
  exists i stj s stj',
    nth_error l j = Some i /\ exec_phase R A fuel ph (firstn j l) st = Ok (StPass, stj) /\
    exec_instr R A fuel ph i stj = Ok (s, stj') /\ s <> StPass /\ b = beh_of_status s /\ j = fail_idx R A fuel ph l st.
Proof. exact phase_behs_located. Qed.
Print Assumptions C10C01_located_at_the_instruction.

(** the two entries of C10's table as behaviours *)
Theorem C10C01_run_instruction_beh : forall R A fuel ph ign p st o trs w',
  run_program R A fuel (st_tbl st) (st_cwd st) p [] (st_world st) = EOk (o, trs) w' ->
  phase_behs R A fuel ph [IRun ign p] st =
  [if ign || (o_code o =? 0)%N then BOk else match ph with PhAssert => BFail | _ => BHardRet end].
Proof. exact run_instruction_beh. Qed.
Print Assumptions C10C01_run_instruction_beh.

Theorem C10C01_act_exit_code_never_fails : forall R A fuel p st o trs w',
  run_program R A fuel (st_tbl st) (st_cwd st) p (opt_list (st_stdin st)) (st_world st) = EOk (o, trs) w' ->
  exists st', exec_act R A fuel (ActCommand p) st = Ok (StPass, st').
Proof. exact act_exit_code_never_fails. Qed.
Print Assumptions C10C01_act_exit_code_never_fails.

(** Formerly REFUTED for failures located in before-assert (C10's model reported a later failure of [cleanup]
    there).  Model/Prog.v now follows _continue_from_before_assert (the cleanup failure is swallowed): on the
    former witness model and executor agree.  [C10C01_verdict_through_executor] can now be strengthened by
    dropping its premise [f_phase f <> BeforeAssert]. *)
Theorem C10C01_verdict_after_before_assert_failure_agrees :
  exists res f,
    run_case 10 [47%N] [] case_r [Out 1 [] []] = Ok res /\
    fr_failure (snd (full_execute (lower resolve_tbl assemble_in_order 10 TPass [47%N] [] case_r [Out 1 [] []]))) = Some f /\
    f_phase f = BeforeAssert /\ f_status f = FFail /\ rs_verdict res = StFail /\ kind_of (rs_verdict res) = f_status f.
Proof. exact verdict_after_before_assert_failure_agrees. Qed.
Print Assumptions C10C01_verdict_after_before_assert_failure_agrees.
