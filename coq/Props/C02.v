(** Property C02 — outcome table.  Theorem statements only. *)
From Coq Require Import ZArith List Bool String.
From Exactly Require Import Lib.Harness Model.Outcome Spec.C02 Proofs.OutcomeTable Gen.C02_tables.
Import ListNotations.
Local Open Scope Z_scope.

(** The verdict is the documented function of the configured status and the outcome. *)
Theorem C02_verdict_table : forall mode ps, full_status_of None mode ps = doc_verdict mode ps.
Proof. exact verdict_table_no_conf_failure. Qed.
Print Assumptions C02_verdict_table.

Theorem C02_conf_failure_is_reported : forall f mode ps, full_status_of (Some f) mode ps = full_of_fail f.
Proof. exact verdict_conf_failure. Qed.
Print Assumptions C02_conf_failure_is_reported.

(** Exit code and identifier correspond to each other and to the verdict, as documented. *)
Theorem C02_exit_ident_consistent : forall r, exit_value r = (doc_exit (verdict_ident r), verdict_ident r).
Proof. exact exit_ident_consistent. Qed.
Print Assumptions C02_exit_ident_consistent.

Theorem C02_exit_codes_documented : forall r, In (fst (exit_value r)) documented_codes.
Proof. exact exit_codes_documented. Qed.
Print Assumptions C02_exit_codes_documented.

Theorem C02_exit_code_sharing : forall s1 s2,
  exit_code_of_full s1 = exit_code_of_full s2 <->
  (s1 = s2 \/ (In s1 [PASS; SKIPPED] /\ In s2 [PASS; SKIPPED]) \/ (In s1 [XFAIL; XPASS] /\ In s2 [XFAIL; XPASS])
   \/ (In s1 [SYNTAX_ERROR; VALIDATION_ERROR] /\ In s2 [SYNTAX_ERROR; VALIDATION_ERROR])).
Proof. exact exit_code_sharing. Qed.
Print Assumptions C02_exit_code_sharing.

(** In every output mode, for every processing result and EVERY exit code of the action to check,
    what the process prints and returns is the documented behaviour. *)
Theorem C02_program_output_matches_doc : forall m r, program_output m r = doc_program_output m r.
Proof. exact program_output_matches_doc. Qed.
Print Assumptions C02_program_output_matches_doc.

Theorem C02_act_passes_exit_code_iff : forall s h (c : Z),
  r_exit (program_output Act (Executed s h (Some c))) = c /\ r_err_ident (program_output Act (Executed s h (Some c))) = None
  <-> In s [PASS; FAIL; XPASS; XFAIL].
Proof. exact act_passes_exit_code_iff. Qed.
Print Assumptions C02_act_passes_exit_code_iff.

Theorem C02_ident_printed_exactly_once : forall m r,
  passes_through m r = None ->
  let rep := program_output m r in
  let n_out := List.length (List.filter (fun o => match o with OIdent _ => true | _ => false end) (r_out rep)) in
  let n_err := match r_err_ident rep with Some _ => 1%nat | None => 0%nat end in
  (n_out + n_err = 1)%nat /\ (m = Normal -> n_out = 1%nat) /\ (m <> Normal -> n_err = 1%nat).
Proof. exact ident_printed_exactly_once. Qed.
Print Assumptions C02_ident_printed_exactly_once.

Theorem C02_keep_stdout_is_only_sandbox_path : forall r,
  r_out (program_output Keep r) = match r with Executed _ true _ => [OSdsPath] | _ => [] end.
Proof. exact keep_stdout_is_only_sandbox_path. Qed.
Print Assumptions C02_keep_stdout_is_only_sandbox_path.

Theorem C02_invalid_usage : r_exit report_invalid_usage = 64 /\ r_out report_invalid_usage = [] /\ r_err_ident report_invalid_usage = None.
Proof. repeat split. Qed.
Print Assumptions C02_invalid_usage.

(** *** Obligations over the tables regenerated from the running code on this run (Gen/C02_tables.v):
    the model agrees with the implementation on its complete finite domains. *)
Theorem C02_gen_translate_status_matches :
  forallb (fun e => match e with (m, ps, s) => full_status_eqb (translate_status m ps) s end) gen_translate_status = true
  /\ forallb (fun k => existsb (fun e => match e with (m, ps, _) => tc_status_eqb m (fst k) && option_eqb fail_status_eqb ps (snd k) end) gen_translate_status)
       (flat_map (fun m => map (fun ps => (m, ps)) (None :: map Some all_fail_status)) [TPass; TFail]) = true.
Proof. split; vm_compute; reflexivity. Qed.
Print Assumptions C02_gen_translate_status_matches.

Theorem C02_gen_conf_translation_matches :
  forallb (fun e => full_status_eqb (full_of_fail (fst e)) (snd e)) gen_conf_status_translation = true
  /\ List.length gen_conf_status_translation = 3%nat.
Proof. split; vm_compute; reflexivity. Qed.
Print Assumptions C02_gen_conf_translation_matches.

Theorem C02_gen_exit_values_match :
  forallb (fun e => match e with (r, code, name) =>
     Z.eqb (fst (exit_value r)) code && String.eqb (ident_name (snd (exit_value r))) name end) gen_exit_values = true
  /\ forallb (fun r => existsb (fun e => match e with (r', _, _) => proc_result_eqb r r' end) gen_exit_values)
       (map (fun s => Executed s false None) all_full_status ++ map AccessErr all_access_error ++ [InternalErr]) = true.
Proof. split; vm_compute; reflexivity. Qed.
Print Assumptions C02_gen_exit_values_match.

Theorem C02_gen_reporters_match :
  forallb (fun e => match e with (m, r, obs) => report_eqb (report m r) obs end) gen_reports = true
  /\ forallb (fun k => existsb (fun e => match e with (m, r, _) => mode_eqb m (fst k) && proc_result_eqb r (snd k) end) gen_reports)
       all_report_keys = true.
Proof. split; vm_compute; reflexivity. Qed.
Print Assumptions C02_gen_reporters_match.

(** "The check predicate holds on the model" (built by a separate pass; proofs in Proofs/PredOnModelC02.v): the boolean
    predicate the check evaluates on OBSERVED behaviour is true of the model's own output for all inputs, and
    correspondence on an input implies the property on that input. *)
From Exactly Require Import Proofs.PredOnModelC02.
(** ** C02.  Every output mode, every processing result, every exit code [c : Z] of the action. *)
Theorem C02_check_predicate_holds_on_model : forall m r, check_c02 (obs_of_model_c02 m r) = (true, true).
Proof. exact check_c02_on_model. Qed.
Print Assumptions C02_check_predicate_holds_on_model.

Theorem C02_check_halves_agree : forall c, fst (check_c02 c) = snd (check_c02 c).
Proof. exact check_c02_halves_agree. Qed.
Print Assumptions C02_check_halves_agree.

Theorem C02_correspondence_implies_property : forall c, fst (check_c02 c) = true -> snd (check_c02 c) = true.
Proof. exact corr_implies_property_c02. Qed.
Print Assumptions C02_correspondence_implies_property.

Theorem C02_usage_predicate_holds_on_model : check_usage report_invalid_usage = (true, true).
Proof. exact check_usage_on_model. Qed.
Print Assumptions C02_usage_predicate_holds_on_model.

Theorem C02_usage_correspondence_implies_property : forall obs,
  fst (check_usage obs) = true -> snd (check_usage obs) = true.
Proof. exact corr_implies_property_usage. Qed.
Print Assumptions C02_usage_correspondence_implies_property.

