(** * Source tie for property C05 (text matchers and transformers): [filter -line-nums] is evaluated through the model of
    Model/LineNums.v; the ties of that model to the current source text of range_merge.py / transformers.py
    (Gen/Src_LineNums.v, shared with C13; proofs in Proofs/SrcTieLineNums.v) that this property relies on. *)
From Coq Require Import ZArith List Bool String.
From Exactly Require Import Lib.PyVal Model.LineNums Gen.Src_LineNums Proofs.PyValLemmas Proofs.SrcTieLineNums.
Import ListNotations.
Local Open Scope Z_scope.

(** negative line numbers are translated with [_NegValuesTranslator._tr] *)
Theorem SrcTie_C05_tr : forall num_lines n,
  py_range_merge__NegValuesTranslator__tr (enc_neg_translator num_lines) (VInt n) = VInt (tr num_lines n).
Proof. exact tie_tr. Qed.
Print Assumptions SrcTie_C05_tr.

Theorem SrcTie_C05_translate_neg_to_non_neg : forall rs num_lines,
  py_range_merge_translate_neg_to_non_neg (enc_ranges rs) (VInt num_lines)
  = enc_ranges (translate_neg_to_non_neg rs num_lines).
Proof. exact tie_translate_neg_to_non_neg. Qed.
Print Assumptions SrcTie_C05_translate_neg_to_non_neg.

Theorem SrcTie_C05_merge : forall p : partitioning,
  py_range_merge_merge (enc_part p) = enc_merged (merge p).
Proof. exact tie_merge. Qed.
Print Assumptions SrcTie_C05_merge.

Theorem SrcTie_C05_single_range_choice : forall sm td mb r,
  py_ok sm = true -> py_ok td = true -> py_ok mb = true ->
  py_meth_accept (enc_range r) (VObj "transformers._SingleRangeSourceConstructor"%string [sm; td; mb])
  = enc_choice sm td mb (choose r).
Proof. exact tie_single_range_choice. Qed.
Print Assumptions SrcTie_C05_single_range_choice.

Theorem SrcTie_C05_choice_is_model : forall (A : Type) r (ls : list A),
  run_choice (choose r) ls = single_range_transform r ls.
Proof. exact @run_choose. Qed.
Print Assumptions SrcTie_C05_choice_is_model.
