(** C19 o C01 o C04 (o C02) - an expired process, as a theorem about the executor model.
    Statements only.  [texecute], [tcleanup], [cleanup_entry], [lower] : Model/Timeout.v;
    [exp_call], [no_exp], [site_failure] : Proofs/TimeoutExpiry.v; [cleanup_mains] : Proofs/TimeoutBound.v;
    [lower_mode mode tc] (the lowered test case - a process start site behaves as "raises
    HardErrorException" iff one of its processes exceeds the timeout in force - under test-case status
    [mode]), [prev_of_phase], [cleanup_failure], [reported_after_expiry], [pick] : Proofs/ComposeC19.v;
    [full_execute] : Model/Exec.v; [process] : Model/World.v; [src_of] : Proofs/Compose.v. *)
From Coq Require Import ZArith List Bool Arith NArith.
From Exactly Require Import Lib.Harness Model.Outcome Model.Exec Model.World Model.Timeout Spec.C01
  Proofs.ExecCorollaries Proofs.TimeoutExpiry Proofs.TimeoutBound Proofs.Compose Proofs.ComposeC19.
Import ListNotations.

(** The executor on the lowered case, for every status: its trace is the timeout model's trace with
    the processes erased, its verdict the outcome table applied to the model's failure. *)
Theorem C19C01_executor_on_lowered_case : forall mode tc,
  full_execute (lower_mode mode tc) =
  match mode with
  | TSkip => ([], FResult SKIPPED None false false)
  | _ => (erase (fst (texecute tc)),
          FResult (translate_status mode (option_map f_status (pr_failure (snd (texecute tc)))))
                  (pr_failure (snd (texecute tc))) true (pr_has_atc_outcome (snd (texecute tc))))
  end.
Proof. exact full_execute_lower_mode. Qed.
Print Assumptions C19C01_executor_on_lowered_case.

(** The first expiry (the k-th process, k = |calls of pre| + 1), started by a step outside cleanup.
    (b) nothing but the cleanup phase is executed afterwards: its begin marker and cleanup/main
        0..n-1 in order - all cleanup instructions unless one of them fails;
    (c) cleanup is entered exactly once and is told the phase of the expired step;
    (a) the reported failure is [reported_after_expiry]: the step that started the process, with
        HARD_ERROR - unless a cleanup instruction fails afterwards, whose failure replaces it (never
        after before-assert) -, translated by [translate_status] for the status in force; the sandbox
        exists. *)
Theorem C19C01_expiry_in_the_executor : forall tc mode pre c post,
  fst (texecute tc) = pre ++ TCall c :: post -> exp_call c -> no_exp pre -> c_phase c <> Cleanup ->
  mode <> TSkip ->
  let prev := prev_of_phase (c_phase c) in
  let f := reported_after_expiry tc c in
  exists n,
    full_execute (lower_mode mode tc) =
      (erase pre ++ ECleanupBegin prev :: cleanup_mains prev 0 n,
       FResult (translate_status mode (Some (f_status f))) (Some f) true (pr_has_atc_outcome (snd (texecute tc)))) /\
    n <= length (t_cleanup tc) /\
    match cleanup_failure tc c with None => n = length (t_cleanup tc) | Some f' => n = S (f_idx f') end /\
    count_ev is_cleanup_begin (fst (full_execute (lower_mode mode tc))) = 1.
Proof. exact expiry_in_the_executor. Qed.
Print Assumptions C19C01_expiry_in_the_executor.

(** (a), the verdict: HARD_ERROR at exactly that step, exit code 128, under status PASS and FAIL
    alike (FAIL turns only an assertion FAIL into XFAIL). *)
Theorem C19C01_expiry_is_hard_error_in_every_mode : forall tc mode pre c post,
  fst (texecute tc) = pre ++ TCall c :: post -> exp_call c -> no_exp pre -> c_phase c <> Cleanup ->
  mode <> TSkip ->
  (c_phase c = BeforeAssert \/ cleanup_failure tc c = None) ->
  fr_status (snd (full_execute (lower_mode mode tc))) = HARD_ERROR /\
  fr_failure (snd (full_execute (lower_mode mode tc))) = Some (site_failure c) /\
  forall keep eff w,
    exit_value (snd (process keep (src_of (lower_mode mode tc)) eff w)) = (128%Z, IdFull HARD_ERROR).
Proof. exact expiry_is_hard_error_in_every_mode. Qed.
Print Assumptions C19C01_expiry_is_hard_error_in_every_mode.

(** "exactly that step" without the side condition is REFUTED: a cleanup instruction that fails
    after the expiry is what is reported. *)
Theorem C19C01_expiry_reported_unconditionally_refuted :
  exists tc pre c post,
    fst (texecute tc) = pre ++ TCall c :: post /\ exp_call c /\ no_exp pre /\ c_phase c <> Cleanup /\
    fr_status (snd (full_execute (lower_mode TPass tc))) = INTERNAL_ERROR /\
    option_map f_phase (fr_failure (snd (full_execute (lower_mode TPass tc)))) = Some Cleanup.
Proof. exact expiry_reported_unconditionally_refuted. Qed.
Print Assumptions C19C01_expiry_reported_unconditionally_refuted.

Theorem C19C01_expiry_in_cleanup : forall tc mode pre c post,
  fst (texecute tc) = pre ++ TCall c :: post -> exp_call c -> no_exp pre -> c_phase c = Cleanup ->
  mode <> TSkip ->
  exists f,
    full_execute (lower_mode mode tc) =
      (erase pre, FResult (translate_status mode (Some (f_status f))) (Some f) true (pr_has_atc_outcome (snd (texecute tc)))) /\
    (f = site_failure c \/ f_phase f = BeforeAssert).
Proof. exact expiry_in_cleanup. Qed.
Print Assumptions C19C01_expiry_in_cleanup.

(** (d) the world around it ([World.process]), whatever expires and however the case ends. *)
Theorem C19C01_world_after_timeout : forall tc mode keep eff w,
  mode <> TSkip -> (forall r, In r (w_roots w) -> r < w_next w) ->
  let '(w', t, r) := process keep (src_of (lower_mode mode tc)) eff w in
  t = erase (fst (texecute tc)) /\
  existsb is_sandbox t = true /\
  w_roots w' = (if keep then w_next w :: w_roots w else w_roots w) /\ ~ In (w_next w) (w_roots w) /\
  w_cwd w' = w_cwd w /\ w_environ w' = w_environ w.
Proof. exact world_after_timeout. Qed.
Print Assumptions C19C01_world_after_timeout.
