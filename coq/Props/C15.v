(** Property C15 - directory trees: populating from a FILE-LIST and matching directory contents.
    Theorem statements only. *)
From Coq Require Import NArith ZArith List Bool.
From Exactly Require Import Lib.Tree Model.Files Spec.C15 Proofs.FilesPopulate.
Import ListNotations.

(** "Files are created/modified in the order listed": populating from a list is populating from
    its first part and then, on the tree that produced, from the rest; a HARD_ERROR stops it. *)
Theorem C15_populate_in_order :
  forall (es1 es2 : list entry) (base : path) (st : tree),
    populate (es1 ++ es2) base st =
    match populate es1 base st with
    | (st', Done) => populate es2 base st'
    | r => r
    end.
Proof. exact populate_app. Qed.
Print Assumptions C15_populate_in_order.
