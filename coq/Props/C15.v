(** Property C15 - directory trees: populating from a FILE-LIST and matching directory contents.
    Theorem statements only (proofs: Proofs/Files*.v; model: Model/Files.v; declarative side:
    Spec/C15.v).  All statements are about the Gallina model of the anchored code; the model is tied
    to the running code by the correspondence check (harness/c15.py). *)
From Coq Require Import NArith ZArith List Bool Permutation.
From Exactly Require Import Lib.Tree Model.Files Spec.C15
  Proofs.FilesPopulate Proofs.FilesDenote Proofs.FilesSafe Proofs.FilesGen Proofs.FilesMatch Proofs.FilesMatchCor
  Proofs.FilesWf Proofs.FilesRoundTrip Proofs.FilesGood.
Import ListNotations.

(* ------------------------------------------------------------------------------------------ *)
(** * Populating a directory from a FILE-LIST *)

(** The name validator (file_list.py [_IsValidPosixPath]): an accepted FILE-NAME is not empty, not
    absolute, and every component of it is a plain name: not empty, not ".", not "..", no "/". *)
Theorem C15_name_validator :
  forall s : name,
    valid_name s = true ->
    s <> [] /\ posix_abs s = false /\ ~ In DOTDOT (posix_parts s)
    /\ Forall (fun c => c <> [] /\ c <> [DOT] /\ ~ In SLASH c) (posix_parts s).
Proof. exact valid_name_sound. Qed.
Print Assumptions C15_name_validator.

(** "Files are created/modified in the order listed": populating from a list is populating from
    its first part and then, on the tree that produced, from the rest; a HARD_ERROR stops it. *)
Theorem C15_populate_in_order :
  forall (es1 es2 : list entry) (base : path) (st : tree),
    populate (es1 ++ es2) base st =
    match populate es1 base st with
    | (st', Done) => populate es2 base st'
    | r => r
    end.
Proof. exact populate_app. Qed.
Print Assumptions C15_populate_in_order.

(** Confinement.  Validated names, no symbolic link in the tree (guard), [sub] the directory at
    [base]: populating at [base] inside ANY surrounding tree [st] is populating [sub] on its own,
    with the result put back at [base] - nothing else of [st] is read or changed - and the model
    never abstains. *)
Theorem C15_populate_confined :
  forall (es : list entry) (base : path) (st sub : tree),
    entries_valid es = true -> link_free st = true -> get base st = Some sub ->
    populate es base st = (put base (fst (populate es [] sub)) st, snd (populate es [] sub))
    /\ snd (populate es base st) <> OutsideModel.
Proof.
  intros es base st sub V L G. split; [apply populate_confined; exact G | apply populate_safe; assumption].
Qed.
Print Assumptions C15_populate_confined.

(** The tree left in the populated directory is exactly the tree the FILE-LIST denotes
    (Spec [denote]: compositional, nested lists denoted on their own); HARD_ERROR exactly when the
    list denotes nothing (a clash with something existing, [+=] on something that is not there). *)
Theorem C15_populate_denotes :
  forall (es : list entry) (d : dirc),
    entries_valid es = true -> link_free (Dir d) = true ->
    match populate es [] (Dir d) with
    | (t, Done) => exists d', denote es d = Some d' /\ t = Dir d'
    | (_, HardError) => denote es d = None
    | (_, OutsideModel) => False
    end.
Proof.
  intros es d V L. pose proof (populate_denotes es d) as A. destruct (populate_safe es [] (Dir d) V L) as [_ S].
  unfold agrees in A. destruct (populate es [] (Dir d)) as [t [| |]]; cbn [fst snd] in *; [exact A | exact A | apply S; reflexivity].
Qed.
Print Assumptions C15_populate_denotes.

(** Without the guards: whenever the model does not abstain, the same holds (dangling links and
    links to files in the directory are handled by the model). *)
Theorem C15_populate_denotes_unguarded :
  forall (es : list entry) (d : dirc),
    match populate es [] (Dir d) with
    | (t, Done) => exists d', denote es d = Some d' /\ t = Dir d'
    | (_, HardError) => denote es d = None
    | (_, OutsideModel) => True
    end.
Proof.
  intros es d. pose proof (populate_denotes es d) as A. unfold agrees in A.
  destruct (populate es [] (Dir d)) as [t [| |]]; exact A.
Qed.
Print Assumptions C15_populate_denotes_unguarded.

(** A clash is a HARD_ERROR and nothing is changed: creating (file / dir with [=] or without
    contents) at a path where [lstat] finds something - also a dangling symbolic link. *)
Theorem C15_clash_is_hard_error :
  forall (nm : name) (base : path) (st t : tree),
    posix_abs nm || mem_name DOTDOT (posix_parts nm) = false ->
    lstat (base ++ posix_parts nm) st = LFound t ->
    (forall c, make (EFile nm c) base st = (st, HardError) \/ exists x, c = Some (Append, x))
    /\ make (EDir nm) base st = (st, HardError)
    /\ (forall es, make (EDirList nm Create es) base st = (st, HardError))
    /\ (forall src, make (EDirCopy nm Create src) base st = (st, HardError)).
Proof.
  intros nm base st t N L. repeat split.
  - intros [[[|] x]|]; [left | right; eauto | left]; rewrite make_eq; cbn zeta; cbn [entry_name]; unfold name_escapes; rewrite N;
      eapply create_clash; exact L.
  - rewrite make_eq. cbn zeta. cbn [entry_name]. unfold name_escapes. rewrite N. eapply create_clash. exact L.
  - intros es. rewrite make_eq. cbn zeta. cbn [entry_name]. unfold name_escapes. rewrite N. rewrite (create_clash _ _ _ _ L). reflexivity.
  - intros src. rewrite make_eq. cbn zeta. cbn [entry_name]. unfold name_escapes. rewrite N. rewrite (create_clash _ _ _ _ L). reflexivity.
Qed.
Print Assumptions C15_clash_is_hard_error.

(* ------------------------------------------------------------------------------------------ *)
(** * The files generator and the matchers *)

(** -recursive [-min-depth] [-max-depth] with a prune matcher: for ANY order in which the OS lists
    directories ([scandir]: some permutation), the breadth-first queue of the code yields a
    permutation of the declarative set [walk] ("a file is included iff its depth is in range and no
    proper ancestor is pruned or at max depth; links to directories are followed"), raises nothing,
    and does not run out of fuel. *)
Theorem C15_generate_permutation :
  forall (scandir : path -> dirc -> dirc) (O : oracles),
    (forall p l, Permutation (scandir p l) l) ->
    forall (prune_spec : elem -> option bool) (prune_code : elem -> res bool),
      (forall e b, prune_spec e = Some b -> prune_code e = Ok b) ->
      forall (mn mx : option nat) (root : tree) (abs : path) (L : list elem),
        walk O prune_spec mn mx root [] abs 0 = Some L ->
        exists L', generate scandir O (Rec mn mx) (Some prune_code) root abs = (L', None) /\ Permutation L' L.
Proof.
  intros scandir O HP ps pc HA mn mx root abs L H.
  exact (gen_recursive_spec scandir HP O ps pc HA mn mx root abs L H).
Qed.
Print Assumptions C15_generate_permutation.

(** Every files-matcher and file-matcher of the model (is-empty, num-files, every/any file,
    matches [-full], -selection, -with-pruned, !, &&, ||; type, name/stem/suffixes/suffix/path
    patterns, contents, dir-contents [-recursive ..]): whenever the declarative semantics of the manual
    gives a verdict ([sem_fm] = Some b: no file that is consulted is of a type for which the manual
    prescribes HARD_ERROR), the code gives that verdict, for EVERY order in which the OS may list
    directories. *)
Theorem C15_matcher_semantics :
  forall (O : oracles) (scandir : path -> dirc -> dirc),
    (forall p l, Permutation (scandir p l) l) ->
    forall (m : fmatcher) (e : elem) (b : bool),
      sem_fm O m e = Some b -> eval_fm scandir O m e = Ok b.
Proof. intros O scandir HP. exact (fm_sound O scandir HP). Qed.
Print Assumptions C15_matcher_semantics.

(** ... and the same for a FILES-MATCHER applied to a model (a directory with selection and prune
    matchers that agree with their declarative counterparts). *)
Theorem C15_files_matcher_semantics :
  forall (O : oracles) (scandir : path -> dirc -> dirc),
    (forall p l, Permutation (scandir p l) l) ->
    forall (m : fsmatcher) (M : fsmodel) (SM : smodel) (b : bool),
      models_agree M SM -> sem_fsm O m SM = Some b -> eval_fsm scandir O m M = Ok b.
Proof. intros O scandir HP. exact (proj1 (proj2 (matchers_sound scandir HP O))). Qed.
Print Assumptions C15_files_matcher_semantics.

(** Consequence: the verdict does not depend on the order in which directories are listed. *)
Theorem C15_matchers_order_insensitive :
  forall (O : oracles) (sc1 sc2 : path -> dirc -> dirc),
    (forall p l, Permutation (sc1 p l) l) -> (forall p l, Permutation (sc2 p l) l) ->
    forall (m : fmatcher) (e : elem) (b : bool),
      sem_fm O m e = Some b ->
      eval_fm sc1 O m e = Ok b /\ eval_fm sc2 O m e = Ok b.
Proof. intros O. exact (order_insensitive O). Qed.
Print Assumptions C15_matchers_order_insensitive.

(** -selection is a conjunction, -with-pruned a disjunction, and they commute ("pruning is done
    before -selection, regardless of their mutual order"). *)
Theorem C15_selection_conj :
  forall (O : oracles) (f g : fmatcher) (m : fsmatcher) (SM : smodel),
    sem_fsm O (SSelection f (SSelection g m)) SM = sem_fsm O (SSelection (FAnd f g) m) SM.
Proof. exact selection_conj. Qed.
Print Assumptions C15_selection_conj.

Theorem C15_prune_disj :
  forall (O : oracles) (f g : fmatcher) (m : fsmatcher) (SM : smodel),
    sem_fsm O (SPrune f (SPrune g m)) SM = sem_fsm O (SPrune (FOr f g) m) SM.
Proof. exact prune_disj. Qed.
Print Assumptions C15_prune_disj.

Theorem C15_selection_prune_commute :
  forall (O : oracles) (f g : fmatcher) (m : fsmatcher) (SM : smodel),
    sem_fsm O (SSelection f (SPrune g m)) SM = sem_fsm O (SPrune g (SSelection f m)) SM.
Proof. exact selection_prune_commute. Qed.
Print Assumptions C15_selection_prune_commute.

(** In the model of the code itself: the files of [sub_set M f] are the files of [M] that [f]
    accepts, evaluated lazily (an exception of [f] ends the iteration there). *)
Theorem C15_files_of_selection :
  forall (scandir : path -> dirc -> dirc) (O : oracles) (M : fsmodel) (f : elem -> res bool),
    files scandir O (sub_set M f) = let (items, er) := files scandir O M in filter_stream f items er.
Proof. exact files_sub_set. Qed.
Print Assumptions C15_files_of_selection.

(** The declarative semantics leaves [matches] undefined for a "set" of files in which a relative
    path occurs twice.  That never happens for a directory tree (unique names in every directory,
    also behind links): the files of every model - recursive or not, with any limits, selection
    and pruning - have pairwise different relative paths. *)
Theorem C15_files_have_distinct_paths :
  forall (O : oracles) (M : smodel) (L : list elem),
    wf_tree (sm_dir M) -> spec_files O M = Some L -> distinct_rels L = true.
Proof. exact spec_files_distinct. Qed.
Print Assumptions C15_files_have_distinct_paths.

(* ------------------------------------------------------------------------------------------ *)
(** * Populate, then match *)

(** [listing t [] abs]: every file below [t], depth first; [cond_of]: the FILES-CONDITION with one
    line [PATH : type TYPE] per file.  On a tree without links, with unique plain names, the
    complete typed listing satisfies [matches -full] on the recursive contents (declaratively). *)
Theorem C15_listing_matches_full :
  forall (O : oracles) (t : tree) (abs : path),
    link_free t = true -> wf_tree t -> plain_tree t ->
    sem_fsm O (SMatches true (cond_of (listing t [] abs)))
            (SModel t abs (Rec None None) (fun _ => Some true) (fun _ => Some false)) = Some true.
Proof. exact listing_matches_full. Qed.
Print Assumptions C15_listing_matches_full.

(** Populating an empty directory from a validated FILE-LIST (the sources of dir-contents-of well
    formed) and then asking [dir-contents -recursive matches -full] for the complete typed listing of
    what was produced: holds, in the model of the code, for every order of directory listings. *)
Theorem C15_populate_then_match_full :
  forall (es : list entry) (t : tree),
    entries_valid es = true -> Forall sources_good es ->
    populate es [] (Dir []) = (t, Done) ->
    forall (scandir : path -> dirc -> dirc), (forall p l, Permutation (scandir p l) l) ->
    forall (O : oracles) (abs : path),
      eval_fsm scandir O (SMatches true (cond_of (listing t [] abs)))
               (FsModel t abs (Rec None None) None None) = Ok true.
Proof. exact populate_then_matches_full. Qed.
Print Assumptions C15_populate_then_match_full.

(* ------------------------------------------------------------------------------------------ *)
(** * Non-vacuity *)

Definition n_a : name := [97%N].
Definition n_b : name := [98%N].
Definition n_c : name := [99%N].
Definition n_ab : name := [97%N; 47%N; 98%N].         (* "a/b" *)

(** dir d = { file a/b = 'c' ; dir c ; file a/b += 'c' ; dir c += { file b } } *)
Example C15_example_populate :
  let es := [EFile n_ab (Some (Create, n_c)); EDir n_c; EFile n_ab (Some (Append, n_c));
             EDirList n_c Append [EFile n_b None]] in
  entries_valid es = true
  /\ populate es [] (Dir []) = (Dir [(n_a, Dir [(n_b, File [99%N; 99%N])]); (n_c, Dir [(n_b, File [])])], Done)
  /\ denote es [] = Some [(n_a, Dir [(n_b, File [99%N; 99%N])]); (n_c, Dir [(n_b, File [])])]
  /\ populate (es ++ [EDir n_c]) [] (Dir []) =
       (Dir [(n_a, Dir [(n_b, File [99%N; 99%N])]); (n_c, Dir [(n_b, File [])])], HardError).
Proof. vm_compute. repeat split; reflexivity. Qed.

(** a tree with a link to a directory: -recursive -with-pruned (type symlink) num-files == 3 holds,
    without pruning there are 4 files *)
Example C15_example_matcher :
  let t := Dir [(n_a, Dir [(n_b, File [])]); (n_c, Link (Some (Dir [(n_b, File [])])))] in
  let e := root_elem t [n_a] in
  sem_fm no_oracles (FDirContents (Rec None None) (SPrune (FType TSymlink) (SNumFiles CEq 3))) e = Some true
  /\ sem_fm no_oracles (FDirContents (Rec None None) (SNumFiles CEq 4)) e = Some true
  /\ eval_fm id_order no_oracles (FDirContents (Rec None None) (SPrune (FType TSymlink) (SNumFiles CEq 3))) e = Ok true
  /\ sem_fm no_oracles (FDirContents NonRec (SEvery (FContents TEmpty))) e = None
  /\ eval_fm id_order no_oracles (FDirContents NonRec (SEvery (FContents TEmpty))) e = Err EHard.
Proof. vm_compute. repeat split; reflexivity. Qed.

(** populate-then-match on the example: the listing has 4 files; the condition is the one a user
    would write ("a : type dir / a/b : type file / c : type dir / c/b : type file") *)
Example C15_example_round_trip :
  let es := [EFile n_ab (Some (Create, n_c)); EDir n_c; EFile n_ab (Some (Append, n_c));
             EDirList n_c Append [EFile n_b None]] in
  let t := fst (populate es [] (Dir [])) in
  length (listing t [] [n_a]) = 4%nat
  /\ fc_names (cond_of (listing t [] [n_a])) = [[n_a]; [n_a; n_b]; [n_c]; [n_c; n_b]]
  /\ eval_fsm id_order no_oracles (SMatches true (cond_of (listing t [] [n_a])))
               (FsModel t [n_a] (Rec None None) None None) = Ok true
  /\ eval_fsm id_order no_oracles (SMatches true (cond_of (listing t [] [n_a])))
               (FsModel t [n_a] NonRec None None) = Ok false.
Proof. vm_compute. repeat split; reflexivity. Qed.

(** the three external answers as oracles: regex on the suffix, an opaque text matcher, a program.
    Directory with a regular file "a" (contents "c") and a directory "b". *)
Example C15_example_oracles :
  let t := Dir [(n_a, File n_c); (n_b, Dir [])] in
  let O := Oracles (fun _ _ => None) (fun _ _ => None)
                   (fun k s => if Nat.eqb k 7 then Some (match s with [] => true | _ => false end) else None)   (* regex 7 = ^$ *)
                   (fun _ _ => None)
                   (fun k c => if Nat.eqb k 3 then Some (Some (name_eqb c n_c)) else None)                       (* text matcher 3 *)
                   (fun k p => if Nat.eqb k 1 then Some (Some (path_eqb p [n_a; n_a])) else None)                (* program 1 *)
                   (fun _ => None) in
  let e := root_elem t [n_a] in
  sem_fm O (FDirContents NonRec (SEvery (FNameRe PSuffix 7))) e = Some true
  /\ eval_fm id_order O (FDirContents NonRec (SSelection (FType TFile) (SEvery (FContents (TNot (TOpaque 3)))))) e = Ok false
  /\ sem_fm O (FDirContents NonRec (SEvery (FContents (TOpaque 3)))) e = None
  /\ eval_fm id_order O (FDirContents NonRec (SSelection (FRun 1) (SNumFiles CEq 1))) e = Ok true
  /\ eval_fm id_order O (FDirContents NonRec (SAny (FRun 2))) e = Err EMiss.
Proof. vm_compute. repeat split; reflexivity. Qed.

(** a link that cannot be resolved (a cycle): [type file] / [type dir] are false for it, [type symlink]
    true; the recursive generator, which must test it for being a directory, raises HARD_ERROR
    unless it is at max depth; a merely dangling link ([link_error] = false) is simply no directory. *)
Example C15_example_unresolvable_link :
  let t := Dir [(n_a, File []); (n_b, Link None)] in
  let cyc b := Oracles (fun _ _ => None) (fun _ _ => None) (fun _ _ => None) (fun _ _ => None) (fun _ _ => None)
                       (fun _ _ => None) (fun p => if path_eqb p [n_c; n_b] then Some b else None) in
  let e := root_elem t [n_c] in
  eval_fm id_order (cyc true) (FDirContents NonRec (SSelection (FOr (FType TFile) (FType TDir)) (SNumFiles CEq 1))) e = Ok true
  /\ sem_fm (cyc true) (FDirContents NonRec (SSelection (FType TSymlink) (SNumFiles CEq 1))) e = Some true
  /\ eval_fm id_order (cyc true) (FDirContents (Rec None None) (SNumFiles CEq 2)) e = Err EHard
  /\ sem_fm (cyc true) (FDirContents (Rec None None) (SNumFiles CEq 2)) e = None
  /\ eval_fm id_order (cyc true) (FDirContents (Rec None (Some 0)) (SNumFiles CEq 2)) e = Ok true
  /\ sem_fm (cyc false) (FDirContents (Rec None None) (SNumFiles CEq 2)) e = Some true.
Proof. vm_compute. repeat split; reflexivity. Qed.
