(** Property C16 — suite run.  Theorem statements only. *)
From Coq Require Import ZArith NArith List Bool Sorting.Permutation Sorting.Sorted.
From Exactly Require Import Lib.Harness Model.Outcome Model.Suite Spec.C02 Spec.C16 Proofs.SuiteRun Proofs.SuiteReader Gen.C16_tables.
Import ListNotations.

(** Any error while reading the hierarchy (double inclusion, inaccessible file, syntax error):
    INVALID_SUITE, exit 3, and no case is processed — with either reporter. *)
Theorem C16_read_error_no_case_run : forall rep fs root outcome e,
  read_root fs root = inl e -> run_suite rep fs root outcome = Run 3 true [].
Proof. exact invalid_suite_no_case. Qed.
Print Assumptions C16_read_error_no_case_run.

(** Cases are processed sub-suites first, then the suite's own cases, in listing order. *)
(** The reader terminates within the fuel the model gives it, for EVERY file system (cyclic and
    repeated references included): a read error is never the model's fuel running out.  The nesting
    depth is bounded by the number of files because every nested read is of a file not visited before. *)
Theorem C16_reader_never_out_of_fuel : forall fs root, read_root fs root <> inl EOutOfFuel.
Proof. exact read_root_never_out_of_fuel. Qed.
Print Assumptions C16_reader_never_out_of_fuel.

Theorem C16_processed_is_listing : forall h, processed h = listing h.
Proof. exact processed_is_listing. Qed.
Print Assumptions C16_processed_is_listing.

(** Each listed case is processed exactly as many times as it is listed (once per listing). *)
Theorem C16_each_listed_case_once : forall h s c,
  count (pairN_eqb (s, c)) (processed h) = count_listed s c h.
Proof. exact each_listed_case_once. Qed.
Print Assumptions C16_each_listed_case_once.

Theorem C16_glob_sorted : forall ms, exists l,
  resolve_instr (RGlob ms) = Some l /\ Permutation ms l /\ LocallySorted (fun x y => is_true (N.leb x y)) l.
Proof. exact glob_sorted. Qed.
Print Assumptions C16_glob_sorted.

(** Progress reporter: OK/0 exactly when every case ended PASS, SKIPPED or XFAIL; ERROR/4 otherwise. *)
Theorem C16_progress_ok_iff : forall results,
  (progress_final results = (0%Z, true) <-> forallb successful results = true) /\
  (progress_final results = (4%Z, false) <-> forallb successful results = false).
Proof. exact progress_ok_iff. Qed.
Print Assumptions C16_progress_ok_iff.

(** JUnit reporter: tests = number of cases, failures + errors = number of unsuccessful cases, and
    exactly the unsuccessful cases carry a failure or error element. *)
Theorem C16_junit_counts : forall results,
  let jr := junit_report results in
  j_tests jr = length results /\
  j_failures jr + j_errors jr = length (filter (fun r => negb (successful r)) results) /\
  length (j_children jr) = length results /\
  Forall2 (fun r ch => successful r = false <-> ch <> JNone) results (j_children jr).
Proof. exact junit_counts_ok. Qed.
Print Assumptions C16_junit_counts.

Theorem C16_reporters_agree : forall results,
  snd (progress_final results) = true <-> j_failures (junit_report results) + j_errors (junit_report results) = 0.
Proof. exact reporters_agree. Qed.
Print Assumptions C16_reporters_agree.

(** The JUnit classification before the repair counted an executed SYNTAX_ERROR as passing. *)
Theorem C16_prefix_junit_counts_refuted : exists r, successful r = false /\ junit_classify_prefix r = JNone.
Proof. exact junit_prefix_refuted. Qed.
Print Assumptions C16_prefix_junit_counts_refuted.

(** *** Obligations over tables regenerated from the running reporters on this run: for each of the
    13 kinds of case result, what the progress reporter concludes for a one-case suite and which
    counters / child element the JUnit reporter produces. *)
Definition one_case_expect (r : proc_result) : Z * bool * (nat * nat * junit_child) :=
  let jr := junit_report [r] in
  (fst (progress_final [r]), snd (progress_final [r]), (j_failures jr, j_errors jr, junit_classify r)).

Theorem C16_gen_reporters_match :
  forallb (fun e => match e, one_case_expect (fst e) with
                    | (_, (x, ok, (f, er, ch))), (x', ok', (f', er', ch')) =>
                        Z.eqb x x' && Bool.eqb ok ok' && Nat.eqb f f' && Nat.eqb er er' && junit_child_eqb ch ch'
                    end) gen_suite_reporters = true
  /\ forallb (fun r => existsb (fun e => proc_result_eqb r (fst e)) gen_suite_reporters)
       (map (fun s => Executed s false None) all_full_status ++ map AccessErr all_access_error ++ [InternalErr]) = true.
Proof. split; vm_compute; reflexivity. Qed.
Print Assumptions C16_gen_reporters_match.

(** Non-vacuity: a three-file hierarchy with a glob, read and processed in the documented order. *)
Example C16_example :
  let fs : fsys := [(1, SGood [RGlob [3; 2]] [RPlain (Some 10)]); (2, SGood [] [RPlain (Some 20); RPlain (Some 21)]);
                    (3, SGood [] [RGlob [31; 30]])]%N in
  (match read_root fs 1%N with inr h => processed h | inl _ => [] end) = [(2, 20); (2, 21); (3, 30); (3, 31); (1, 10)]%N
  /\ (exists e, read_root ((4, SGood [RPlain (Some 1)] []) :: fs)%N 4%N = inr e)
  /\ read_root [(1, SGood [RPlain (Some 2)] []); (2, SGood [RPlain (Some 1)] [])]%N 1%N = inl EDoubleInclusion.
Proof. vm_compute. split; [reflexivity|]. split; [eexists; reflexivity | reflexivity]. Qed.

(** *** The reader accepts a hierarchy exactly when it is declaratively valid — for ALL file systems
    and roots (the per-case comparison [sc_obs_invalid = negb (spec_valid …)] of [check_c16] is the
    same statement about the real program's observed verdict).  [spec_valid] (Spec/C16.v): unfold the
    reference graph from the root as a tree; every referenced file resolves and parses and no suite
    file occurs twice.  Proved at equal fuel by induction, relating the reader's [visited] set to the
    part of the tree already unfolded (Proofs/SuiteValid.v). *)
From Exactly Require Import Proofs.SuiteValid.

Theorem C16_reader_accepts_iff_valid : forall fs root,
  (exists h, read_root fs root = inr h) <-> spec_valid fs root = true.
Proof. exact reader_accepts_iff_valid. Qed.
Print Assumptions C16_reader_accepts_iff_valid.

(** The accepted hierarchy IS the unfolding: its suites in pre-order ([preorder_paths]: a suite, then
    the suites it lists, in listing order) are the unfolded tree, and every suite file occurs once. *)
Theorem C16_accepted_is_unfolding : forall fs root h,
  read_root fs root = inr h ->
  unfold (S (length fs)) fs root = Some (preorder_paths h) /\ NoDup (preorder_paths h).
Proof. exact accepted_is_unfolding. Qed.
Print Assumptions C16_accepted_is_unfolding.

Theorem C16_valid_is_accepted : forall fs root l,
  unfold (S (length fs)) fs root = Some l -> NoDup l ->
  exists h, read_root fs root = inr h /\ preorder_paths h = l.
Proof. exact valid_is_accepted. Qed.
Print Assumptions C16_valid_is_accepted.

(** INVALID_SUITE is reported exactly for the declaratively invalid hierarchies, with either reporter. *)
Theorem C16_run_invalid_iff_not_valid : forall rep fs root outcome,
  run_invalid (run_suite rep fs root outcome) = negb (spec_valid fs root).
Proof. exact run_invalid_iff_not_valid. Qed.
Print Assumptions C16_run_invalid_iff_not_valid.

(** The verdict of the specification does not depend on the fuel that totalises [unfold]: every fuel
    above the number of files gives the verdict of [spec_valid], so "invalid" always has a real reason
    (unresolvable / unparsable file, repeated file, cycle), never the fuel running out by accident. *)
Theorem C16_spec_valid_fuel_independent : forall fs root n,
  length fs < n ->
  match unfold n fs root with Some l => nodupb l | None => false end = spec_valid fs root.
Proof. exact spec_valid_fuel_independent. Qed.
Print Assumptions C16_spec_valid_fuel_independent.

(** The ORDER in which an accepted hierarchy's cases are processed is the declarative one: what
    [spec_processed] (Spec/C16.v) computes from the file system alone — per suite file, first what its
    sub-suites process (in the order the suites section lists them, glob matches sorted by path), then
    its own cases in the order the cases section lists them.  The property half of [check_c16] compares
    the real program's processed cases with [spec_processed], independently of the reader model. *)
Theorem C16_processing_order_is_declarative : forall fs root h,
  read_root fs root = inr h -> spec_processed (S (length fs)) fs root = Some (processed h).
Proof. exact processing_order_is_declarative. Qed.
Print Assumptions C16_processing_order_is_declarative.

(** "The check predicate holds on the model" (built by a separate pass; proofs in Proofs/PredOnModelC16.v): the boolean
    predicate the check evaluates on OBSERVED behaviour is true of the model's own output for all inputs, and
    correspondence on an input implies the property on that input. *)
From Exactly Require Import Proofs.PredOnModelC16.
(** For every reporter, file system, root and table of case outcomes: the check evaluated on the
    model's own observation ([obs_of_model_c16]: exit code, INVALID flag, final OK / ERROR identifier,
    processed and executed cases, junit counters and children of [run_suite] and the reporters) is
    (true, true).  Unconditional: the equivalence of the reader with [spec_valid]
    ([C16_reader_accepts_iff_valid] above) is used inside the proof. *)
Theorem C16_check_predicate_holds_on_model : forall rep fs root outcomes,
  check_c16 (obs_of_model_c16 rep fs root outcomes) = (true, true).
Proof. exact check_c16_on_model. Qed.
Print Assumptions C16_check_predicate_holds_on_model.

(** For EVERY case: when the correspondence half of the check is true, so is the property half
    (the correspondence half compares every field the property half reads, including the progress
    reporter's final identifier). *)
Theorem C16_correspondence_implies_property : forall c,
  fst (check_c16 c) = true -> snd (check_c16 c) = true.
Proof. exact corr_implies_property_c16. Qed.
Print Assumptions C16_correspondence_implies_property.
