(** Property C20 — built-in help agrees with what the program accepts; the manual has no dead links.
    Theorem statements only.

    HONEST LABEL.  [C20_same_source_same_names] (and the theorems about the help command line further down) hold for
    ALL inputs of the Gallina model.  The theorems whose statements mention [live] are FINITE checks: [live] is the
    inventory in Gen/C20_inventory.v that harness/c20.py regenerates from the running program on every run; the
    kernel decides them by [vm_compute] and the bound of every quantifier is that inventory, visible in the
    statement.  The harness could decide the same finite facts; the gain is one explicit statement re-checked against
    regenerated data. *)
From Coq Require Import List Bool String ZArith.
From Exactly Require Import Lib.Harness Model.Help Spec.C20 Proofs.HelpBasics Proofs.HelpParse Proofs.HelpTargets Proofs.HelpLive Gen.C20_inventory.
Import ListNotations.
Local Open Scope string_scope.

(** The structural reason.  For EVERY list of (name, setup constructor) — the argument of
    instruction_set_from_name_and_setup_constructor_list — whose constructors give the documentation the name they
    are registered under: the names the help lists (SectionInstructionSet built by _phase_instruction_set_help from
    the dictionary's values) are exactly the names the dictionary parser does not call unknown. *)
Theorem C20_same_source_same_names :
  forall (parser doc : Type) (doc_name : doc -> string) (l : @ctor_list parser doc),
    name_faithful doc_name l ->
    forall x, In x (listed_names doc_name (instruction_set_from l)) <-> parser_accepts (instruction_set_from l) x = true.
Proof. exact @same_source_same_names. Qed.
Print Assumptions C20_same_source_same_names.

(** The hypothesis is needed: a constructor that ignores the name it is registered under separates help and parser. *)
Example C20_unfaithful_constructor_separates :
  let l : @ctor_list unit string := [("env", fun _ => (tt, "environ"))] in
  parser_accepts (instruction_set_from l) "env" = true /\ listed_names (fun d => d) (instruction_set_from l) = ["environ"].
Proof. vm_compute. split; reflexivity. Qed.

(** The names the help can be asked about (keys of name_2_description) are the accepted ones as well, and the accepted
    names are exactly those in the list the program was built from. *)
Theorem C20_same_source_help_keys :
  forall (parser doc : Type) (doc_name : doc -> string) (l : @ctor_list parser doc),
    name_faithful doc_name l ->
    forall x, In x (help_keys doc_name (instruction_set_from l)) <-> parser_accepts (instruction_set_from l) x = true.
Proof. exact @same_source_help_keys. Qed.
Print Assumptions C20_same_source_help_keys.

Theorem C20_accepted_iff_registered :
  forall (parser doc : Type) (l : @ctor_list parser doc) x,
    parser_accepts (instruction_set_from l) x = true <-> In x (map fst l).
Proof. exact @accepted_iff_registered. Qed.
Print Assumptions C20_accepted_iff_registered.

(** value_lookup.lookup (used for `help PHASE INSTRUCTION`, `help suite SECTION INSTRUCTION`, `help TYPE ENTITY`), for
    EVERY key list and pattern: a key is found as an exact match by its own name; whatever is found is one of the keys;
    "no match" is answered only if no key contains the pattern (case-insensitively). *)
Theorem C20_help_finds_every_documented_name : forall name keys,
  In name keys -> exists k, lookup name keys = Found k true /\ In k keys /\ upper k = upper name.
Proof. exact lookup_finds_own_name. Qed.
Print Assumptions C20_help_finds_every_documented_name.

Theorem C20_help_finds_only_documented_names : forall pattern keys k e, lookup pattern keys = Found k e -> In k keys.
Proof. exact lookup_found_is_key. Qed.
Print Assumptions C20_help_finds_only_documented_names.

Theorem C20_help_no_match_iff : forall pattern keys,
  lookup pattern keys = NoMatch <->
  forall k, In k keys -> String.eqb (upper pattern) (upper k) = false /\ contains (upper pattern) (upper k) = false.
Proof. exact lookup_nomatch_iff. Qed.
Print Assumptions C20_help_no_match_iff.

(** The help argument parser (argument_parsing.Parser.apply), for EVERY help structure in which no phase name, entity
    type or reserved word shadows another ([well_named], decidable): each command line that names a phase, an
    instruction listed for a phase, an entity type, a listed entity (its name given as one or several arguments), a
    suite section or an instruction listed for a suite section is parsed to a request, never to "invalid usage". *)
Theorem C20_help_reaches_every_entry : forall kw a argv,
  well_named kw a = true -> names_entry kw a argv -> exists r, parse_help kw a argv = POk r.
Proof. exact help_reaches_every_entry_wn. Qed.
Print Assumptions C20_help_reaches_every_entry.

(** ... and the help structure of the live program is well named, so this applies to it. *)
Theorem C20_live_help_reaches_every_entry : forall argv,
  names_entry (inv_kw live) (app_of live) argv -> exists r, parse_help (inv_kw live) (app_of live) argv = POk r.
Proof. intros argv. apply help_reaches_every_entry_wn. vm_compute. reflexivity. Qed.
Print Assumptions C20_live_help_reaches_every_entry.

(** (T) The modelled derivation, applied to the parser dictionaries observed in the running program, reproduces the
    help lists observed in the running program, the model of the dictionary parser agrees with the running parser on
    every candidate name, and the model of the help argument parser predicts the exit code of every enumerated run. *)
Theorem C20_live_model_matches_program : inventory_tieb live = true.
Proof. exact live_tie. Qed.
Print Assumptions C20_live_model_matches_program.

(** The hypothesis of [C20_same_source_same_names] holds for every parser dictionary of the live program (each value's
    documentation carries the key it is registered under), hence, BY THAT THEOREM, help list = accepted names for the
    modelled derivation on the live dictionaries. *)
Theorem C20_live_constructors_name_faithful :
  (forall p, In p (inv_phases live) -> forall k d, In (k, d) (pi_dict p) -> d = k) /\
  (forall s, In s (inv_suite_sections live) -> forall k d, In (k, d) (si_own_dict s) -> d = k).
Proof. exact live_constructors_name_faithful. Qed.
Print Assumptions C20_live_constructors_name_faithful.

Theorem C20_live_same_source : forall p, In p (inv_phases live) ->
  forall x, In x (listed_names obs_doc_name (obs_dict (pi_dict p))) <-> parser_accepts (obs_dict (pi_dict p)) x = true.
Proof. exact live_same_source. Qed.
Print Assumptions C20_live_same_source.

(** Per phase, suite section and entity type of the live program: accepted = documented (and the rendered
    `exactly help` lists are the documented ones); every entity type of the program has a help configuration. *)
Theorem C20_accepted_eq_documented :
  (forall p, In p (inv_phases live) ->
     agree (pi_accepted p) (pi_help_struct p) /\ agree (pi_help_struct p) (pi_help_rendered p)) /\
  (forall s, In s (inv_suite_sections live) -> agree (si_accepted s) (suite_documented live s)) /\
  (forall e, In e (inv_entities live) ->
     agree (ei_accepted e) (ei_help_struct e) /\ agree (ei_help_struct e) (ei_help_rendered e)) /\
  (forall t, In t (inv_entity_types_program live) -> exists e, In e (inv_entities live) /\ ei_type e = t).
Proof. exact live_accepted_eq_documented. Qed.
Print Assumptions C20_accepted_eq_documented.

(** The same in every way of running a test case that the inventory probes (`exactly CASE` is the base; `--act`, `--keep`,
    `--suite SUITE CASE`, exactly.suite in the directory of the case, `exactly suite SUITE` listing the case, `exactly symbol
    CASE`): of the names probed in that way (a complete use of every instruction / type / actor keyword / configuration
    parameter that passes stand-alone; every builtin symbol and perturbations of it) exactly the documented ones are accepted.
    The "ways" also include the documented optional instruction description in front of the name (same line, tight, and
    on earlier lines with blank / comment lines between) in every test-case phase and every suite section. *)
Theorem C20_accepted_in_every_way_of_running :
  (forall p m, In p (inv_phases live) -> In m (pi_modes p) -> mode_ok (pi_help_struct p) m) /\
  (forall e m, In e (inv_entities live) -> In m (ei_modes e) -> mode_ok (ei_help_struct e) m) /\
  (forall s m, In s (inv_suite_sections live) -> In m (si_modes s) -> mode_ok (suite_documented live s) m).
Proof. exact live_accepted_in_every_way_of_running. Qed.
Print Assumptions C20_accepted_in_every_way_of_running.

(** Every enumerated request for something that exists exited 0 with output and without an escaping exception, and
    the enumeration covers every accepted instruction of every phase / suite section, every accepted entity, every
    phase and every entity type. *)
Theorem C20_every_help_request_succeeds :
  (forall r, In r (inv_requests live) -> hr_expected_valid r = true -> displayed_successfully r) /\
  (forall p n, In p (inv_phases live) -> In n (pi_accepted p) ->
     has_successful_run (inv_requests live) (request_for_instruction (pi_name p) n)) /\
  (forall s n, In s (inv_suite_sections live) -> In n (si_accepted s) ->
     has_successful_run (inv_requests live) (request_for_suite_instruction (inv_kw live) (si_name s) n) \/
     exists ph, In ph (si_corresponds s) /\ has_successful_run (inv_requests live) (request_for_instruction ph n)) /\
  (forall e n, In e (inv_entities live) -> In n (ei_accepted e) ->
     has_successful_run (inv_requests live) (request_for_entity (ei_type e) n)) /\
  (forall p, In p (inv_phases live) -> has_successful_run (inv_requests live) [pi_name p]) /\
  (forall e, In e (inv_entities live) -> has_successful_run (inv_requests live) [ei_type e]).
Proof. exact live_every_help_request_succeeds. Qed.
Print Assumptions C20_every_help_request_succeeds.

(** Every internal href of `exactly help htmldoc` has exactly one element carrying that id. *)
Theorem C20_every_href_has_unique_target :
  forall h, In h (inv_html_hrefs live) -> count_occ string_dec (inv_html_ids live) h = 1.
Proof. exact live_every_href_has_unique_target. Qed.
Print Assumptions C20_every_href_has_unique_target.

(** Why anchors are unique, for EVERY pair of cross-reference targets: HtmlTargetRenderer gives different targets
    different anchors, provided the names that precede another dotted component contain no '.'; the only collisions
    are two entities of one type whose names differ only in ' ' versus '-'. *)
Theorem C20_html_target_injective : forall x y,
  ref_dotfree x = true -> ref_dotfree y = true -> html_target x = html_target y -> same_anchor_class x y.
Proof. exact html_target_injective. Qed.
Print Assumptions C20_html_target_injective.

(** The property as specified in Spec/C20.v, on the live inventory. *)
Theorem C20_holds_on_live_inventory : C20_holds live.
Proof. exact live_holds. Qed.
Print Assumptions C20_holds_on_live_inventory.

(** Non-vacuity: the inventory is not empty where it matters. *)
Example C20_inventory_not_empty :
  Nat.leb 5 (List.length (inv_phases live)) = true /\
  Nat.leb 8 (List.length (inv_entities live)) = true /\
  Nat.leb 100 (List.length (inv_html_hrefs live)) = true /\
  Nat.leb 100 (List.length (inv_requests live)) = true /\
  forallb (fun p => negb (pi_has_dict p) || Nat.leb 1 (List.length (pi_accepted p))) (inv_phases live) = true /\
  forallb (fun e => Nat.leb 1 (List.length (ei_accepted e))) (inv_entities live) = true /\
  (* some entity type (the builtin symbols) is probed, with perturbed names too, in 6 further ways of running a case *)
  existsb (fun e => Nat.leb 6 (List.length (ei_modes e)) &&
                    forallb (fun m => subsetb (ei_help_struct e) (mo_accepted m) && Nat.leb 20 (List.length (mo_probed m)))
                            (ei_modes e)) (inv_entities live) = true /\
  forallb (fun p => negb (pi_has_dict p) || (Nat.leb 6 (List.length (pi_modes p))
                     && forallb (fun m => Nat.leb 1 (List.length (mo_probed m))) (pi_modes p))) (inv_phases live) = true.
Proof. vm_compute. repeat split; reflexivity. Qed.
