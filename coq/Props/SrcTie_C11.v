(** * Source tie for property C11 (settings persist forward): InstructionSettings (timeout / environ; None = not set),
    SetupSettingsBuilder, and which environment(s) an [env] instruction modifies in which phase, as translated from the
    current Python source text (Gen/Src_Settings.v, regenerated on every check), against Model/Settings.v. *)
From Coq Require Import ZArith NArith List Bool String.
From Exactly Require Import Lib.PyVal Model.Settings Gen.Src_Settings Proofs.SrcTieSettings.
Import ListNotations.
Local Open Scope Z_scope.

(** [encE]: any encoding of an optional environment; [g]: the default-environ getter *)
Theorem SrcTie_C11_set_timeout : forall (encE : option env -> pyval) (g : pyval),
  (forall e, py_ok (encE e) = true) -> py_ok g = true ->
  forall default dirs in_setup t s s',
  step default dirs in_setup (OTimeout t) s = SOk s' ->
  py_instruction_settings_InstructionSettings_set_timeout (enc_settings encE g s) (enc_timeout t) = enc_settings encE g s'.
Proof. exact tie_set_timeout. Qed.
Print Assumptions SrcTie_C11_set_timeout.

Theorem SrcTie_C11_settings_getters : forall (encE : option env -> pyval) (g : pyval),
  (forall e, py_ok (encE e) = true) -> py_ok g = true ->
  forall s,
  py_instruction_settings_InstructionSettings_timeout_in_seconds (enc_settings encE g s) = enc_timeout (st_timeout s) /\
  py_instruction_settings_InstructionSettings_environ (enc_settings encE g s) = encE (st_nonact s) /\
  py_attr_default_environ_getter (enc_settings encE g s) = g.
Proof. exact tie_settings_getters. Qed.
Print Assumptions SrcTie_C11_settings_getters.

Theorem SrcTie_C11_set_environ : forall (encE : option env -> pyval) (g : pyval),
  (forall e, py_ok (encE e) = true) -> py_ok g = true ->
  forall e s,
  py_instruction_settings_InstructionSettings_set_environ (enc_settings encE g s) (encE e)
  = enc_settings encE g (State e (st_act s) (st_timeout s) (st_cwd s)).
Proof. exact tie_set_environ. Qed.
Print Assumptions SrcTie_C11_set_environ.

Theorem SrcTie_C11_settings_constructor : forall (encE : option env -> pyval) (g : pyval),
  (forall e, py_ok (encE e) = true) -> py_ok g = true ->
  forall s,
  py_instruction_settings_InstructionSettings (encE (st_nonact s)) g (enc_timeout (st_timeout s)) = enc_settings encE g s.
Proof. exact tie_settings_ctor. Qed.
Print Assumptions SrcTie_C11_settings_constructor.

(** the appliers chosen by [_resolve_applier_factory] + [_resolve_applier] are [appliers in_setup t] of the model:
    act first, then non-act; outside [setup] the act applier is the empty sequence *)
Theorem SrcTie_C11_resolve_applier : forall settings ctor sps modifier,
  py_ok settings = true -> py_ok ctor = true -> py_ok sps = true -> sps <> VNone ->
  forall in_setup t,
  exists l : list aobj,
    py_impl_TheInstructionEmbryo__resolve_applier
      (VObj "impl.TheInstructionEmbryo"%string [enc_target t; modifier]) (enc_factory settings ctor sps in_setup)
    = VObj "impl.SequenceOfAppliers"%string [VList (map (enc_aobj settings ctor sps) l)]
    /\ flat_map leaf l = appliers in_setup t.
Proof. exact tie_resolve_applier. Qed.
Print Assumptions SrcTie_C11_resolve_applier.

Theorem SrcTie_C11_setup_settings_builder : forall stdin e, py_ok stdin = true -> py_ok e = true ->
  py_attr_environ (py_settings_builder_SetupSettingsBuilder stdin e) = e /\
  py_attr_environ py_settings_builder_SetupSettingsBuilder_new_empty = VNone.
Proof. exact tie_setup_settings_builder. Qed.
Print Assumptions SrcTie_C11_setup_settings_builder.

Theorem SrcTie_C11_sds_dir_names :
  (exists s, py_sds_SUB_DIRECTORY__ACT = VStr s /\ [PyValLemmas.str_codes s] = sds_act) /\
  (exists s, py_sds_SUB_DIRECTORY__TMP_USER = VStr s /\ [PyValLemmas.str_codes s] = sds_tmp) /\
  (exists s, py_sds_SUB_DIRECTORY__RESULT = VStr s /\ [PyValLemmas.str_codes s] = sds_result).
Proof. exact tie_sds_dir_names. Qed.
Print Assumptions SrcTie_C11_sds_dir_names.
