(** Property C06 — expression grammar: precedence, associativity, parentheses and layout.
    Theorem statements only.  Model: Model/Expr.v (the parser [_Parser] of expression/parser.py with
    the TokenParser primitives it uses, the combinators of combinator_matchers.py, sequence.py);
    specification: Spec/C06.v (decorated trees [dexpr], [render], [erase], [wf_d], [lay] = permitted
    line breaks, [flatten], [sem], [evaluated], [pipe_sem]).
    [parse_full g true] / [parse_simple g true] is the parser as it is (since commit 24bf1ff only ")"
    closes a parenthesis); [... g false] is the parser before that repair. *)
From Coq Require Import NArith List Bool.
From Exactly Require Import Lib.Harness Model.Expr Spec.C06 Proofs.ExprEval Proofs.ExprParse Proofs.ExprSound
  Gen.C06_grammar.
Import ListNotations.
Local Open Scope N_scope.

(** ** Reading *)

(** Every permitted rendering of every tree — any redundant parentheses, any permitted line
    breaks ([rendering_ok] = [wf_d] and [lay]), whatever admissible tokens follow — is read
    completely, as that tree modulo [flatten].  For every grammar with one operator per level
    ([wfg]), any number of levels; for the full and the simple parser, with and without
    must_be_on_current_line. *)
Theorem C06_parse_complete :
  forall (g : grammar) (ops : list N) (strict : bool),
    wfg g ops ->
    forall (simple must_cur : bool) (d : dexpr) (follow : list tok),
      rendering_ok g simple must_cur d = true ->
      follow_ok g (if simple then n_levels g else O) follow = true ->
      exists e,
        (if simple then parse_simple g strict must_cur (render d ++ follow)
         else parse_full g strict must_cur (render d ++ follow)) = Ok e follow
        /\ flatten e = flatten (erase d).
Proof. exact parse_complete. Qed.
Print Assumptions C06_parse_complete.

(** Contexts that restrict an argument to a SIMPLE expression ([line-num IM], [filter LM],
    [-selection FM FSM], ...): the simple parser reads the argument and stops, WHATEVER follows — in
    [CTX ARG op REST] the operator and REST are left to the outer parser, so the structure is
    [( CTX ARG ) op REST]. *)
Theorem C06_simple_argument_ends_before_operator :
  forall (g : grammar) (ops : list N) (strict : bool),
    wfg g ops ->
    forall (d : dexpr) (post : list tok),
      rendering_ok g true false d = true ->
      exists e, parse_simple g strict false (render d ++ post) = Ok e post /\ flatten e = flatten (erase d).
Proof. exact simple_argument_ends. Qed.
Print Assumptions C06_simple_argument_ends_before_operator.

(** Everything the parser accepts is a rendering: the consumed tokens are [render d] of a
    well-formed decorated tree [d] whose tree is, modulo [flatten], the structure that was built.
    Hence a malformed expression (one that is no rendering of any tree: unbalanced parentheses,
    missing or doubled operators or operands, quoted operators, ...) is an error, or the parse ends
    before the offending token, which stays in [rest] for the caller to reject; it is never read as
    some other expression. *)
Theorem C06_parse_sound :
  forall (g : grammar) (ops : list N),
    wfg g ops ->
    forall (simple must_cur : bool) (ts : list tok) (e : expr) (rest : list tok),
      (if simple then parse_simple g true must_cur ts else parse_full g true must_cur ts) = Ok e rest ->
      exists d, ts = render d ++ rest
                /\ wf_d g (if simple then n_levels g else O) d = true
                /\ flatten (erase d) = flatten e.
Proof. exact parse_sound. Qed.
Print Assumptions C06_parse_sound.

(** The parser never runs out of the fuel the model gives it (the model is total on all inputs). *)
Theorem C06_parse_total :
  forall (g : grammar) (strict simple must_cur : bool) (ts : list tok),
    (if simple then parse_simple g strict must_cur ts else parse_full g strict must_cur ts) <> OutOfFuel.
Proof. exact parse_total. Qed.
Print Assumptions C06_parse_total.

(** Before the repair (commit 24bf1ff) the soundness statement was false: an infix operator was
    accepted in place of ")".  [ ( a || b \n && && c ] was read as [( a || b ) && c] although no
    well-formed decorated tree renders to it (its parentheses are not balanced). *)
Theorem C06_prefix_parse_sound_refuted :
  exists (ts : list tok) (e : expr),
    parse_full matcher_grammar false false ts = Ok e [] /\
    (forall d k, wf_d matcher_grammar k d = true -> render d <> ts) /\
    parse_full matcher_grammar true false ts = Err ENotClose.
Proof. exact prefix_unsound. Qed.
Print Assumptions C06_prefix_parse_sound_refuted.

(** Redundant parentheses and permitted line breaks change nothing. *)
Theorem C06_redundant_parens_and_layout_irrelevant :
  forall (g : grammar) (ops : list N) (strict : bool),
    wfg g ops ->
    forall (simple mc1 mc2 : bool) (d1 d2 : dexpr) (f1 f2 : list tok),
      rendering_ok g simple mc1 d1 = true -> rendering_ok g simple mc2 d2 = true ->
      follow_ok g (if simple then n_levels g else O) f1 = true ->
      follow_ok g (if simple then n_levels g else O) f2 = true ->
      flatten (erase d1) = flatten (erase d2) ->
      exists e1 e2,
        (if simple then parse_simple g strict mc1 (render d1 ++ f1) else parse_full g strict mc1 (render d1 ++ f1)) = Ok e1 f1 /\
        (if simple then parse_simple g strict mc2 (render d2 ++ f2) else parse_full g strict mc2 (render d2 ++ f2)) = Ok e2 f2 /\
        flatten e1 = flatten e2.
Proof. exact layout_irrelevant. Qed.
Print Assumptions C06_redundant_parens_and_layout_irrelevant.

(** A token sequence is a permitted rendering of at most one tree. *)
Theorem C06_unambiguous :
  forall (g : grammar) (ops : list N),
    wfg g ops ->
    forall (simple mc : bool) (d1 d2 : dexpr),
      rendering_ok g simple mc d1 = true -> rendering_ok g simple mc d2 = true ->
      render d1 = render d2 -> flatten (erase d1) = flatten (erase d2).
Proof. exact rendering_unambiguous. Qed.
Print Assumptions C06_unambiguous.

(** Precedence, for any number of levels: an operator of a higher level binds tighter than one of a
    lower level, on either side; a prefix operator binds tighter than every infix operator;
    parentheses override. *)
Theorem C06_precedence :
  forall (g : grammar) (ops : list N) (strict : bool),
    wfg g ops ->
    forall (lo hi pre a b c : N) (i j : nat),
      level_of g lo = Some i -> level_of g hi = Some j -> (i < j)%nat -> In pre (g_prefix g) ->
      is_leaf_word g a = true -> is_leaf_word g b = true -> is_leaf_word g c = true ->
      let w := TW false in
      (exists e, parse_full g strict false [w a; w lo; w b; w hi; w c] = Ok e []
                 /\ flatten e = EInf lo [ELeaf a; EInf hi [ELeaf b; ELeaf c]]) /\
      (exists e, parse_full g strict false [w a; w hi; w b; w lo; w c] = Ok e []
                 /\ flatten e = EInf lo [EInf hi [ELeaf a; ELeaf b]; ELeaf c]) /\
      (exists e, parse_full g strict false [w pre; w a; w hi; w b] = Ok e []
                 /\ flatten e = EInf hi [EPre pre (ELeaf a); ELeaf b]) /\
      (exists e, parse_full g strict false [w W_LP; w a; w lo; w b; w W_RP; w hi; w c] = Ok e []
                 /\ flatten e = EInf hi [EInf lo [ELeaf a; ELeaf b]; ELeaf c]).
Proof. exact precedence. Qed.
Print Assumptions C06_precedence.

(** ** Value *)

(** Operands of && and || are evaluated lazily from left to right: the value of the trace built by
    [Negation / Conjunction / Disjunction.matches_w_trace] is the boolean meaning of the expression,
    and the operands that were evaluated are, in order, exactly the shortest decisive prefixes.
    For every expression whose operator nodes have >= 1 operand (the parser builds >= 2). *)
Theorem C06_lazy_left_to_right :
  forall (lv : N -> bool) (e : expr),
    operands_nonempty e = true ->
    tr_value (eval lv e) = sem lv e /\ trace_leaves (eval lv e) = evaluated lv e.
Proof. exact lazy_left_to_right. Qed.
Print Assumptions C06_lazy_left_to_right.

(** Trees that are equal modulo [flatten] have the same value, the same lazily evaluated operands in
    the same order, and the same leaves in the same order (so "modulo flatten" loses nothing). *)
Theorem C06_flatten_preserves_eval_trace :
  forall (lv : N -> bool) (e1 e2 : expr),
    flatten e1 = flatten e2 ->
    sem lv e1 = sem lv e2 /\ evaluated lv e1 = evaluated lv e2 /\ leaves e1 = leaves e2.
Proof. exact flatten_preserves_eval. Qed.
Print Assumptions C06_flatten_preserves_eval_trace.

(** "|" composes left to right: [SequenceStringTransformer.transform] of any tree of sequences
    applies the leaf transformers one after the other in order of appearance (provided a leaf whose
    [is_identity_transformer] is true is the identity). *)
Theorem C06_pipe_left_to_right :
  forall (text : Type) (lf : N -> text -> text) (lid : N -> bool),
    (forall w, lid w = true -> forall x, lf w x = x) ->
    forall (e : expr) (x : text),
      transform text lf lid e x = fold_left (fun model w => lf w model) (leaves e) x.
Proof. exact transform_pipe. Qed.
Print Assumptions C06_pipe_left_to_right.

(** ** (T) The operator tables of the six host types, regenerated from the live [Grammar] objects on
    every run, are the two grammars of the model; and the expressions their [mk_expression]
    functions build have the truth tables of [sem]. *)
Definition host_table_ok (row : nat * (bool * list (list N) * list N)) : bool :=
  let '(_, (is_matcher, levels, prefix)) := row in
  let g := if is_matcher then matcher_grammar else transformer_grammar in
  list_eqb (list_eqb N.eqb) levels (g_levels g) && list_eqb N.eqb prefix (g_prefix g).

Theorem C06_Gen_grammar_levels :
  map fst gen_grammars = [0; 1; 2; 3; 4; 5]%nat /\
  map (fun r => fst (fst (snd r))) gen_grammars = [true; true; true; true; true; false] /\
  forall row, In row gen_grammars -> host_table_ok row = true.
Proof.
  split; [vm_compute; reflexivity|]. split; [vm_compute; reflexivity|].
  apply forallb_forall. vm_compute. reflexivity.
Qed.
Print Assumptions C06_Gen_grammar_levels.

Definition truth_row_ok (row : nat * N * list bool * bool) : bool :=
  let '(_, op, operands, value) := row in
  let leaf (b : bool) := ELeaf (if b then 100 else 101) in
  let lv (w : N) := w =? 100 in
  Bool.eqb value
    (sem lv (if op =? W_NOT then EPre op (leaf (hd true operands)) else EInf op (map leaf operands))).

Theorem C06_Gen_operator_truth :
  (40 <= length gen_truth)%nat /\ forall row, In row gen_truth -> truth_row_ok row = true.
Proof.
  split; [vm_compute; repeat constructor|]. apply forallb_forall. vm_compute. reflexivity.
Qed.
Print Assumptions C06_Gen_operator_truth.

(** (T) every context of the running program that takes a simple expression as an argument (probed
    through the real parsers with [CTX a op b]) ends the argument before the operator. *)
Theorem C06_Gen_simple_contexts :
  (30 <= length gen_simple_contexts)%nat /\
  forall row, In row gen_simple_contexts -> snd row = true.
Proof.
  split; [vm_compute; repeat constructor|].
  assert (H : forallb (fun row : nat * N * bool => snd row) gen_simple_contexts = true) by (vm_compute; reflexivity).
  intros row Hin. exact (proj1 (forallb_forall _ _) H row Hin).
Qed.
Print Assumptions C06_Gen_simple_contexts.

(** ** Non-vacuity *)
Example C06_example_layout :
  let w := TW false in
  (* ( a \n || b && c ) \n && ! \n d   on the matcher grammar *)
  let ts := [w W_LP; w 100; TNL; w W_OR; w 101; w W_AND; w 102; w W_RP; TNL; w W_AND; w W_NOT; TNL; w 103] in
  let d := DInf W_AND (DPar 0 (DInf W_OR (DWord 0 100) [(1%nat, DInf W_AND (DWord 0 101) [(O, DWord 0 102)])]) 0)
                [(1%nat, DPre 0 W_NOT (DWord 1 103))] in
  render d = ts /\ rendering_ok matcher_grammar false true d = true /\
  parse_full matcher_grammar true true ts
  = Ok (EInf W_AND [EInf W_OR [ELeaf 100; EInf W_AND [ELeaf 101; ELeaf 102]]; EPre W_NOT (ELeaf 103)]) [].
Proof. vm_compute. repeat split; reflexivity. Qed.

Example C06_example_unpermitted_break :
  let w := TW false in
  (* a \n || b : the expression ends at the line end;  ( a || b \n && c ) : syntax error *)
  parse_full matcher_grammar true false [w 100; TNL; w W_OR; w 101] = Ok (ELeaf 100) [TNL; w W_OR; w 101] /\
  parse_full matcher_grammar true false [w W_LP; w 100; w W_OR; w 101; TNL; w W_AND; w 102; w W_RP] = Err ENotClose /\
  rendering_ok matcher_grammar false false (DInf W_OR (DWord 0 100) [(1%nat, DWord 0 101)]) = false.
Proof. vm_compute. repeat split; reflexivity. Qed.

Example C06_example_lazy :
  (* false && X  evaluates only the first operand;  true && X  both *)
  trace_leaves (eval (fun w => w =? 100) (EInf W_AND [ELeaf 101; ELeaf 100])) = [101] /\
  trace_leaves (eval (fun w => w =? 100) (EInf W_AND [ELeaf 100; ELeaf 101])) = [100; 101] /\
  trace_leaves (eval (fun w => w =? 100) (EInf W_OR [ELeaf 100; ELeaf 101])) = [100].
Proof. vm_compute. repeat split; reflexivity. Qed.
