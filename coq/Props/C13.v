(** Property C13 — line selection by [filter] is exact.  Theorem statements only. *)
From Coq Require Import ZArith List Bool.
From Exactly Require Import Model.Interval Proofs.IntervalSound Proofs.FilterExact.
Import ListNotations.
Local Open Scope Z_scope.

(** The (pos, inv) pair computed for an integer-matcher expression is sound: every integer the
    expression accepts lies in [pos], every integer it rejects lies in [inv].  For all
    expressions over comparisons, unknown matchers, constants, !, && and ||. *)
Theorem C13_int_interval_sound :
  forall (oracle : nat -> Z -> bool) (m : imatcher) (x : Z),
    Sound (imatches oracle m x) (interval_of_imatcher true m) x.
Proof. exact int_interval_sound. Qed.
Print Assumptions C13_int_interval_sound.

(** The read-ahead interval of a line matcher covers every line number (>= 1) it accepts. *)
Theorem C13_line_interval_pos_sound :
  forall (line : Type) (io : nat -> Z -> bool) (lo : nat -> Z -> line -> bool) (m : lmatcher) (n : Z) (l : line),
    1 <= n -> lmatches line io lo m n l = true -> mem n (pos (interval_of_lmatcher true m)) = true.
Proof. exact @line_interval_pos_sound. Qed.
Print Assumptions C13_line_interval_pos_sound.

(** The reader that skips [lower-1] lines and stops at [upper] yields exactly the numbered lines
    inside a well-formed interval. *)
Theorem C13_reader_exact :
  forall (line : Type) (i : itv) (ls : list line),
    wf_itv i -> read_interval line i ls = filter (fun p => mem (fst p) i) (enumerate_from line 1 ls).
Proof. exact read_interval_spec. Qed.
Print Assumptions C13_reader_exact.

(** [filter LINE-MATCHER] (read-ahead analysis + reader + per-line test) keeps exactly the lines
    the matcher accepts when applied to each line with its 1-based number: texts of any length,
    expressions of any depth. *)
Theorem C13_filter_exact :
  forall (line : Type) (io : nat -> Z -> bool) (lo : nat -> Z -> line -> bool) (m : lmatcher) (ls : list line),
    filter_impl line io lo true m ls = filter_spec line io lo m ls.
Proof. exact @filter_exact. Qed.
Print Assumptions C13_filter_exact.

(** The analysis as it was before the repair (commit "fix: interval of negated &&/|| ...") is
    unsound: [( <= 2 || >= 10 )] rejects 5, but 5 is not in its inversion, so
    [filter ! line-num ( <= 2 || >= 10 )] dropped every line. *)
Definition witness_im : imatcher := MDisj (MLeaf (ICmp CLe 2)) [MLeaf (ICmp CGe 10)].
Theorem C13_prefix_int_interval_sound_refuted :
  exists (m : imatcher) (x : Z),
    imatches (fun _ _ => false) m x = false /\ mem x (inv (interval_of_imatcher false m)) = false.
Proof. exists witness_im, 5. vm_compute. split; reflexivity. Qed.
Print Assumptions C13_prefix_int_interval_sound_refuted.

Theorem C13_prefix_filter_exact_refuted :
  exists (m : lmatcher) (ls : list nat),
    filter_impl nat (fun _ _ => false) (fun _ _ _ => false) false m ls
    <> filter_spec nat (fun _ _ => false) (fun _ _ _ => false) m ls.
Proof.
  exists (MNeg (MLeaf (LNum witness_im))), [1;2;3;4;5;6;7;8;9;10;11]%nat. vm_compute. discriminate.
Qed.
Print Assumptions C13_prefix_filter_exact_refuted.

(** Non-vacuity: a matcher with a non-trivial interval, lines inside and outside of it. *)
Example C13_example :
  let m : lmatcher := MConj (MLeaf (LNum (MNeg witness_im))) [MLeaf (LUnknown 0)] in
  pos (interval_of_lmatcher true m) = NE (Some 3) (Some 9) /\
  filter_impl nat (fun _ _ => false) (fun _ _ l => Nat.even l) true m [1;2;3;4;5;6;7;8;9;10;11]%nat = [4;6;8]%nat.
Proof. vm_compute. split; reflexivity. Qed.

(** Second half of the property: [filter -line-nums RANGE...] — statements in Props/C13b.v
    (model Model/LineNums.v); their assumptions are printed here so that the check of C13 covers both halves. *)
From Exactly Require Import Props.C13b.
Print Assumptions C13_in_ranges_iff.
Print Assumptions C13_merge_preserves_set.
Print Assumptions C13_merge_invariant.
Print Assumptions C13_partition_correct.
Print Assumptions C13_translate_neg_preserves_set.
Print Assumptions C13_segments_walk_correct.
Print Assumptions C13_single_range_correct.
Print Assumptions C13_multiple_ranges_correct.
Print Assumptions C13_line_nums_exact.

(** "The check predicate holds on the model" (built by a separate pass; proofs in Proofs/PredOnModelC13.v): the boolean
    predicate the check evaluates on OBSERVED behaviour is true of the model's own output for all inputs, and
    correspondence on an input implies the property on that input. *)
From Exactly Require Import Lib.Harness Model.Interval Spec.C13 Proofs.PredOnModelC13.
(** ** C13 part 1.  Every matcher expression, every list of probes / every text, every oracle table. *)
Theorem C13_icase_predicate_holds_on_model : forall m probes, check_icase (icase_of_model m probes) = (true, true).
Proof. exact check_icase_on_model. Qed.
Print Assumptions C13_icase_predicate_holds_on_model.

Theorem C13_icase_correspondence_implies_property : forall c, fst (check_icase c) = true -> snd (check_icase c) = true.
Proof. exact corr_implies_property_icase. Qed.
Print Assumptions C13_icase_correspondence_implies_property.

Theorem C13_lcase_predicate_holds_on_model : forall m lines otab, check_lcase (lcase_of_model m lines otab) = (true, true).
Proof. exact check_lcase_on_model. Qed.
Print Assumptions C13_lcase_predicate_holds_on_model.

Theorem C13_lcase_correspondence_implies_property : forall c, fst (check_lcase c) = true -> snd (check_lcase c) = true.
Proof. exact corr_implies_property_lcase. Qed.
Print Assumptions C13_lcase_correspondence_implies_property.

