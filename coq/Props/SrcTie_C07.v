(** * Source tie for property C07 (test-case file structure): the escape of a leading [\[] / [\\] in [act] source lines. *)
From Coq Require Import NArith List String.
From Exactly Require Import Lib.PyVal Model.Doc Gen.Src_ActSource Proofs.PyValLemmas Proofs.SrcTieActSource.
Import ListNotations.

(** for every str [s] of characters 0..255 *)
Theorem SrcTie_C07_un_escape_at_beginning_of_line : forall s : string,
  exists s', py_act_phase_source_parser__un_escape_at_beginning_of_line (VStr s) = VStr s'
             /\ str_codes s' = un_escape_at_beginning (str_codes s).
Proof. exact tie_un_escape_at_beginning_of_line. Qed.
Print Assumptions SrcTie_C07_un_escape_at_beginning_of_line.
