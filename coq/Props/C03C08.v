(** C03 x C08 - an invalid test case has no effects, for the symbol-related classes of defects.

    C03 is proved for the scheduler (Model/Exec.v), where an instruction is an opaque [stepk -> beh]:
    [C03_invalid_no_effect_partial] needs "some step of the validation block fails".  For symbols that
    premise is supplied by C08's model (Model/Symbols.v): [to_testcase] gives every instruction of a
    symbol-level test case the behaviour at step validate-symbols that [validate_all] (the mirror of
    SymbolsValidator.validate / validate_symbol_usages: setup, act, before-assert, assert, cleanup;
    stop at the first error) assigns to it - the instruction at which validation fails reports the
    validation error there, all others are OK.  Statements only. *)
From Coq Require Import List Bool Arith NArith.
From Exactly Require Import Model.Outcome Model.Exec Spec.C01.
From Exactly Require Import Model.Symbols Spec.C08 Proofs.SymbolsExec.
Import ListNotations.

(** Whatever [validate_all] rejects (undefined symbol, symbol defined later, wrong type, duplicate
    definition, illegal relativity - directly or reached through other symbols), at instruction [j] of
    phase [p]: the scheduler's validation block fails exactly there (the act phase is one symbol user:
    index 0) ... *)
Theorem C03C08_symbol_failure_is_scheduled :
  forall roots builtins tc p j e,
    validate_all roots builtins tc = inr (p, j, e) ->
    ffail (sched_steps (to_testcase roots builtins tc) block_validate) =
    Some (Failure p SValSym (exec_idx p j) (status_of_verr e)).
Proof. exact symbol_failure_is_scheduled. Qed.
Print Assumptions C03C08_symbol_failure_is_scheduled.

(** ... hence (C03_invalid_no_effect_partial) only validation events occur, no sandbox is created, no
    main step runs, and that failure is the result. *)
Theorem C03C08_symbol_defect_has_no_effect :
  forall roots builtins tc p j e,
    validate_all roots builtins tc = inr (p, j, e) ->
    let (t, r) := full_execute (to_testcase roots builtins tc) in
    Forall (fun ev => is_validation_event ev = true) t /\ ~ In ESandbox t /\
    fr_status r = full_of_fail (status_of_verr e) /\
    fr_failure r = Some (Failure p SValSym (exec_idx p j) (status_of_verr e)) /\
    fr_has_sds r = false /\ fr_has_atc_outcome r = false.
Proof. exact symbol_defect_has_no_effect. Qed.
Print Assumptions C03C08_symbol_defect_has_no_effect.

(** Composed with the negative side of C08_accept_iff: a test case the SPECIFICATION of C08 rejects
    ends in VALIDATION_ERROR (never an exception) at the instruction the validator names, with no effect;
    the symbol-level executor of C08 reports the same instruction. *)
Theorem C03C08_rejected_symbols_have_no_effect :
  forall roots builtins tc,
    builtins_ok builtins = true -> wf_tcase tc = true -> spec_accept roots builtins tc = false ->
    exists p j,
      sym_execute roots builtins tc = Outcome VdValidation (Some (p, j)) false [] /\
      let (t, r) := full_execute (to_testcase roots builtins tc) in
      Forall (fun ev => is_validation_event ev = true) t /\ ~ In ESandbox t /\
      fr_status r = VALIDATION_ERROR /\
      fr_failure r = Some (Failure p SValSym (exec_idx p j) FValidation) /\
      fr_has_sds r = false /\ fr_has_atc_outcome r = false.
Proof. exact rejected_symbols_have_no_effect. Qed.
Print Assumptions C03C08_rejected_symbols_have_no_effect.

(** Conversely, accepted symbols: every instruction passes every step of the validation block, the
    sandbox is created and (nothing else failing in the translation) the case passes. *)
Theorem C03C08_accepted_symbols_pass_validation :
  forall roots builtins tc tv,
    validate_all roots builtins tc = inl tv ->
    let etc := to_testcase roots builtins tc in
    ffail (sched_steps etc block_validate) = None /\
    Forall (fun it => snd it = None) (sched_steps etc block_validate) /\
    (let (t, r) := full_execute etc in In ESandbox t /\ fr_status r = PASS /\ fr_has_sds r = true).
Proof. exact accepted_symbols_pass_validation. Qed.
Print Assumptions C03C08_accepted_symbols_pass_validation.

(** *** Non-vacuity *)
Definition x_roots (r : rel) : text := [47%N].
Definition x_any : restr := RDI (VArb [WString; WPath; WList]) None.
Definition x_def (n : N) : instr := IDef n (Cont TString (SStr [FConst [97%N]])).
Definition x_use (n : N) : instr := IUse [Ref n x_any] [SStr [FSym (Ref n x_any)]].
Definition x_builtins : table := [(0%N, Cont TString (SStr [FConst [9%N]]))].
(* [setup] use X ; ok-instruction   [cleanup] def X : forward reference from setup to a definition in cleanup *)
Definition x_forward : tcase := TCase [IUse [] []; x_use 100%N] [IUse [] []] [] [x_def 101%N] [x_def 100%N].
(* [setup] def X   [assert] def X : duplicate in two phases;  [before-assert] def TAB : duplicate of a builtin *)
Definition x_dup : tcase := TCase [x_def 100%N] [] [] [IUse [] []; x_def 100%N] [].
Definition x_dup_builtin : tcase := TCase [] [IUse [] []] [x_def 0%N] [] [].
Definition summary (tc : tcase) :=
  let (t, r) := full_execute (to_testcase x_roots x_builtins tc) in
  (fr_status r, fr_failure r, length t, existsb (fun e => match e with ESandbox => true | _ => false end) t).
Example C03C08_ex_forward_reference :
  spec_accept x_roots x_builtins x_forward = false /\
  summary x_forward = (VALIDATION_ERROR, Some (Failure Setup SValSym 1 FValidation), 3, false).
Proof. vm_compute. split; reflexivity. Qed.
Example C03C08_ex_duplicates :
  summary x_dup = (VALIDATION_ERROR, Some (Failure Assert SValSym 1 FValidation), 5, false) /\
  summary x_dup_builtin = (VALIDATION_ERROR, Some (Failure BeforeAssert SValSym 0 FValidation), 3, false).
Proof. vm_compute. split; reflexivity. Qed.
Example C03C08_ex_accepted :
  summary (TCase [x_def 100%N] [x_use 100%N] [] [] [x_use 100%N]) = (PASS, None, 16, true).
Proof. vm_compute. reflexivity. Qed.
