(** Property C10 - the action to check (and every program run as an instruction or used as a text source) gets the
    denoted argv / stdin / cwd; its outcome is captured.  Theorem statements only.

    LABEL: PARTIAL.  Proved, for all inputs: properties of the data handed to the process executor by the model of
    the code (Model/Prog.v), and that this model refines the declarative reading of the statement (Spec/C10.v).
    NOT proved (it is the operating system / Python's subprocess module): that the started process receives that
    data, and what a process does.  That part is OBSERVED on every run: probe processes report the argv, stdin and
    current directory they really got.  The theorems below are all FULL theorems about the model. *)
From Coq Require Import NArith List Bool.
From Exactly Require Import Model.Prog Spec.C10 Proofs.ProgResolve Proofs.ProgEval.
Import ListNotations.
Local Open Scope N_scope.

(** *** 1. Resolution of program symbols *)

(** The way the code resolves a program (look the symbol up, accumulate, resolve again - with fuel) computes, on
    every symbol table in which every name is defined once and program references point to older definitions,
    exactly the declarative denotation (D1) of Spec/C10.v; in particular it never runs out of fuel. *)
Theorem C10_resolution_refines_denotation :
  forall (tbl : table) (p : program), wf_table tbl -> resolve_tbl tbl p = denote tbl p.
Proof. exact resolve_refines_denote. Qed.
Print Assumptions C10_resolution_refines_denotation.

Theorem C10_resolution_never_out_of_fuel :
  forall (tbl : table) (p : program), wf_table tbl -> resolve_tbl tbl p <> Err EOutOfFuel.
Proof. exact resolve_tbl_never_out_of_fuel. Qed.
Print Assumptions C10_resolution_never_out_of_fuel.

(** Arguments, stdin parts and transformations accumulate in DEFINITION ORDER along a chain of program symbols of
    any length: [n0] is defined as a command [c] with components [a0]; the k-th link defines a symbol as a
    reference to the previous one plus its own components; the use site refers to the last symbol and adds [extra].
    Other definitions may be interleaved anywhere. *)
Theorem C10_argv_stdin_transformations_accumulate_in_definition_order :
  forall (tbl : table) (n0 : name) (c : command) (a0 : acc src) (links : list (name * acc src)) (extra : acc src),
    wf_table tbl ->
    lookup tbl n0 = Some (VProg (PCmd c a0)) ->
    chain_in tbl n0 links ->
    exists r, resolve_tbl tbl (PRef (last_name n0 links) extra) = Ok r /\
      r_driver r = c_driver c /\
      r_args r = c_args c ++ a_args a0 ++ flat_map a_args (map snd links) ++ a_args extra /\
      r_stdin r = a_stdin a0 ++ flat_map a_stdin (map snd links) ++ a_stdin extra /\
      r_tr r = a_tr a0 ++ flat_map a_tr (map snd links) ++ a_tr extra.
Proof. exact chain_components. Qed.
Print Assumptions C10_argv_stdin_transformations_accumulate_in_definition_order.

(** *** 2. The process that is started *)

(** Whenever running a reference to the end of such a chain succeeds (with [act_stdin] = the stdin set in [setup],
    for the action to check; [] for instructions and text sources), exactly one process was started after the stdin
    parts were materialised, and it was handed: the executable made of the command's driver and the values of ALL
    arguments in definition order; as stdin the parts of all definitions in definition order followed by
    [act_stdin] - [assemble_in_order]: nothing if there is no part, else their concatenation; the current
    directory.  Its outcome [o] is the next outcome of the oracle, and the transformations to apply to its output
    are those of all definitions in definition order. *)
Theorem C10_process_of_a_chain_gets_denoted_argv_stdin_cwd :
  forall (tbl : table) (n0 : name) (c : command) (a0 : acc src) (links : list (name * acc src)) (extra : acc src)
         (act_stdin : list src) (f : nat) (cwd : text) (w : world) (o : outcome) (trs : list transformer) (w' : world),
    wf_table tbl ->
    lookup tbl n0 = Some (VProg (PCmd c a0)) -> chain_in tbl n0 links ->
    run_program resolve_tbl assemble_in_order (S f) tbl cwd (PRef (last_name n0 links) extra) act_stdin w
      = EOk (o, trs) w' ->
    exists d args parts w1,
      driver_value tbl (c_driver c) = Ok d /\
      args_values tbl (c_args c ++ a_args a0 ++ flat_map a_args (map snd links) ++ a_args extra) = Ok args /\
      eval_parts resolve_tbl assemble_in_order f tbl cwd
                 ((a_stdin a0 ++ flat_map a_stdin (map snd links) ++ a_stdin extra) ++ act_stdin) w = EOk parts w1 /\
      w_oracle w1 = o :: w_oracle w' /\
      w_starts w' = PS (to_executable d args) (assemble_in_order parts) cwd :: w_starts w1 /\
      trs = a_tr a0 ++ flat_map a_tr (map snd links) ++ a_tr extra.
Proof. exact chain_process. Qed.
Print Assumptions C10_process_of_a_chain_gets_denoted_argv_stdin_cwd.

(** The stdin file: no part - no stdin; otherwise the texts of the parts in order, whatever way each part is
    written (through the Python file object or through the file descriptor). *)
Theorem C10_stdin_concatenation_order :
  forall (ps1 ps2 : list part),
    ps1 ++ ps2 <> [] ->
    assemble_in_order (ps1 ++ ps2) = Some (concat (map snd ps1) ++ concat (map snd ps2)).
Proof. exact assemble_in_order_app. Qed.
Print Assumptions C10_stdin_concatenation_order.

Theorem C10_no_stdin_iff_no_part :
  forall (ps : list part), assemble_in_order ps = None <-> ps = [].
Proof. exact assemble_in_order_none. Qed.
Print Assumptions C10_no_stdin_iff_no_part.

(** The code as it was BEFORE the repair 527f9c3 (model [assemble_buffered]: parts written through the descriptor
    overtook the buffered ones) did not give the denoted order: a constant part followed by a program-output part
    reached the child in the opposite order.  (Reproduction on the real program: harness/corpus/C10/stdin-order-*.json;
    /repo commit 527f9c3 "fix: text assembled from several parts: flush the file before a process writes to it via
    the descriptor".) *)
Theorem C10_prefix_stdin_concatenation_order_refuted :
  exists (ps : list part), assemble_buffered ps <> assemble_in_order ps.
Proof. exists [(false, [1]); (true, [2])]. exact assemble_buffered_differs. Qed.
Print Assumptions C10_prefix_stdin_concatenation_order_refuted.

(** ... and it was right exactly in the harmless situations: when no buffered part preceded a descriptor-written one. *)
Theorem C10_prefix_stdin_order_right_when_direct_parts_first :
  forall (ps : list part), direct_first ps = true -> assemble_buffered ps = assemble_in_order ps.
Proof. exact assemble_buffered_in_order. Qed.
Print Assumptions C10_prefix_stdin_order_right_when_direct_parts_first.

(** A shell command is ONE string: the command line, followed - only when arguments were accumulated through
    references - by the arguments separated by single spaces; without arguments it is the command line verbatim.
    Every other command is an argument VECTOR: program, then one element per argument value. *)
Theorem C10_shell_is_single_string :
  forall (line : text) (args : list text), to_executable (DVShell line) args = ExShell (join_sp (line :: args)).
Proof. exact shell_is_one_string. Qed.
Print Assumptions C10_shell_is_single_string.

Theorem C10_shell_is_verbatim_single_string :
  forall (line : text), to_executable (DVShell line) [] = ExShell line.
Proof. exact shell_verbatim. Qed.
Print Assumptions C10_shell_is_verbatim_single_string.

Theorem C10_non_shell_is_argument_vector :
  forall (d : dvalue) (args : list text),
    (forall line, d <> DVShell line) ->
    exists p, to_executable d args = ExArgv (p :: args) /\ (d = DVExe p \/ d = DVSys p).
Proof. exact non_shell_is_argv. Qed.
Print Assumptions C10_non_shell_is_argument_vector.

(** Argument values: the values of a concatenated argument list are the concatenated values; a string is ONE value
    whatever it contains (empty, spaces, quotes, option-like and reserved words); a reference to a list symbol as a
    whole argument is spliced; to a string or path symbol it is one value; a list symbol inside a string is
    rendered with single spaces (one value). *)
Theorem C10_list_and_string_refs_splice :
  forall (tbl : table),
    (forall l1 l2 v1 v2, args_values tbl l1 = Ok v1 -> args_values tbl l2 = Ok v2 ->
                         args_values tbl (l1 ++ l2) = Ok (v1 ++ v2)) /\
    (forall fs t, frags_text tbl fs = Ok t -> arg_values tbl (AStr fs) = Ok [t]) /\
    (forall n l, lookup tbl n = Some (VData (DList l)) -> arg_values tbl (ASym n) = Ok l) /\
    (forall n t, lookup tbl n = Some (VData (DStr t)) -> arg_values tbl (ASym n) = Ok [t]) /\
    (forall n t, lookup tbl n = Some (VData (DPath t)) -> arg_values tbl (ASym n) = Ok [t]) /\
    (forall n l, lookup tbl n = Some (VData (DList l)) -> frag_text tbl (FSym n) = Ok (join_sp l)).
Proof.
  intros tbl. repeat split.
  - apply args_values_ok_app.
  - apply arg_values_string.
  - apply arg_values_list_symbol.
  - apply arg_values_string_symbol.
  - apply arg_values_path_symbol.
  - apply frag_text_list_symbol.
Qed.
Print Assumptions C10_list_and_string_refs_splice.

(** Transformations: first accumulated, first applied. *)
Theorem C10_transformations_order :
  forall (ts1 ts2 : list transformer) (x : text), apply_trs (ts1 ++ ts2) x = apply_trs ts2 (apply_trs ts1 x).
Proof. exact apply_trs_app. Qed.
Print Assumptions C10_transformations_order.

(** *** 3. The outcome *)

(** Exit codes: EVERY exit code [c] (no bound), every phase: a program run as an instruction passes iff
    -ignore-exit-code is given or [c = 0]; otherwise it is a FAIL in [assert] and a HARD_ERROR in every other
    phase - and this is the verdict of spec (D4). *)
Theorem C10_exit_code_decision :
  forall (ph : phase) (ign : bool) (c : N),
    exit_code_verdict ph ign c =
      (if ign then StPass else if c =? 0 then StPass else match ph with PhAssert => StFail | _ => StHard end) /\
    exit_code_verdict ph ign c = spec_verdict (match ph with PhAssert => true | _ => false end) ign c /\
    (c <> 0 -> exit_code_verdict ph false c = match ph with PhAssert => StFail | _ => StHard end).
Proof.
  intros ph ign c. split; [apply exit_code_decision | split; [apply exit_code_verdict_spec | apply nonzero_exit_fails]].
Qed.
Print Assumptions C10_exit_code_decision.

(** The verdict of run / $ / % is decided by the exit code the process returned (the oracle's outcome of the
    process started for it, see theorem 2). *)
Theorem C10_run_instruction_verdict :
  forall (r : table -> program -> res rprog) (asm : list part -> option text) (fuel : nat) (ph : phase) (ign : bool)
         (p : program) (st : state) (o : outcome) (trs : list transformer) (w' : world),
    run_program r asm fuel (st_tbl st) (st_cwd st) p [] (st_world st) = EOk (o, trs) w' ->
    exec_instr r asm fuel ph (IRun ign p) st = Ok (exit_code_verdict ph ign (o_code o), set_world st w').
Proof. exact run_instruction_verdict. Qed.
Print Assumptions C10_run_instruction_verdict.

(** exit-code -from PROGRAM sees the exit code the process returned; stdout / stderr -from PROGRAM see the chosen
    channel after the accumulated transformations. *)
Theorem C10_assertions_from_program :
  forall (r : table -> program -> res rprog) (asm : list part -> option text) (fuel : nat) (ph : phase) (p : program)
         (st : state) (o : outcome) (trs : list transformer) (w' : world),
    run_program r asm fuel (st_tbl st) (st_cwd st) p [] (st_world st) = EOk (o, trs) w' ->
    (forall k, exec_instr r asm fuel ph (IExitCodeFrom p k) st
               = Ok (if o_code o =? k then StPass else StFail, set_world st w')) /\
    (forall ch t, exec_instr r asm fuel ph (IOutFrom ch p t) st
                  = Ok (if text_eqb t (apply_trs trs (select ch o)) then StPass else StFail, set_world st w')).
Proof. exact from_program_assertions. Qed.
Print Assumptions C10_assertions_from_program.

(** The action to check: what is stored is the exit code the process returned - whatever it is -, its stdout after
    the accumulated transformations, its stderr; and this is what exit-code, stdout and stderr subsequently see. *)
Theorem C10_act_outcome_is_what_assertions_see :
  forall (r : table -> program -> res rprog) (asm : list part -> option text) (fuel : nat) (p : program) (st : state)
         (o : outcome) (trs : list transformer) (w' : world),
    run_program r asm fuel (st_tbl st) (st_cwd st) p (opt_list (st_stdin st)) (st_world st) = EOk (o, trs) w' ->
    exists st',
      exec_act r asm fuel (ActCommand p) st = Ok (StPass, st') /\
      st_act st' = Some (Out (o_code o) (apply_trs trs (o_out o)) (o_err o)) /\
      (forall ph k, exec_instr r asm fuel ph (IExitCode k) st' = Ok (if o_code o =? k then StPass else StFail, st')) /\
      (forall ph t, exec_instr r asm fuel ph (IStdout t) st'
                    = Ok (if text_eqb t (apply_trs trs (o_out o)) then StPass else StFail, st')) /\
      (forall ph t, exec_instr r asm fuel ph (IStderr t) st' = Ok (if text_eqb t (o_err o) then StPass else StFail, st')).
Proof. exact act_outcome_captured. Qed.
Print Assumptions C10_act_outcome_is_what_assertions_see.

(** A program used as a text source (-stdout-from / -stderr-from [-ignore-exit-code] PROGRAM, e.g. as stdin of
    another program, as the [setup] stdin, as the contents of a file): it is run like any program, without extra
    stdin; the text is the chosen channel after the program's accumulated transformations; a non-zero exit code is a
    hard error unless -ignore-exit-code is given. *)
Theorem C10_program_as_text_source :
  forall (r : table -> program -> res rprog) (asm : list part -> option text) (f : nat) (tbl : table) (cwd : text)
         (ch : chan) (ign : bool) (p : program) (w : world) (o : outcome) (trs : list transformer) (w' : world),
    run_program r asm f tbl cwd p [] w = EOk (o, trs) w' ->
    eval_src r asm (S f) tbl cwd (SProg ch ign p) w =
    if (o_code o =? 0) || ign then EOk (apply_trs trs (select ch o)) w' else EHard w'.
Proof. exact program_as_text_source. Qed.
Print Assumptions C10_program_as_text_source.

(** A program as string TRANSFORMER ([SRC -transformed-by run PROGRAM]): the program is run with its own stdin parts
    followed by the text to transform; the result is its stdout after its transformations; a non-zero exit code is
    a hard error unless -ignore-exit-code is given.  As text MATCHER ([stdout run PROGRAM]): same stdin; it matches
    iff the exit code the process returned is 0.  As file MATCHER ([exists PATH : run PROGRAM]): the path is
    accumulated onto the program as one more argument - so it is the LAST argument whatever chain of symbols the
    program goes through -, stdin is the program's own; it matches iff the exit code is 0. *)
Theorem C10_run_as_transformer :
  forall (r : table -> program -> res rprog) (asm : list part -> option text) (f : nat) (tbl : table) (cwd : text)
         (s : src) (ign : bool) (p : program) (w : world) (o : outcome) (trs : list transformer) (w' : world),
    run_program r asm f tbl cwd p [s] w = EOk (o, trs) w' ->
    eval_src r asm (S f) tbl cwd (SRunT s ign p) w =
    if (o_code o =? 0) || ign then EOk (apply_trs trs (o_out o)) w' else EHard w'.
Proof. exact run_as_transformer. Qed.
Print Assumptions C10_run_as_transformer.

Theorem C10_run_as_text_matcher :
  forall (r : table -> program -> res rprog) (asm : list part -> option text) (fuel : nat) (ph : phase) (ch : chan)
         (neg : bool) (p : program) (st : state) (a o : outcome) (trs : list transformer) (w' : world),
    st_act st = Some a ->
    run_program r asm fuel (st_tbl st) (st_cwd st) p [SFile (select ch a)] (st_world st) = EOk (o, trs) w' ->
    exec_instr r asm fuel ph (IOutRun ch neg p) st
    = Ok (if xorb (o_code o =? 0) neg then StPass else StFail, set_world st w').
Proof. exact run_as_text_matcher. Qed.
Print Assumptions C10_run_as_text_matcher.

Theorem C10_run_as_file_matcher :
  forall (r : table -> program -> res rprog) (asm : list part -> option text) (fuel : nat) (ph : phase) (neg : bool)
         (path : text) (p : program) (st : state) (o : outcome) (trs : list transformer) (w' : world),
    run_program r asm fuel (st_tbl st) (st_cwd st) (new_accumulated p (Acc [] [AStr [FConst path]] [])) []
                (st_world st) = EOk (o, trs) w' ->
    exec_instr r asm fuel ph (IFileRun neg path p) st
    = Ok (if xorb (o_code o =? 0) neg then StPass else StFail, set_world st w').
Proof. exact run_as_file_matcher. Qed.
Print Assumptions C10_run_as_file_matcher.

Theorem C10_accumulating_onto_a_program_appends :
  forall (fuel : nat) (tbl : table) (p : program) (a : acc src) (rp : rprog),
    resolve fuel tbl p = Ok rp ->
    resolve fuel tbl (new_accumulated p a)
    = Ok (RProg (r_driver rp) (r_args rp ++ a_args a) (r_stdin rp ++ a_stdin a) (r_tr rp ++ a_tr a)).
Proof. exact resolve_new_accumulated. Qed.
Print Assumptions C10_accumulating_onto_a_program_appends.

(** The other actors.  File interpreter: the process is the interpreter with its arguments, then the source file,
    then the arguments of the act phase; stdin is the [setup] stdin only; the outcome is stored as it is. *)
Theorem C10_file_interpreter_actor_process :
  forall (r : table -> program -> res rprog) (asm : list part -> option text) (fuel : nat) (interp : command)
         (file : text) (args : list arg) (st st' : state),
    exec_act r asm fuel (ActFile interp file args) st = Ok (StPass, st') ->
    exists dv iargs fargs parts w1 o,
      driver_value (st_tbl st) (c_driver interp) = Ok dv /\
      args_values (st_tbl st) (c_args interp) = Ok iargs /\ args_values (st_tbl st) args = Ok fargs /\
      eval_parts r asm fuel (st_tbl st) (st_cwd st) (opt_list (st_stdin st)) (st_world st) = EOk parts w1 /\
      w_oracle w1 = o :: w_oracle (st_world st') /\
      w_starts (st_world st')
        = PS (to_executable dv (iargs ++ [file] ++ fargs)) (asm parts) (st_cwd st) :: w_starts w1 /\
      st_act st' = Some o.
Proof. exact act_file_process. Qed.
Print Assumptions C10_file_interpreter_actor_process.

(** Source interpreter: the interpreter with its arguments and, last, the file that holds the source code
    ([{SRC}] = the name the harness gives that file); its contents are the text of the act phase with symbols
    substituted. *)
Theorem C10_source_interpreter_actor_process :
  forall (r : table -> program -> res rprog) (asm : list part -> option text) (fuel : nat) (interp : command)
         (source : list frag) (st st' : state),
    exec_act r asm fuel (ActSource interp source) st = Ok (StPass, st') ->
    exists dv iargs code parts w1 o,
      driver_value (st_tbl st) (c_driver interp) = Ok dv /\
      args_values (st_tbl st) (c_args interp) = Ok iargs /\ frags_text (st_tbl st) source = Ok code /\
      eval_parts r asm fuel (st_tbl st) (st_cwd st) (opt_list (st_stdin st)) (st_world st) = EOk parts w1 /\
      w_oracle w1 = o :: w_oracle (st_world st') /\
      w_starts (st_world st')
        = PS (to_executable dv (iargs ++ [[123; 83; 82; 67; 125]])) (asm parts) (st_cwd st) :: w_starts w1 /\
      st_act st' = Some o /\ st_source st' = Some code.
Proof. exact act_source_process. Qed.
Print Assumptions C10_source_interpreter_actor_process.

(** Null actor: no process is started; exit code 0 and empty output are what the assertions see. *)
Theorem C10_null_actor :
  forall (r : table -> program -> res rprog) (asm : list part -> option text) (fuel : nat) (st : state),
    exists st', exec_act r asm fuel ActNull st = Ok (StPass, st') /\
                st_world st' = st_world st /\ st_act st' = Some (Out 0 [] []).
Proof. exact act_null. Qed.
Print Assumptions C10_null_actor.

(** Which failure is reported (executor.py): a failure of [cleanup] REPLACES an earlier failure of [setup], [act]
    or [assert] (and a pass) - verdict and location are those of [cleanup]; after a failure in [before-assert] it
    is SWALLOWED - verdict and location stay those of [before-assert]. *)
Theorem C10_failure_reported_when_cleanup_fails_too :
  forall (r : table -> program -> res rprog) (asm : list part -> option text) (fuel : nat) (swallow : bool)
         (earlier : status) (eph : N) (c : tcase) (st : state) (res : result),
    cleanup_and_finish r asm fuel swallow earlier eph c st = Ok res ->
    exists sc stc, exec_phase r asm fuel PhCleanup (tc_cleanup c) st = Ok (sc, stc) /\
      (rs_verdict res, rs_phase res) =
      match sc with
      | StPass => (earlier, eph)
      | _ => if swallow then (earlier, eph) else (sc, phase_code PhCleanup)
      end.
Proof. exact cleanup_reported. Qed.
Print Assumptions C10_failure_reported_when_cleanup_fails_too.

(** a failing [run] in [before-assert] followed by a failing [run] in [cleanup]: HARD_ERROR located in
    [before-assert] (3), both processes started; the same after a failing [setup]: located in [cleanup] (5) *)
Example C10_example_cleanup_after_before_assert :
  let p := PCmd (Cmd (DSys [FConst [112]]) []) acc_empty in
  let c := TC [] ActNull [IRun false p] [] [IRun false p] in
  let c' := TC [IRun false p] ActNull [] [] [IRun false p] in
  (match run_case 10 [47] [] c [Out 1 [] []; Out 2 [] []] with
   | Ok r => (rs_verdict r, rs_phase r, length (rs_starts r)) | Err _ => (StPass, 99, 0%nat) end) = (StHard, 3, 2%nat) /\
  (match run_case 10 [47] [] c' [Out 1 [] []; Out 2 [] []] with
   | Ok r => (rs_verdict r, rs_phase r, length (rs_starts r)) | Err _ => (StPass, 99, 0%nat) end) = (StHard, 5, 2%nat).
Proof. vm_compute. split; reflexivity. Qed.

(** *** 4. Whole cases: the model refines the specification *)

(** For every well-formed initial symbol table (e.g. the empty one) and EVERY case - `def` instructions for
    strings, lists, paths and programs may stand anywhere in any phase, interleaved with the uses; what an
    instruction sees is what has been defined before it in EXECUTION order -, every fuel, current directory and
    oracle: the model of the code ([run_case]: resolution with fuel as the code does it) and the specification
    ([spec_run_case]: the declarative denotation) give the same processes, stdin texts, directories, captured
    outcome, captured texts and verdict (or the same model error; a definition that exactly's symbol validation
    rejects is such an error in both). *)
Theorem C10_model_refines_specification :
  forall (tbl : table), wf_table tbl ->
  forall (c : tcase) (fuel : nat) (cwd : text) (oracle : list outcome),
    run_case fuel cwd tbl c oracle = spec_run_case fuel cwd tbl c oracle.
Proof. exact model_refines_spec. Qed.
Print Assumptions C10_model_refines_specification.

(** Every symbol table reached while the instructions of a phase run is well formed (so theorems 1-2 apply at
    every use, and resolution never runs out of fuel). *)
Theorem C10_reached_symbol_tables_are_well_formed :
  forall (r : table -> program -> res rprog) (asm : list part -> option text) (fuel : nat) (ph : phase)
         (l : list instr) (st : state) (s : status) (st' : state),
    wf_table (st_tbl st) -> exec_phase r asm fuel ph l st = Ok (s, st') -> wf_table (st_tbl st').
Proof. exact reached_tables_well_formed. Qed.
Print Assumptions C10_reached_symbol_tables_are_well_formed.

(** a definition made in [before-assert] is used in [assert] and [cleanup]; the same case with the use BEFORE the
    definition in execution order is the loud unknown-symbol error (rejected by exactly's validation) *)
Example C10_example_interleaved :
  let p0 := PCmd (Cmd (DSys [FConst [112]]) []) acc_empty in
  let use := IRun false (PRef 2 (Acc [] [AStr [FConst [122]]] [])) in
  let c := TC [IDef 1 (VProg p0)] ActNull [IDef 2 (VProg (PRef 1 (Acc [] [AStr [FConst [121]]] [])))] [use] [use] in
  let c' := TC [IDef 1 (VProg p0); use] ActNull [IDef 2 (VProg (PRef 1 acc_empty))] [] [] in
  run_case 10 [47] [] c [Out 0 [] []; Out 0 [] []]
  = Ok (Res StPass 0 [PS (ExArgv [[112]; [121]; [122]]) None [47]; PS (ExArgv [[112]; [121]; [122]]) None [47]]
           (Some (Out 0 [] [])) None []) /\
  run_case 10 [47] [] c' [Out 0 [] []] = Err (EUnknownSymbol 2).
Proof. vm_compute. split; reflexivity. Qed.

(** *** Non-vacuity *)

(** P0 = % prog a -stdin 'A' -transformed-by b->c ; P1 = @ P0 [list symbol] -stdin 'B' ; [act] @ P1 '' -transformed-by c->d
    with [setup] stdin 'S': one process, argv prog a x y "" ; stdin "ABS"; stored stdout of "b" is "d". *)
Example C10_example :
  let A := 65 in let B := 66 in let S := 83 in
  let tbl0 : table := [(3, VData (DList [[120]; [121]]))] in
  let p0 := PCmd (Cmd (DSys [FConst [112]]) [AStr [FConst [97]]]) (Acc [SStr [FConst [A]]] [] [[(98, 99)]]) in
  let p1 := PRef 1 (Acc [SStr [FConst [B]]] [ASym 3] []) in
  let c := TC [IDef 1 (VProg p0); IDef 2 (VProg p1); IStdin (SStr [FConst [S]])]
              (ActCommand (PRef 2 (Acc [] [AStr []] [[(99, 100)]])))
              [] [IExitCode 7; IStdout [100]] [] in
  run_case 10 [47] tbl0 c [Out 7 [98] []]
  = Ok (Res StPass 0 [PS (ExArgv [[112]; [97]; [120]; [121]; []]) (Some [A; B; S]) [47]]
           (Some (Out 7 [100] [])) None []).
Proof. vm_compute. reflexivity. Qed.

(** a shell command with arguments accumulated through a reference; non-zero exit in [cleanup] after a FAIL *)
Example C10_example_shell :
  let p0 := PCmd (Cmd (DShell [FConst [101; 99; 104; 111; 32; 32; 39; 120; 39]]) []) acc_empty in
  let c := TC [IDef 1 (VProg p0)] ActNull [] [IRun false (PRef 1 (Acc [] [AStr [FConst [97; 32; 98]]] []))]
              [IRun false (PRef 1 acc_empty)] in
  run_case 10 [47] [] c [Out 3 [] []; Out 4 [] []]
  = Ok (Res StHard 5 [PS (ExShell [101; 99; 104; 111; 32; 32; 39; 120; 39; 32; 97; 32; 98]) None [47];
                    PS (ExShell [101; 99; 104; 111; 32; 32; 39; 120; 39]) None [47]]
           (Some (Out 0 [] [])) None []).
Proof. vm_compute. reflexivity. Qed.
