(** Property C10 - the action to check (and every program run as an instruction or used as a text source) gets the
    denoted argv / stdin / cwd; its outcome is captured.  Theorem statements only.

    LABEL: PARTIAL.  Proved, for all inputs: properties of the data handed to the process executor by the model of
    the code (Model/Prog.v), and that this model refines the declarative reading of the statement (Spec/C10.v).
    NOT proved (it is the operating system / Python's subprocess module): that the started process receives that
    data.  That part is OBSERVED on every run: probe processes report the argv, stdin and current directory they
    really got. *)
From Coq Require Import NArith List Bool.
From Exactly Require Import Model.Prog Spec.C10 Proofs.ProgResolve.
Import ListNotations.
Local Open Scope N_scope.

(** The way the code resolves a program (look the symbol up, accumulate, resolve again - with fuel) computes, on
    every symbol table in which every name is defined once and program references point to older definitions,
    exactly the declarative denotation (D1) of Spec/C10.v; in particular it never runs out of fuel. *)
Theorem C10_resolution_refines_denotation :
  forall (tbl : table) (p : program), wf_table tbl -> resolve_tbl tbl p = denote tbl p.
Proof. exact resolve_refines_denote. Qed.
Print Assumptions C10_resolution_refines_denotation.

Theorem C10_resolution_never_out_of_fuel :
  forall (tbl : table) (p : program), wf_table tbl -> resolve_tbl tbl p <> Err EOutOfFuel.
Proof. exact resolve_tbl_never_out_of_fuel. Qed.
Print Assumptions C10_resolution_never_out_of_fuel.

(** Arguments, stdin parts and transformations accumulate in DEFINITION ORDER along a chain of program symbols of
    any length: [n0] is defined as a command [c] with components [a0]; the k-th link defines a symbol as a
    reference to the previous one plus its own components; the use site refers to the last symbol and adds [extra].
    Other definitions may be interleaved anywhere. *)
Theorem C10_argv_stdin_transformations_accumulate_in_definition_order :
  forall (tbl : table) (n0 : name) (c : command) (a0 : acc src) (links : list (name * acc src)) (extra : acc src),
    wf_table tbl ->
    lookup tbl n0 = Some (VProg (PCmd c a0)) ->
    chain_in tbl n0 links ->
    exists r, resolve_tbl tbl (PRef (last_name n0 links) extra) = Ok r /\
      r_driver r = c_driver c /\
      r_args r = c_args c ++ a_args a0 ++ flat_map a_args (map snd links) ++ a_args extra /\
      r_stdin r = a_stdin a0 ++ flat_map a_stdin (map snd links) ++ a_stdin extra /\
      r_tr r = a_tr a0 ++ flat_map a_tr (map snd links) ++ a_tr extra.
Proof. exact chain_components. Qed.
Print Assumptions C10_argv_stdin_transformations_accumulate_in_definition_order.
