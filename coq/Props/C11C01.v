(** C11 x C01 - the execution order of the settings model IS the execution order of the phased
    executor.  Theorem statements only.
    [run] (Model/Settings.v) is C11's model; [full_execute] (Model/Exec.v) and [spec_full]
    (Spec/C01.v) are C01's executor model and its declarative protocol; [lower], [run_i], [flatten],
    [main_points], [precedes] are defined in Part 1 of Proofs/SettingsExec.v:
      - [lower c h]: the history as a test case of the phased executor - no conf instructions,
        status PASS, an act phase that succeeds, every op an instruction that is OK at every step
        except that a [cd] to a missing directory returns a hard error from its main step;
      - [run_i c h]: [run] instrumented - every instruction whose main step [run] executes (and the
        act process), in order, each with the observations made there (possibly none);
      - [main_points t]: the main-step events of an executor trace (setup/before-assert/assert/
        cleanup main, act execute) as points of C11. *)
From Coq Require Import NArith List Bool.
From Exactly Require Import Model.Outcome Model.Exec Model.Settings Spec.C01 Spec.C11 Proofs.SettingsExec.
Import ListNotations.
Local Open Scope N_scope.

(** [run] is its instrumented version with the instructions that start no process dropped. *)
Theorem C11C01_run_is_instrumented_run :
  forall (c : config) (h : history), fst (run c h) = flatten (run_i c h).
Proof. exact run_is_run_i. Qed.
Print Assumptions C11C01_run_is_instrumented_run.

(** SIMULATION.  For every configuration and history, the sequence of points at which the settings
    model executes instructions is exactly the sequence of main-step events of C01's executor run
    on the translated test case: setup mains, act execute, before-assert mains, assert mains,
    cleanup mains - halting at the first failing [cd] and jumping into cleanup (which starts from
    the settings in force at the failure) exactly as the executor does. *)
Theorem C11C01_execution_order :
  forall (c : config) (h : history),
    main_points (fst (full_execute (lower c h))) = map fst (run_i c h).
Proof. exact full_execute_main_points. Qed.
Print Assumptions C11C01_execution_order.

(** ... and therefore of C01's declarative protocol specification (through
    [full_execute_refines_spec] of C01). *)
Theorem C11C01_execution_order_declarative :
  forall (c : config) (h : history),
    main_points (fst (spec_full (lower c h))) = map fst (run_i c h).
Proof. exact spec_full_main_points. Qed.
Print Assumptions C11C01_execution_order_declarative.

(** Every observation of C11's model is made at a main step that occurs in the executor's trace. *)
Theorem C11C01_observed_points_are_main_steps :
  forall (c : config) (h : history) (q : point) (o : obs),
    In (q, o) (fst (run c h)) -> In q (main_points (fst (full_execute (lower c h)))).
Proof. exact observed_points_are_exec_main_events. Qed.
Print Assumptions C11C01_observed_points_are_main_steps.

(** The order C11's theorems call "before" ([pt_ltb]: setup < act < before-assert < assert <
    cleanup, by index inside a phase) is exactly the order of occurrence in the executor's trace. *)
Theorem C11C01_executor_order_is_pt_ltb :
  forall (c : config) (h : history) (q pt : point),
    let E := main_points (fst (full_execute (lower c h))) in
    In q E -> In pt E -> (precedes E q pt <-> pt_ltb q pt = true).
Proof. exact exec_order_is_pt_ltb. Qed.
Print Assumptions C11C01_executor_order_is_pt_ltb.

(** No backward effect, stated with the executor's trace order: an observation made at a main step
    that PRECEDES [pt] in the executor's trace of [h] is made, unchanged, in every history that has
    the same instructions before [pt] - whatever differs at or after [pt] (including whether a
    later instruction fails and execution jumps into cleanup). *)
Theorem C11C01_no_backward_effect_exec_order :
  forall (c : config) (h h' : history) (pt q : point) (o : obs),
    agree_before pt h h' ->
    precedes (main_points (fst (full_execute (lower c h)))) q pt ->
    In (q, o) (fst (run c h)) -> In (q, o) (fst (run c h')).
Proof. exact no_backward_effect_exec_order. Qed.
Print Assumptions C11C01_no_backward_effect_exec_order.

(** Non-vacuity: a [cd] to a missing directory in before-assert (instruction 1): the executor runs
    setup, act, before-assert 0 and 1, skips before-assert 2 and the assert phase, and runs
    cleanup; C11's model observes at exactly those main steps that start a process (the env
    instruction in cleanup starts one value program, for the non-act set). *)
Definition ex_cfg : config :=
  Config [([65], [105])] (Some 60) [[]; sds_act; sds_tmp; sds_result].
Definition ex_hist : history :=
  History [OTimeout (Some 7); OProbe]
          [OProbe; OCd RelCwd [[113]]; OProbe]
          [OProbe]
          [OProbe; OEnvProg TBoth [66] [98]; OProbe].

Example C11C01_example :
  main_points (fst (full_execute (lower ex_cfg ex_hist))) =
    [PtInstr PSetup 0; PtInstr PSetup 1; PtAct; PtInstr PBeforeAssert 0; PtInstr PBeforeAssert 1;
     PtInstr PCleanup 0; PtInstr PCleanup 1; PtInstr PCleanup 2] /\
  map fst (fst (run ex_cfg ex_hist)) =
    [PtInstr PSetup 1; PtAct; PtInstr PBeforeAssert 0; PtInstr PCleanup 0; PtInstr PCleanup 1; PtInstr PCleanup 2] /\
  fr_status (snd (full_execute (lower ex_cfg ex_hist))) = HARD_ERROR /\
  map (fun po => o_timeout (snd po)) (fst (run ex_cfg ex_hist)) = [Some 7; Some 7; Some 7; Some 7; Some 7; Some 7].
Proof. vm_compute. repeat split; reflexivity. Qed.
