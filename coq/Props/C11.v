(** Property C11 - settings persist forward: cd, env (act / non-act), timeout.
    Theorem statements only.  [run] is the model of the implementation (Model/Settings.v);
    [spec_before], [spec_view], [obs_agrees], [Expands], [instructions_before], [agree_before],
    [no_timeout], [no_cd], [P_C11] are the specification side (Spec/C11.v). *)
From Coq Require Import NArith List Bool.
From Exactly Require Import Model.Settings Spec.C11 Proofs.SettingsExpand Proofs.SettingsRefine Proofs.SettingsForward
  Proofs.SettingsPrefix.
Import ListNotations.
Local Open Scope N_scope.

(** MAIN THEOREM (refinement, for ALL histories: any instructions, any lengths, any distribution
    over setup / before-assert / assert / cleanup, any initial environment, any set of existing
    directories).  The model of the implementation - environ = None meaning "inherit", populated
    from the default on first modification, the act applier existing only in [setup], the act
    environment and timeout captured right after setup/main, the scanning loop of _expand_vars -
    never runs out of fuel, and EVERY observation it produces (the environment, current directory
    and timeout a process started at some point has) is exactly what the two-plain-maps
    specification says is in force at that point: the result of all instructions executed before
    it, the act process seeing the act map, every other process the non-act map.
    (In particular [env -of act] outside [setup], which the implementation ignores while the
    specification applies it, is proved unobservable.) *)
Theorem C11_refines :
  forall (c : config) (h : history),
    snd (run c h) = Done /\
    Forall (fun po : point * obs =>
              exists ss, spec_before c h (fst po) = Some ss /\ obs_agrees (spec_view (fst po) ss) (snd po))
           (fst (run c h)).
Proof. exact run_refines. Qed.
Print Assumptions C11_refines.

(** The boolean property predicate that the check evaluates on the OBSERVED behaviour of the real
    program is true of the model's behaviour for all histories (so: correspondence on an input
    implies the property on that input). *)
Theorem C11_check_predicate_holds_on_model :
  forall (c : config) (h : history), P_C11 c h (fst (run c h)) = true.
Proof. exact P_holds_on_model. Qed.
Print Assumptions C11_check_predicate_holds_on_model.

(** No backward effect: two histories with the same instructions before a point give, at that
    point, the same environment, directory and timeout - whatever follows the point (later
    instructions of the phase, later phases) in either. *)
Theorem C11_no_backward_effect :
  forall (c : config) (h h' : history) (pt : point) (o o' : obs),
    agree_before pt h h' ->
    In (pt, o) (fst (run c h)) -> In (pt, o') (fst (run c h')) ->
    (o_role o = RProcess -> o_role o' = RProcess -> forall n, get (o_env o) n = get (o_env o') n) /\
    o_cwd o = o_cwd o' /\ o_timeout o = o_timeout o'.
Proof. exact no_backward_effect. Qed.
Print Assumptions C11_no_backward_effect.

(** ... in its strong form: the whole list of observations made before a point - which processes
    ran, in which order, what each saw - is the same for two histories with the same instructions
    before that point ([pt_ltb]: execution order of the points). *)
Theorem C11_no_backward_effect_trace :
  forall (c : config) (h h' : history) (pt : point),
    agree_before pt h h' ->
    filter (fun po => pt_ltb (fst po) pt) (fst (run c h)) = filter (fun po => pt_ltb (fst po) pt) (fst (run c h')).
Proof. exact no_backward_effect_trace. Qed.
Print Assumptions C11_no_backward_effect_trace.

(** The process of the act phase sees the act set, every other process the non-act set
    ([RProcess]: every process but the program computing the VALUE of an env instruction, whose
    environment is outside this property - see [C11_value_program_timeout_cwd]). *)
Theorem C11_act_sees_act_set_others_nonact :
  forall (c : config) (h : history) (pt : point) (o : obs),
    In (pt, o) (fst (run c h)) -> o_role o = RProcess ->
    exists ss, spec_before c h pt = Some ss /\
               forall n, get (o_env o) n = match pt with PtAct => ss_act ss n | PtInstr _ _ => ss_nonact ss n end.
Proof. exact act_sees_act_set_others_nonact. Qed.
Print Assumptions C11_act_sees_act_set_others_nonact.

(** [_expand_vars] (the fuelled model of the scanning loop) terminates within its fuel for every
    value and every environment, and its result is THE text that the declarative left-to-right,
    non-overlapping substitution of [${name}] references (unknown names giving the empty string)
    relates to the value. *)
Theorem C11_expand_vars_correct :
  forall (value : text) (e : env),
    exists r, expand_vars value e = Some r /\ Expands (get e) value r /\
              forall r', Expands (get e) value r' -> r' = r.
Proof. exact expand_vars_correct. Qed.
Print Assumptions C11_expand_vars_correct.

(** Two shapes users rely on: a value without any [$] is taken literally; a value with exactly one
    well-formed reference (no other [$]) is the text around it with the variable's value (or the
    empty string) in its place. *)
Theorem C11_expand_vars_without_dollar :
  forall (value : text) (e : env), ~ In 36 value -> expand_vars value e = Some value.
Proof. exact expand_vars_without_dollar. Qed.
Print Assumptions C11_expand_vars_without_dollar.

Theorem C11_expand_vars_one_reference :
  forall (pre : text) (nm : name) (post : text) (e : env),
    ~ In 36 pre -> ~ In 36 post -> is_name nm ->
    expand_vars (pre ++ reference nm ++ post) e = Some (pre ++ value_of (get e) nm ++ post).
Proof. exact expand_vars_one_reference. Qed.
Print Assumptions C11_expand_vars_one_reference.

(** Timeout forward: after [timeout = t], every process started later - in the same or a later
    phase, the act process included - is run under [t], until the next timeout instruction. *)
Theorem C11_timeout_forward :
  forall (c : config) (h : history) (pt : point) (o : obs) (pre : list op) (t : timeout) (mid : list op),
    In (pt, o) (fst (run c h)) -> in_cleanup pt = false ->
    instructions_before h pt = pre ++ OTimeout t :: mid -> no_timeout mid ->
    o_timeout o = t.
Proof. exact timeout_forward. Qed.
Print Assumptions C11_timeout_forward.

(** ... within cleanup ... *)
Theorem C11_timeout_forward_in_cleanup :
  forall (c : config) (h : history) (i : nat) (o : obs) (pre : list op) (t : timeout) (mid : list op),
    In (PtInstr PCleanup i, o) (fst (run c h)) ->
    firstn i (h_cleanup h) = pre ++ OTimeout t :: mid -> no_timeout mid ->
    o_timeout o = t.
Proof. exact timeout_forward_in_cleanup. Qed.
Print Assumptions C11_timeout_forward_in_cleanup.

(** ... and from an earlier phase into cleanup, also when a later instruction of the earlier
    phases failed (cleanup then starts from the settings in force at the failure). *)
Theorem C11_timeout_forward_into_cleanup :
  forall (c : config) (h : history) (i : nat) (o : obs) (pre : list op) (t : timeout) (mid : list op),
    In (PtInstr PCleanup i, o) (fst (run c h)) ->
    h_setup h ++ h_before_assert h ++ h_assert h = pre ++ OTimeout t :: mid ->
    snd (sfold (c_dirs c) pre (sinitial c)) = false ->       (* the timeout instruction was reached *)
    no_timeout mid -> no_timeout (firstn i (h_cleanup h)) ->
    o_timeout o = t.
Proof. exact timeout_forward_into_cleanup. Qed.
Print Assumptions C11_timeout_forward_into_cleanup.

(** "The value in force at step k" (the interface C19 uses): the process started by the [k]-th
    instruction of a phase run from state [s] is handed [timeout_in_force] of the instructions
    before it - the argument of the last [timeout] instruction among them, else the timeout in
    force when the phase started. *)
Theorem C11_timeout_in_force_at_step :
  forall (d : env) (dirs : list path) (p : phase_id) (ops : list op) (idx : nat) (s : state) (k : nat) (o : obs),
    In (PtInstr p (idx + k), o) (fst (fst (run_ops d dirs p idx ops s))) ->
    o_timeout o = timeout_in_force (map op_timeout ops) (st_timeout s) k.
Proof. exact run_ops_timeout. Qed.
Print Assumptions C11_timeout_in_force_at_step.

(** The program that computes the VALUE of an env instruction ([env NAME = -stdout-from PROGRAM]; one
    run per set being changed) is started in the current directory and under the timeout in force
    at that instruction, like every other process ([spec_before] at the instruction's point).
    This is the clause of [C11_refines] for observations with role [RValue k]; together with the
    forward theorems it gives: a [timeout] / [cd] instruction takes effect for the value programs
    of all later env instructions too. *)
Theorem C11_value_program_timeout_cwd :
  forall (c : config) (h : history) (pt : point) (o : obs),
    In (pt, o) (fst (run c h)) ->
    exists ss, spec_before c h pt = Some ss /\ o_cwd o = ss_cwd ss /\ o_timeout o = ss_timeout ss.
Proof. exact value_program_timeout_cwd. Qed.
Print Assumptions C11_value_program_timeout_cwd.

(** cd forward: after a [cd] that resolved to [d], every process started later has current
    directory [d] until the next [cd] INSTRUCTION; [mid] may contain child processes changing
    their own directory ([OChildCd]) - they do not count. *)
Theorem C11_cd_forward :
  forall (c : config) (h : history) (pt : point) (o : obs) (pre : list op) (b : cdbase) (suffix : list name)
         (d : path) (mid : list op),
    In (pt, o) (fst (run c h)) -> in_cleanup pt = false ->
    instructions_before h pt = pre ++ OCd b suffix :: mid -> no_cd mid ->
    walk (base_dir (ss_cwd (fst (sfold (c_dirs c) pre (sinitial c)))) b) suffix = Some d ->
    o_cwd o = d.
Proof. exact cd_forward. Qed.
Print Assumptions C11_cd_forward.

Theorem C11_cd_forward_in_cleanup :
  forall (c : config) (h : history) (i : nat) (o : obs) (pre : list op) (b : cdbase) (suffix : list name)
         (d : path) (mid : list op),
    In (PtInstr PCleanup i, o) (fst (run c h)) ->
    firstn i (h_cleanup h) = pre ++ OCd b suffix :: mid -> no_cd mid ->
    walk (base_dir (ss_cwd (fst (sfold (c_dirs c) pre
             (fst (sfold (c_dirs c) (h_setup h ++ h_before_assert h ++ h_assert h) (sinitial c)))))) b) suffix = Some d ->
    o_cwd o = d.
Proof. exact cd_forward_in_cleanup. Qed.
Print Assumptions C11_cd_forward_in_cleanup.

Theorem C11_cd_forward_into_cleanup :
  forall (c : config) (h : history) (i : nat) (o : obs) (pre : list op) (b : cdbase) (suffix : list name)
         (d : path) (mid : list op),
    In (PtInstr PCleanup i, o) (fst (run c h)) ->
    h_setup h ++ h_before_assert h ++ h_assert h = pre ++ OCd b suffix :: mid ->
    snd (sfold (c_dirs c) pre (sinitial c)) = false ->       (* the cd instruction was reached ... *)
    walk (base_dir (ss_cwd (fst (sfold (c_dirs c) pre (sinitial c)))) b) suffix = Some d ->
    existsb (path_eqb d) (c_dirs c) = true ->                 (* ... and succeeded *)
    no_cd mid -> no_cd (firstn i (h_cleanup h)) ->
    o_cwd o = d.
Proof. exact cd_forward_into_cleanup. Qed.
Print Assumptions C11_cd_forward_into_cleanup.

(** Non-vacuity.  A history over all four phases: per-set expansion (the act process sees
    [B = x<a0>], the others do not have [B]; [C] is expanded against the non-act set), [-of act]
    after setup is not seen by anyone, [cd] and [timeout] persist into later phases, a child's cd
    does not, an [unset] in before-assert is seen in assert and cleanup only. *)
Definition ex_A : name := [65]. Definition ex_B : name := [66]. Definition ex_C : name := [67].
Definition ex_d1 : name := [100; 49].
Definition ex_cfg : config :=
  Config [(ex_A, [105])] (Some 60) [[]; sds_act; sds_act ++ [ex_d1]; sds_tmp; sds_result].
Definition ex_hist : history :=
  History [OProbe;
           OEnv TBoth (MSet ex_A [97; 48]);
           OEnv TAct (MSet ex_B [120; 60; 36; 123; 65; 125; 62]);              (* x<${A}> *)
           OEnv TNonAct (MSet ex_C [36; 123; 65; 125; 36; 123; 66; 125; 33]);  (* ${A}${B}! *)
           OCd RelCwd [ex_d1]; OTimeout (Some 7); OChildCd RelCwd [[46; 46]]; OProbe]
          [OEnv TAct (MSet ex_C [122]); OEnv TBoth (MUnset ex_A); OProbe]
          [OProbe]
          [OTimeout None; OProbe].

Example C11_example :
  run ex_cfg ex_hist =
  ([ (PtInstr PSetup 0, Obs [(ex_A, [105])] sds_act (Some 60) RProcess);
     (PtInstr PSetup 7, Obs [(ex_A, [97; 48]); (ex_C, [97; 48; 33])] (sds_act ++ [ex_d1]) (Some 7) RProcess);
     (PtAct, Obs [(ex_A, [97; 48]); (ex_B, [120; 60; 97; 48; 62])] (sds_act ++ [ex_d1]) (Some 7) RProcess);
     (PtInstr PBeforeAssert 2, Obs [(ex_C, [97; 48; 33])] (sds_act ++ [ex_d1]) (Some 7) RProcess);
     (PtInstr PAssert 0, Obs [(ex_C, [97; 48; 33])] (sds_act ++ [ex_d1]) (Some 7) RProcess);
     (PtInstr PCleanup 1, Obs [(ex_C, [97; 48; 33])] (sds_act ++ [ex_d1]) None RProcess) ], Done).
Proof. vm_compute. reflexivity. Qed.

(** a failing [cd] (missing directory) in setup: the act phase and the assertions are not run,
    cleanup sees the settings in force at the failure *)
Example C11_example_halt :
  run ex_cfg (History [OTimeout (Some 5); OCd RelCwd [[113]]; OTimeout (Some 9); OProbe] [OProbe] [OProbe] [OProbe]) =
  ([ (PtInstr PCleanup 0, Obs [(ex_A, [105])] sds_act (Some 5) RProcess) ], Done).
Proof. vm_compute. reflexivity. Qed.

Example C11_example_expand :
  expand_vars [36; 123; 65; 36; 123; 65; 125; 36; 65; 36; 123; 66; 125; 125] [(ex_A, [118])]
  = Some [36; 123; 65; 118; 36; 65; 125].     (* ${A${A}$A${B}}  ->  ${Av$A}  *)
Proof. vm_compute. reflexivity. Qed.

(** corner cases of the reference syntax, as the real [_expand_vars] treats them (A = "v", B unset):
    [$A] (no braces), [${] , [${}] (empty name), [${A-}] and [${ A}] (non-identifier characters),
    [${\u00e9}] (non-ASCII letter) are left alone; [$${A}] keeps the first [$]; [${A}}] keeps the
    second [}]; [${${A}] expands the inner reference only; [${B}] gives the empty string;
    adjacent references [${A}${A}] are both expanded. *)
Example C11_example_expand_corner_cases :
  map (fun v => expand_vars v [(ex_A, [118])])
      [ [36; 65]; [36; 123]; [36; 123; 125]; [36; 123; 65; 45; 125]; [36; 123; 32; 65; 125]; [36; 123; 233; 125];
        [36; 36; 123; 65; 125]; [36; 123; 65; 125; 125]; [36; 123; 36; 123; 65; 125]; [120; 36; 123; 66; 125; 121];
        [36; 123; 65; 125; 36; 123; 65; 125] ]
  = map Some
      [ [36; 65]; [36; 123]; [36; 123; 125]; [36; 123; 65; 45; 125]; [36; 123; 32; 65; 125]; [36; 123; 233; 125];
        [36; 118]; [118; 125]; [36; 123; 118]; [120; 121];
        [118; 118] ].
Proof. vm_compute. reflexivity. Qed.

(** value programs: in [setup] an env instruction without [-of] runs its program twice (act set
    first), each run under the timeout and in the directory in force; [-of act] outside [setup]
    runs it not at all *)
Example C11_example_value_program :
  run ex_cfg (History [OTimeout (Some 9); OEnv TAct (MSet ex_A [97]); OEnvProg TBoth ex_B [36; 123; 65; 125]; OProbe]
                      [] [OTimeout None; OEnvProg TAct ex_C [99]; OEnvProg TNonAct ex_C [99]] []) =
  ([ (PtInstr PSetup 2, Obs [(ex_A, [97])] sds_act (Some 9) (RValue 0));
     (PtInstr PSetup 2, Obs [(ex_A, [105])] sds_act (Some 9) (RValue 1));
     (PtInstr PSetup 3, Obs [(ex_A, [105]); (ex_B, [105])] sds_act (Some 9) RProcess);
     (PtAct, Obs [(ex_A, [97]); (ex_B, [97])] sds_act (Some 9) RProcess);
     (PtInstr PAssert 2, Obs [(ex_A, [105]); (ex_B, [105])] sds_act None (RValue 0)) ], Done).
Proof. vm_compute. reflexivity. Qed.
