(** Property C18 — mistakes in a test case are reported as such, never as internal errors.
    Theorem statements only.

    PARTIAL, and said plainly: the property's universal claim ("whatever text a test case
    contains") concerns every parser, validator and instruction of the code base; no model of
    practicable size carries it, and it is FUZZED (harness/c18.py), not proved.  Proved here, for
    ALL inputs of the respective domains: the exception-routing layers are total and classify as
    documented; integer expressions (Python integer arithmetic) and replacement templates are
    classified as "value / not an integer" resp. "ok / HARD_ERROR" - never INTERNAL_ERROR - by
    the code as it is now.  The models are tied to the source on every run (obligations over
    coq/Gen/C18_tables.v at the end of this file + differential correspondence). *)
From Coq Require Import ZArith NArith List Bool String.
From Exactly Require Import Lib.Harness Model.Outcome Model.Errors Spec.C18
  Proofs.ErrorsRouting Proofs.ErrorsInteger Proofs.ErrorsTemplate Gen.C18_tables.
Import ListNotations.

(** ** (a) routing *)

(** Whatever exception of class Exception is raised at whatever place below the processor, in
    whatever phase and with whatever [status], the processor returns a result: nothing escapes. *)
Theorem C18_routing_total : forall (m : tc_status) (s : site) (e : exc),
  wf_exc e = true -> subclass (e_cls e) EException = true -> exists r, route m s e = Ret r.
Proof. exact routing_total. Qed.
Print Assumptions C18_routing_total.

(** The same for a case run as member of a suite. *)
Theorem C18_routing_suite_total : forall (m : tc_status) (s : site) (e : exc),
  wf_exc e = true -> subclass (e_cls e) EException = true -> exists r, route_suite m s e = Ret r.
Proof. exact routing_suite_total. Qed.
Print Assumptions C18_routing_suite_total.

(** Whatever an instruction's parser or the instruction-name extractor raises (any Exception):
    the case ends as SYNTAX_ERROR (access error), exit code 65. *)
Theorem C18_parse_time_errors_are_syntax_errors : forall (m : tc_status) (e : exc),
  wf_exc e = true -> subclass (e_cls e) EException = true ->
  route m SInstrParse e = Ret (RAccess ACC_SYNTAX_ERROR) /\
  route m SNameExtract e = Ret (RAccess ACC_SYNTAX_ERROR) /\
  pres_exit (RAccess ACC_SYNTAX_ERROR) = (65%Z, IdAccess ACC_SYNTAX_ERROR).
Proof.
  intros m e Hw Hs. destruct (parse_time_errors_are_syntax_errors m e Hw Hs) as [H1 H2].
  repeat split; assumption || reflexivity.
Qed.
Print Assumptions C18_parse_time_errors_are_syntax_errors.

(** A HardErrorException raised by any step that runs is HARD_ERROR. *)
Theorem C18_hard_error_exception_is_hard_error : forall (m : tc_status) (s : site),
  is_step_site s = true -> reachable m s = true ->
  route m s (Exc EHardError PNone) = Ret (RExecuted HARD_ERROR).
Proof. exact hard_error_is_hard_error. Qed.
Print Assumptions C18_hard_error_exception_is_hard_error.

(** INTERNAL_ERROR never comes from parsing, and from a step only if the step raised something
    that is not a HardErrorException. *)
Theorem C18_internal_error_only_from_non_hard_error : forall (m : tc_status) (s : site) (e : exc) (r : pres),
  wf_exc e = true -> route m s e = Ret r -> is_internal r = true ->
  is_parse_site s = false /\ (is_step_site s = true -> subclass (e_cls e) EHardError = false).
Proof. exact internal_error_only_from_non_hard_error. Qed.
Print Assumptions C18_internal_error_only_from_non_hard_error.

(** The converse of totality, and a finding (KF-C18-3): what is not an Exception (SystemExit
    raised by [exit()] inside an integer expression) is caught nowhere. *)
Theorem C18_non_exception_escapes : forall (m : tc_status) (s : site) (e : exc),
  wf_exc e = true -> subclass (e_cls e) EException = false ->
  (exists x, route m s e = Raise x) /\ (exists x, route_suite m s e = Raise x).
Proof. exact non_exception_escapes. Qed.
Print Assumptions C18_non_exception_escapes.

Theorem C18_routing_total_for_every_class_refuted :
  exists (m : tc_status) (s : site) (e : exc), wf_exc e = true /\ route m s e = Raise e.
Proof. exists TPass, SInstrStep, (Exc ESystemExit PNone). vm_compute. split; reflexivity. Qed.
Print Assumptions C18_routing_total_for_every_class_refuted.

(** ** (b) integer expressions *)

(** For every expression of Python integer arithmetic (literals, names, unary - + ~, binary
    + - * // % ** /, any nesting; texts outside this syntax enter as oracle leaves = what Python's
    eval does with them) whose oracle leaves raise only subclasses of Exception:
    [python_evaluate] gives a value or NotAnIntegerException, and the instruction's validation step
    passes or is a VALIDATION_ERROR - never INTERNAL_ERROR. *)
Theorem C18_integer_never_internal : forall e : iexpr,
  (forall c, In c (oracle_excs e) -> subclass c EException = true) ->
  ((exists z, python_evaluate true e = CValue z) \/ python_evaluate true e = CNotInt) /\
  (integer_validation true e = SOk \/ integer_validation true e = SFail FValidation).
Proof. intros e H. split; [apply integer_never_escapes | apply integer_validation_never_internal]; exact H. Qed.
Print Assumptions C18_integer_never_internal.

(** Without that premise it is false: an expression that raises SystemExit ([exit()]) escapes
    python_evaluate and every handler above it (KF-C18-3). *)
Theorem C18_integer_never_internal_for_every_exception_refuted :
  exists e : iexpr, python_evaluate true e = CEscapes ESystemExit /\ integer_validation true e = SUncaught ESystemExit.
Proof. exists (IOracle (RExc ESystemExit)). exact system_exit_escapes. Qed.
Print Assumptions C18_integer_never_internal_for_every_exception_refuted.

(** The catch set before commit 58541f0 (FIX-C18-1): [1//0] and [1%0] ended in INTERNAL_ERROR. *)
Theorem C18_prefix_integer_never_internal_refuted :
  exists e : iexpr, python_evaluate false e = CEscapes EZeroDivision /\ integer_validation false e = SFail FInternal.
Proof. exists one_floordiv_zero. destruct prefix_integer_internal as [H1 [H2 _]]. split; assumption. Qed.
Print Assumptions C18_prefix_integer_never_internal_refuted.

(** The arithmetic of the model is Python's: floor division / modulo. *)
Theorem C18_floor_div_mod_python : forall x y : Z, y <> 0%Z ->
  exists q r, int_binop OFloorDiv x y = RInt q /\ int_binop OMod x y = RInt r /\
              x = (y * q + r)%Z /\ ((0 <= r < y)%Z \/ (y < r <= 0)%Z).
Proof. exact floor_div_mod_python. Qed.
Print Assumptions C18_floor_div_mod_python.

Theorem C18_pow_negative_not_int : forall x y : Z, (y < 0)%Z -> forall z, int_binop OPow x y <> RInt z.
Proof. exact pow_negative_not_int. Qed.
Print Assumptions C18_pow_negative_not_int.

(** ** (c) replacement templates *)

(** For every template, every number of groups and set of group names: applying [replace] gives
    no failure or a HARD_ERROR of the step - never INTERNAL_ERROR (the third case is an oracle
    miss, which the correspondence check treats as an error of the check itself). *)
Theorem C18_replacement_never_internal : forall (ng : N) (names : list ttext) (ident : list (ttext * bool)) (t : ttext),
  replace_step true ng names ident t = SOk \/
  replace_step true ng names ident t = SFail FHard \/
  (replace_step true ng names ident t = SUnknown /\ parse_template ng names ident t = TOracleMiss).
Proof. exact replacement_never_internal. Qed.
Print Assumptions C18_replacement_never_internal.

(** Before commit 57480c0 (FIX-C18-2): ['\6'] (re.error) and ['\g<foo>'] (IndexError) -> INTERNAL_ERROR. *)
Theorem C18_prefix_replacement_never_internal_refuted :
  exists (ng : N) (t : ttext), replace_step false ng [] [] t = SFail FInternal.
Proof. exists 0%N, [92; 54]%N. destruct prefix_replacement_internal as [H _]. exact H. Qed.
Print Assumptions C18_prefix_replacement_never_internal_refuted.

Theorem C18_template_without_backslash_ok : forall ng names ident t,
  forallb (fun c => negb (N.eqb c BSL)) t = true -> parse_template ng names ident t = TOk.
Proof. exact template_without_backslash_ok. Qed.
Print Assumptions C18_template_without_backslash_ok.

Theorem C18_template_group_reference : forall ng names ident d,
  is_digit d = true -> d <> 48%N ->
  parse_template ng names ident [BSL; d] = if (ng <? digit_val d)%N then TReError else TOk.
Proof. exact template_group_reference. Qed.
Print Assumptions C18_template_group_reference.

(** ** The headline of the property, as far as it is PROVED.

    PARTIAL.  Statement C18 says: errors that stem only from the text are reported as SYNTAX_ERROR
    / VALIDATION_ERROR or at the latest HARD_ERROR, never INTERNAL_ERROR.  Proved below for the
    three text-driven mechanisms that are modelled: (1) whatever an instruction parser raises on a
    text, (2) every integer expression of Python integer arithmetic, (3) every replacement
    template.  MISSING (fuzzed by harness/c18.py, not proved): that no OTHER validator, symbol
    resolution, matcher, transformer, program or actor code raises a non-HardError exception on
    some text - the open known findings KF-C18-2 .. KF-C18-13 (and the repaired FIX-C18-3 .. FIX-C18-7) are counterexamples of exactly this
    missing part (or of termination / BaseException, which the routing theorems put outside). *)
Theorem C18_text_errors_never_internal_partial :
  (forall (m : tc_status) (e : exc), wf_exc e = true -> subclass (e_cls e) EException = true ->
     route m SInstrParse e = Ret (RAccess ACC_SYNTAX_ERROR)) /\
  (forall e : iexpr, (forall c, In c (oracle_excs e) -> subclass c EException = true) ->
     integer_validation true e = SOk \/ integer_validation true e = SFail FValidation) /\
  (forall ng names ident t, parse_template ng names ident t <> TOracleMiss ->
     replace_step true ng names ident t = SOk \/ replace_step true ng names ident t = SFail FHard).
Proof.
  repeat split.
  - intros m e Hw Hs. exact (proj1 (parse_time_errors_are_syntax_errors m e Hw Hs)).
  - exact integer_validation_never_internal.
  - intros ng names ident t Hm. destruct (replacement_never_internal ng names ident t) as [H | [H | [_ H]]];
      [left; exact H | right; exact H | contradiction].
Qed.
Print Assumptions C18_text_errors_never_internal_partial.

(** ** Obligations over tables regenerated from the source / the running code on this run *)

(** The exception classes named by every [except] clause of the anchored functions (read from
    the source text) are the ones of the model's chains, clause by clause. *)
Theorem C18_gen_chains_match : chains_match gen_chains = true.
Proof. vm_compute. reflexivity. Qed.
Print Assumptions C18_gen_chains_match.

(** [issubclass] of the running interpreter on all pairs of modelled classes = [subclass]. *)
Theorem C18_gen_subclass_match : subclass_matches gen_subclass = true.
Proof. vm_compute. reflexivity. Qed.
Print Assumptions C18_gen_subclass_match.

(** Every class raised through the real program at every site (stub instruction / stub actor in the
    real instruction set): the real outcome is the model's [route]. *)
Theorem C18_gen_route_match : route_matches gen_route = true.
Proof. vm_compute. reflexivity. Qed.
Print Assumptions C18_gen_route_match.

Theorem C18_gen_pyeval_match : pyeval_matches gen_pyeval = true /\ replace_sub_matches gen_replace_sub = true.
Proof. split; vm_compute; reflexivity. Qed.
Print Assumptions C18_gen_pyeval_match.

(** Non-vacuity *)
Example C18_example_routing :
  route TPass SInstrStep (Exc EKeyError PNone) = Ret (RExecuted INTERNAL_ERROR) /\
  route TFail SInstrStep (Exc EHardError PNone) = Ret (RExecuted HARD_ERROR) /\
  route TPass SInstrParse (Exc EKeyError PNone) = Ret (RAccess ACC_SYNTAX_ERROR) /\
  route TPass SSdsSetup (Exc EOSError PNone) = Ret RInternal /\
  route TPass SSourceRead (Exc EFileNotFound PNone) = Ret (RAccess FILE_ACCESS_ERROR).
Proof. vm_compute. repeat split; reflexivity. Qed.

Example C18_example_integer :
  (* (7 // -2) % 5 + 2 ** 10 = 1025 ; 2 ** -1 is not an int ; ~5 = -6 *)
  python_evaluate true (IBin OAdd (IBin OMod (IBin OFloorDiv (ILit 7) (INeg (ILit 2))) (ILit 5)) (IBin OPow (ILit 2) (ILit 10)))
    = CValue 1025%Z /\
  python_evaluate true (IBin OPow (ILit 2) (INeg (ILit 1))) = CNotInt /\
  python_evaluate true (IInv (ILit 5)) = CValue (-6)%Z /\
  python_evaluate true (IBin OAdd IName (IBin OFloorDiv (ILit 1) (ILit 0))) = CNotInt.
Proof. vm_compute. repeat split; reflexivity. Qed.

Example C18_example_template :
  (* 'x\1\g<nm>\n' with one group named nm is valid; '\2' is not; '\g<zz>' is an IndexError; '\q' a bad escape *)
  parse_template 1 [[110; 109]%N] [] [120; 92; 49; 92; 103; 60; 110; 109; 62; 92; 110]%N = TOk /\
  parse_template 1 [[110; 109]%N] [] [92; 50]%N = TReError /\
  parse_template 1 [[110; 109]%N] [] [92; 103; 60; 122; 122; 62]%N = TIndexError /\
  parse_template 1 [] [] [92; 113]%N = TReError /\
  parse_template 0 [] [] [92; 52; 48; 48]%N = TReError /\
  parse_template 0 [] [] [92; 49; 48; 48]%N = TOk.
Proof. vm_compute. repeat split; reflexivity. Qed.
