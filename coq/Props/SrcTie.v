(** * All source ties (Python -> Gallina translation of the current source, proved equal to the hand-written models).
    One file per property, so that a check depends only on the translation of its own anchored files:
      Props/SrcTie_C01.v  phase_step_executors._from_*, svh / sh / pfh
      Props/SrcTie_C02.v  full_execution/result.py, exit_values.py
      Props/SrcTie_C05.v  (re-export) the LineNums ties C05's filter -line-nums relies on
      Props/SrcTie_C06.v  (re-export) union / intersection of intervals (shared with C13)
      Props/SrcTie_C07.v  _un_escape_at_beginning_of_line
      Props/SrcTie_C09.v  the symbol-reference delimiters
      Props/SrcTie_C10.v  result_to_sh / result_to_pfh, AccumulatedComponents
      Props/SrcTie_C11.v  InstructionSettings, SetupSettingsBuilder, applier selection of env
      Props/SrcTie_C12.v  path_relativity, relativity_validation, file-creation configuration
      Props/SrcTie_C13.v  range_merge.py, transformers.py, util/interval/*
      Props/SrcTie_C15.v  depth limits of the recursive files generator
      Props/SrcTie_C16.v  the reporters' status sets, the suite exit values
      Props/SrcTie_C17.v  _separate_configuration_elements
      Props/SrcTie_C19.v  TIMEOUT__DEFAULT
    (each is added to its check by `common.source_tie('Cnn')` in the gen_tables of harness/cnn.py).
    This file only collects them (compiling it checks all of them). *)
From Exactly Require Export Props.SrcTie_C06 Props.SrcTie_C05 Props.SrcTie_C07 Props.SrcTie_C11 Props.SrcTie_C15 Props.SrcTie_C17.
From Exactly Require Export Props.SrcTie_C01 Props.SrcTie_C02 Props.SrcTie_C10 Props.SrcTie_C12 Props.SrcTie_C13
  Props.SrcTie_C16 Props.SrcTie_C19 Props.SrcTie_C09.
