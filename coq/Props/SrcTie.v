(** * All source ties (Python -> Gallina translation of the current source, proved equal to the hand-written models).
    One file per property, so that a check depends only on the translation of its own anchored files:
      Props/SrcTie_C13.v  range_merge.py, util/interval/*            (EXTRA_PROPS of harness/c13.py)
      Props/SrcTie_C02.v  full_execution/result.py, exit_values.py   (EXTRA_PROPS of harness/c02.py)
      Props/SrcTie_C16.v  the reporters' status sets                 (EXTRA_PROPS of harness/c16.py)
    This file only collects them (compiling it checks all of them). *)
From Exactly Require Export Props.SrcTie_C13 Props.SrcTie_C02 Props.SrcTie_C16.

Check SrcTie_C13_merge.
Check SrcTie_C13_union.
Check SrcTie_C02_translate_status.
Check SrcTie_C16_success_statuses.
