(** Property C03 — validation precedes execution.  Statements only. *)
From Coq Require Import List Bool Arith.
From Exactly Require Import Lib.Harness Model.Outcome Model.Exec Model.World Spec.C01 Spec.C04 Proofs.WorldProofs.
Import ListNotations.

(** If any step of the validation block fails — act parse, symbol validation or pre-sds validation of
    ANY instruction of ANY phase, including the last one of [cleanup] — then only validation steps
    have been invoked, no sandbox exists, the action to check was not started, and that failure is
    the outcome. *)
Theorem C03_invalid_no_effect_partial : forall tc f,
  ffail (sched_steps tc block_validate) = Some f ->
  let (t, r) := partial_execute tc in
  Forall (fun e => is_validation_event e = true) t /\ ~ In ESandbox t /\
  pr_failure r = Some f /\ pr_has_sds r = false /\ pr_has_atc_outcome r = false.
Proof. exact invalid_case_has_no_effect. Qed.
Print Assumptions C03_invalid_no_effect_partial.
(** "partial": proved for the scheduler.  That each REAL instruction reports each class of defect
    in a validation step (rather than in main) is per-instruction code outside the model; it is
    covered by the correspondence run (defect classes x phases x positions). *)

Theorem C03_invalid_verdict_is_that_steps : forall tc f,
  ffail (sched_steps tc block_validate) = Some f ->
  exists i, nth_error (instrs_of tc (f_phase f)) (f_idx f) = Some i /\ outcome (i (f_step f)) = Some (f_status f)
            /\ in_validation f = true.
Proof. exact invalid_case_verdict. Qed.
Print Assumptions C03_invalid_verdict_is_that_steps.

(** The whole file (every phase, included files) is read, preprocessed and parsed before anything
    is executed: an error there means nothing at all happens. *)
Theorem C03_access_error_no_execution : forall keep s eff w e,
  access s = StageErr e -> process keep s eff w = (w, [], AccessErr e).
Proof. exact access_error_no_execution. Qed.
Print Assumptions C03_access_error_no_execution.

Theorem C03_syntax_error_anywhere : forall s,
  s_readable s = true -> s_preprocess_ok s = true -> s_includes_readable s = true -> s_parses s = false ->
  access s = StageErr ACC_SYNTAX_ERROR.
Proof. exact parse_error_anywhere_is_access_error. Qed.
Print Assumptions C03_syntax_error_anywhere.

Theorem C03_symbol_command_no_execution : forall s,
  Forall (fun e => is_validation_event e = true) (fst (symbol_command s)).
Proof. exact symbol_command_no_execution. Qed.
Print Assumptions C03_symbol_command_no_execution.

Example C03_example :
  let bad : instr := fun k => if stepk_eqb k SValPre then BValErr else BOk in
  let tc := TC [] [ok_instr] ok_instr [ok_instr] [ok_instr] [ok_instr; bad] TPass false in
  ffail (sched_steps tc block_validate) = Some (Failure Cleanup SValPre 1 FValidation) /\
  fr_status (snd (full_execute tc)) = VALIDATION_ERROR /\ length (fst (full_execute tc)) = 13.
Proof. vm_compute. repeat split. Qed.
