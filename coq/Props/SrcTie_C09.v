(** * Source tie for property C09 (string syntax): the symbol-reference delimiters of the source text. *)
From Coq Require Import NArith List String.
From Exactly Require Import Lib.PyVal Model.Tok Gen.Src_SymbolSyntax Proofs.SrcTieSymbolSyntax.
Import ListNotations.

Theorem SrcTie_C09_symbol_reference_delimiters :
  (exists s, py_symbol_syntax_SYMBOL_REFERENCE_BEGIN = VStr s /\ codes s = [AT; LBR]) /\
  (exists s, py_symbol_syntax_SYMBOL_REFERENCE_END = VStr s /\ codes s = [RBR; AT]).
Proof. exact tie_symbol_reference_delimiters. Qed.
Print Assumptions SrcTie_C09_symbol_reference_delimiters.
