(** * Source tie for property C01 (phased execution protocol): what a RETURNED result of an instruction step means to the
    executor -- the [_from_*] translators of execution/impl/phase_step_executors.py with the result classes svh / sh /
    pfh, as translated from the current Python source text (Gen/Src_ExecSteps.v, regenerated on every check), against
    [outcome] of Model/Exec.v.  (Raised exceptions, [PreviousPhase] selection and everything with try/except are outside
    the translator's subset: tied behaviourally only.) *)
From Coq Require Import ZArith List Bool String.
From Exactly Require Import Lib.PyVal Model.Outcome Model.Exec Gen.Src_ExecSteps Proofs.SrcTieExecSteps Proofs.SrcTieOutcomeEnc.
Import ListNotations.
Local Open Scope Z_scope.

Theorem SrcTie_C01_from_svh : forall msg, py_ok msg = true -> msg <> VNone ->
  py_phase_step_executors__from_success_or_validation_error_or_hard_error py_svh_new_svh_success
  = enc_outcome (outcome BOk) msg /\
  py_phase_step_executors__from_success_or_validation_error_or_hard_error (py_svh_new_svh_validation_error msg)
  = enc_outcome (outcome BValErr) msg /\
  py_phase_step_executors__from_success_or_validation_error_or_hard_error (py_svh_new_svh_hard_error msg)
  = enc_outcome (outcome BHardRet) msg.
Proof. exact tie_from_svh. Qed.
Print Assumptions SrcTie_C01_from_svh.

Theorem SrcTie_C01_from_sh : forall msg, py_ok msg = true -> msg <> VNone ->
  py_phase_step_executors__from_success_or_hard_error py_sh_new_sh_success = enc_outcome (outcome BOk) msg /\
  py_phase_step_executors__from_success_or_hard_error (py_sh_new_sh_hard_error msg) = enc_outcome (outcome BHardRet) msg.
Proof. exact tie_from_sh. Qed.
Print Assumptions SrcTie_C01_from_sh.

Theorem SrcTie_C01_from_pfh : forall msg, py_ok msg = true ->
  py_phase_step_executors__from_pass_or_fail_or_hard_error py_pfh_new_pfh_pass = enc_outcome (outcome BOk) msg /\
  py_phase_step_executors__from_pass_or_fail_or_hard_error (py_pfh_new_pfh_fail msg) = enc_outcome (outcome BFail) msg /\
  py_phase_step_executors__from_pass_or_fail_or_hard_error (py_pfh_new_pfh_hard_error msg) = enc_outcome (outcome BHardRet) msg.
Proof. exact tie_from_pfh. Qed.
Print Assumptions SrcTie_C01_from_pfh.

Theorem SrcTie_C01_controlled_failure_members :
  py_single_instruction_executor_PartialControlledFailureEnum_members = map enc_pcf [FValidation; FFail; FHard].
Proof. exact tie_pcf_members. Qed.
Print Assumptions SrcTie_C01_controlled_failure_members.

(** the members carry the integer values of ExecutionFailureStatus (the partial result takes the status over by value) *)
Theorem SrcTie_C01_controlled_failure_values :
  forall f, In f [FValidation; FFail; FHard] -> py_enum_value (enc_pcf f) = py_enum_value (enc_fail f).
Proof. intros f [<-|[<-|[<-|[]]]]; reflexivity. Qed.
Print Assumptions SrcTie_C01_controlled_failure_values.
