(** C07 x C01 — what is executed is a function of the per-phase instruction elements of the parsed document.

    C07 (Model/Doc.v) proves what the reader yields per phase; C01 (Model/Exec.v) proves the execution protocol
    for a [testcase] whose phases are instruction lists.  The link: [to_testcase] builds the executed test
    case from a parsed document — the instruction elements of conf / setup / before-assert / assert / cleanup
    in reading order (comments and empty lines dropped, included files spliced in by the reader), the source
    lines of the act phase as the one action to check.  Instruction semantics is outside C07 and enters as
    oracles on the source text (and phase): [sem], [act_sem], [status_of].  Statements only. *)
From Coq Require Import NArith List Bool.
From Exactly Require Import Model.Outcome Model.Exec Model.Doc Spec.C07 Proofs.DocOrder Proofs.DocExec Proofs.DocExecExamples.
Import ListNotations.

(** The executed test case depends on the per-phase instruction contents only (not on line numbers, not on
    comments / empty lines, not on which block an instruction stood in). *)
Theorem C07C01_executed_case_is_function_of_phase_contents :
  forall sem act_sem status_of act_only d d',
    (forall s, instr_contents (d' s) = instr_contents (d s)) ->
    to_testcase sem act_sem status_of act_only d' = to_testcase sem act_sem status_of act_only d.
Proof. exact to_testcase_ext. Qed.
Print Assumptions C07C01_executed_case_is_function_of_phase_contents.

(** "The order in which phases appear in the file does not influence execution": two documents of
    self-contained phase blocks (hypotheses of [C07_phase_order_irrelevant]) related by a rearrangement that
    keeps the relative order of the blocks of each phase are both parsed, give the SAME executed test case,
    hence the same trace of events and the same result of [full_execute] — for all instruction semantics. *)
Theorem C07C01_phase_order_does_not_influence_execution :
  forall sem act_sem status_of act_only
         iparse fs contents depth root path dir (C : block -> list content) bs bs',
    let fi := FileInfo path [] dir in
    let finc := flat_include iparse fs contents depth [root] fi in
    Forall header_ok bs -> Forall (fun b => self_contained iparse finc fi b (C b)) bs -> same_order bs bs' ->
    exists d d',
      parse_root iparse fs contents depth root path dir (doc_of_blocks bs) = Ok d /\
      parse_root iparse fs contents depth root path dir (doc_of_blocks bs') = Ok d' /\
      to_testcase sem act_sem status_of act_only d' = to_testcase sem act_sem status_of act_only d /\
      full_execute (to_testcase sem act_sem status_of act_only d')
      = full_execute (to_testcase sem act_sem status_of act_only d).
Proof. exact phase_order_same_execution. Qed.
Print Assumptions C07C01_phase_order_does_not_influence_execution.

(** Every failure the executor reports names an instruction of the test case: instruction number [f_idx] of
    phase [f_phase] exists and its behaviour at step [f_step] is the reported status (for every test case). *)
Theorem C07C01_failure_names_an_instruction :
  forall tc t r f,
    full_execute tc = (t, r) -> fr_failure r = Some f ->
    exists i, nth_error (instrs_of tc (f_phase f)) (f_idx f) = Some i /\ outcome (i (f_step f)) = Some (f_status f).
Proof. exact full_execute_good. Qed.
Print Assumptions C07C01_failure_names_an_instruction.

(** The failing instruction named in the outcome can be traced to its exact source lines: for a failure in a
    phase other than [act], [f_idx] is the index, among the instruction elements of that phase of the parsed
    document, of an element [e] whose recorded location is exact in the sense of [C07_source_location_exact]
    (file as written, chain of real inclusion directives, first line number and lines of that file) and whose
    source text has the reported behaviour; a failure of [act] is that of the one action to check (index 0),
    built from act elements all of which are located. *)
Theorem C07C01_failure_traced_to_source :
  forall sem act_sem status_of act_only iparse fs contents depth root path dir ls d t r f,
    contents root = Some ls ->
    parse_root iparse fs contents depth root path dir ls = Ok d ->
    full_execute (to_testcase sem act_sem status_of act_only d) = (t, r) -> fr_failure r = Some f ->
    (f_phase f <> Act ->
     exists e, nth_error (instr_elements d (sec_of_phase (f_phase f))) (f_idx f) = Some e /\
               e_kind e = KInstr /\
               located_element fs contents root dir path (sec_of_phase (f_phase f)) e = true /\
               outcome (sem (sec_of_phase (f_phase f)) (ls_lines (e_src e)) (f_step f)) = Some (f_status f)) /\
    (f_phase f = Act ->
     f_idx f = 0%nat /\
     outcome (act_sem (concat (instr_sources d SAct)) (f_step f)) = Some (f_status f) /\
     forall e, In e (instr_elements d SAct) -> located_element fs contents root dir path SAct e = true).
Proof. exact failure_traced_to_source. Qed.
Print Assumptions C07C01_failure_traced_to_source.

(** the same as a lookup lemma *)
Corollary C07C01_failure_lookup :
  forall sem act_sem status_of act_only iparse fs contents depth root path dir ls d t r f e,
    contents root = Some ls ->
    parse_root iparse fs contents depth root path dir ls = Ok d ->
    full_execute (to_testcase sem act_sem status_of act_only d) = (t, r) -> fr_failure r = Some f ->
    f_phase f <> Act ->
    nth_error (instr_elements d (sec_of_phase (f_phase f))) (f_idx f) = Some e ->
    located_element fs contents root dir path (sec_of_phase (f_phase f)) e = true /\
    outcome (sem (sec_of_phase (f_phase f)) (ls_lines (e_src e)) (f_step f)) = Some (f_status f).
Proof.
  intros sem act_sem status_of act_only iparse fs contents depth root path dir ls d t r f e Hc Hp He Hf Hna Hn.
  destruct (failure_traced_to_source sem act_sem status_of act_only iparse fs contents depth root path dir ls d t r f Hc Hp He Hf)
    as [H _].
  destruct (H Hna) as [e' [Hn' [_ [Hl Ho]]]]. rewrite Hn in Hn'. injection Hn' as <-. split; assumption.
Qed.
Print Assumptions C07C01_failure_lookup.

(** *** Non-vacuity: a test case with [assert] BEFORE [setup] and [act], and an included file in [assert]
    (cases frozen from the real parser in Proofs/DocExecExamples.v).  Semantics oracle of the example: the
    assertion whose text is "exit-code == 1" fails, everything else succeeds. *)
Definition x_fail_text : text := [101;120;105;116;45;99;111;100;101;32;61;61;32;49]%N.   (* exit-code == 1 *)
Definition x_sem (s : sec) (src : list text) : instr :=
  fun k => match s, k, src with
           | SAssert, SMain, [l] => if text_eqb l x_fail_text then BFail else BOk
           | _, _, _ => BOk
           end.
Definition x_act_sem (src : list text) : instr := fun _ => BOk.
Definition x_status (conf : list (list text)) : Outcome.tc_status := TPass.
Definition x_doc (c : dcase) : rawdoc :=
  match parse_root (ires_of_table (dc_files c) (dc_oracle c)) (fs_of_table (dc_fs c)) (contents_of_table (dc_files c))
                   (S (length (dc_files c))) (dc_root c) (dc_root_path c) (dc_root_dir c) (dc_lines c) with
  | Ok d => d
  | Err _ => empty_doc
  end.
Definition x_tc (c : dcase) : testcase := to_testcase x_sem x_act_sem x_status false (x_doc c).
(** where the element came from: (file, first line, [(including file, line of the directive)]) *)
Definition x_where (e : element) := (e_path e, ls_first (e_src e), map (fun l => (l_path l, ls_first (l_src l))) (e_chain e)).
Definition x_a : text := [97;46;120;108;121]%N.           (* a.xly *)
Definition x_r : text := [114;46;99;97;115;101]%N.        (* r.case *)

Example C07C01_example :
  (* both files are what the real parser observed, and renderings of the same blocks in two orders *)
  check_dcase xo_case = (true, true) /\ check_dcase xo_case' = (true, true) /\
  dc_lines xo_case = doc_of_blocks xo_blocks /\ dc_lines xo_case' = doc_of_blocks xo_blocks' /\
  same_phase_order xo_blocks xo_blocks' = true /\
  (* same execution: FAIL, reported for instruction 1 of [assert] at step main *)
  full_execute (x_tc xo_case') = full_execute (x_tc xo_case) /\
  fr_status (snd (full_execute (x_tc xo_case))) = FAIL /\
  fr_failure (snd (full_execute (x_tc xo_case))) = Some (Failure Assert SMain 1 FFail) /\
  (* ... which is line 2 of a.xly, included from line 3 of r.case ([assert] first) resp. line 7 ([assert] last) *)
  option_map x_where (nth_error (instr_elements (x_doc xo_case) SAssert) 1) = Some (x_a, 2%N, [(x_r, 3%N)]) /\
  option_map x_where (nth_error (instr_elements (x_doc xo_case') SAssert) 1) = Some (x_a, 2%N, [(x_r, 7%N)]).
Proof. vm_compute. repeat split; reflexivity. Qed.
