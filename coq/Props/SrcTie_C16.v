(** * Source tie for property C16 (suite run): the status sets of the two reporters as translated from the current
    Python source text (Gen/Src_Reporters.v, regenerated on every check) classify exactly as Model/Suite.v. *)
From Coq Require Import ZArith List Bool String.
From Exactly Require Import Lib.PyVal Model.Outcome Model.Suite Gen.Src_Reporters Proofs.SrcTieOutcomeEnc Proofs.SrcTieReporters.
Import ListNotations.
Local Open Scope Z_scope.

Theorem SrcTie_C16_success_statuses : forall s has_sds atc,
  py_in (enc_full s) py_simple_progress_reporter_SUCCESS_STATUSES = VBool (progress_success (Executed s has_sds atc)).
Proof. exact tie_success_statuses. Qed.
Print Assumptions SrcTie_C16_success_statuses.

Theorem SrcTie_C16_junit_statuses : forall s has_sds atc,
  py_in (enc_full s) py_junit_FAIL_STATUSES = VBool (is_failure (junit_classify (Executed s has_sds atc))) /\
  py_in (enc_full s) py_junit_ERROR_STATUSES = VBool (is_error (junit_classify (Executed s has_sds atc))).
Proof. exact tie_junit_statuses. Qed.
Print Assumptions SrcTie_C16_junit_statuses.

Theorem SrcTie_C16_enum_members :
  py_result_FullExeResultStatus_members
  = map enc_full [SYNTAX_ERROR; PASS; VALIDATION_ERROR; FAIL; SKIPPED; XFAIL; XPASS; HARD_ERROR; INTERNAL_ERROR].
Proof. exact tie_full_members. Qed.
Print Assumptions SrcTie_C16_enum_members.
