(** * Source tie for property C16 (suite run): the status sets of the two reporters as translated from the current
    Python source text (Gen/Src_Reporters.v, regenerated on every check) classify exactly as Model/Suite.v. *)
From Coq Require Import ZArith List Bool String.
From Exactly Require Import Lib.PyVal Model.Outcome Model.Suite Gen.Src_Reporters Proofs.SrcTieOutcomeEnc Proofs.SrcTieReporters.
Import ListNotations.
Local Open Scope Z_scope.

Theorem SrcTie_C16_success_statuses : forall s has_sds atc,
  py_in (enc_full s) py_simple_progress_reporter_SUCCESS_STATUSES = VBool (progress_success (Executed s has_sds atc)).
Proof. exact tie_success_statuses. Qed.
Print Assumptions SrcTie_C16_success_statuses.

Theorem SrcTie_C16_junit_statuses : forall s has_sds atc,
  py_in (enc_full s) py_junit_FAIL_STATUSES = VBool (is_failure (junit_classify (Executed s has_sds atc))) /\
  py_in (enc_full s) py_junit_ERROR_STATUSES = VBool (is_error (junit_classify (Executed s has_sds atc))).
Proof. exact tie_junit_statuses. Qed.
Print Assumptions SrcTie_C16_junit_statuses.

Theorem SrcTie_C16_enum_members :
  py_result_FullExeResultStatus_members
  = map enc_full [SYNTAX_ERROR; PASS; VALIDATION_ERROR; FAIL; SKIPPED; XFAIL; XPASS; HARD_ERROR; INTERNAL_ERROR].
Proof. exact tie_full_members. Qed.
Print Assumptions SrcTie_C16_enum_members.

(** the exit values of a suite run (test_suite/exit_values.py): OK/0 when every case succeeded, ERROR/4 otherwise,
    INVALID_SUITE/3 when the suite cannot be read *)
Theorem SrcTie_C16_suite_exit_values :
  (py_attr_exit_code py_exit_values_ALL_PASS = VInt (fst (progress_final []))
   /\ py_attr_exit_identifier py_exit_values_ALL_PASS = VStr "OK") /\
  (forall r rs, progress_success r = false ->
     py_attr_exit_code py_exit_values_FAILED_TESTS = VInt (fst (progress_final (r :: rs)))) /\
  py_attr_exit_identifier py_exit_values_FAILED_TESTS = VStr "ERROR" /\
  (forall rep fs root outcome e, read_root fs root = inl e ->
     py_attr_exit_code py_exit_values_INVALID_SUITE = VInt (run_exit (run_suite rep fs root outcome))) /\
  py_attr_exit_identifier py_exit_values_INVALID_SUITE = VStr "INVALID_SUITE".
Proof. exact tie_suite_exit_values. Qed.
Print Assumptions SrcTie_C16_suite_exit_values.
