(** Property C12 - paths resolve under their relativity root; home directories are write-protected.
    Theorem statements only. *)
From Coq Require Import NArith List Bool String.
From Exactly Require Import Lib.Harness Model.Paths Spec.C12 Proofs.PathsParse Proofs.PathsJoin Proofs.PathsValid Proofs.PathsMeaning Gen.C12_tables.
Import ListNotations.
Local Open Scope N_scope.

(** A relativity option outside the accepted set of the argument is a syntax error, whatever PATH-STRING
    follows, for every configuration. *)
Theorem C12_option_not_accepted_is_syntax_error :
  forall (c : conf) (r : relopt) (st : option strtok),
    rel_in r (v_rels (c_acc c)) = false -> parse_path c (PArg (ROpt r) st) = PSyntaxError.
Proof. exact option_not_accepted_is_syntax_error. Qed.
Print Assumptions C12_option_not_accepted_is_syntax_error.

(** A table built by symbol validation ([validate_defs], starting from the empty table) is well formed: every
    definition was validated against the older ones, names are unique. *)
Theorem C12_validated_table_wf : forall defs tbl, validate_defs [] defs = (VAccept, tbl) -> wf tbl.
Proof. intros defs tbl. apply validate_defs_wf. exact I. Qed.
Print Assumptions C12_validated_table_wf.

(** What symbol validation accepts resolves: the error outcomes of the model's [resolve] (undefined symbol,
    wrong type, list as path - exceptions in the real program) are unreachable after validation, and on a well
    formed table validation itself never hits one. *)
Theorem C12_validated_resolves : forall tbl s,
  validate_refs tbl (sdv_refs s) = VAccept -> exists d, resolve tbl s = Ok d.
Proof. exact validated_resolves. Qed.
Print Assumptions C12_validated_resolves.

Theorem C12_validation_never_crashes : forall tbl refs, wf tbl -> validate_refs tbl refs <> VCrash.
Proof. exact wf_validate_refs_no_crash. Qed.
Print Assumptions C12_validation_never_crashes.

(** Creation targets.  For the configuration of every argument that names a file or directory to create or
    modify (accepted = {act, tmp, cd}, see C12_gen_creating_confs), for every symbol table and every argument:
    if parse and symbol validation accept, the resolved path has relativity act, tmp or cd.
    PARTIAL: guard [own_string_abs tbl a = false] - the PATH-STRING of the argument itself (after substitution
    of string symbols) is not absolute.  Without the guard the clause is refuted (next theorem; known finding
    KF-C12-1): a plain absolute PATH-STRING is accepted as a destination. *)
Theorem C12_creation_target_relativity_partial : forall req tbl a s d,
  parse_path (creation_conf req) a = PParsed s ->
  validate_refs tbl (sdv_refs s) = VAccept ->
  resolve tbl s = Ok d ->
  own_string_abs tbl a = false ->
  creation_rel_ok (ddv_relativity d) = true.
Proof. exact creation_target_relativity. Qed.
Print Assumptions C12_creation_target_relativity_partial.

Definition tok (s : String.string) : strtok := StrTok QPlain [FConst (text_of_string s)].
Definition probe_env : env :=
  Env (parse_pp (text_of_string "/H/home"%string)) (parse_pp (text_of_string "/H/act-home"%string)) (parse_pp (text_of_string "/S/sds"%string))
      (parse_pp (text_of_string "/S/sds/act/sub"%string)).

(** [file /abs/x = ..]: parsed, nothing to validate, resolved - with absolute relativity. *)
Theorem C12_creation_target_relativity_refuted :
  exists a s d, parse_path (creation_conf true) a = PParsed s /\ validate_refs [] (sdv_refs s) = VAccept /\
                resolve [] s = Ok d /\ creation_rel_ok (ddv_relativity d) = false.
Proof.
  exists (PArg RNone (Some (tok "/abs/x"%string))). eexists. eexists. vm_compute. repeat split; reflexivity.
Qed.
Print Assumptions C12_creation_target_relativity_refuted.

(** "However many symbol definitions it is routed through": if the argument goes through a path symbol whose
    chain of definitions (by -rel SYMBOL or a leading symbol reference; ANY length - [Chain] is inductive)
    ends in relativity home, act-home, result or absolute, symbol validation rejects it (VALIDATION_ERROR,
    before anything is executed). *)
Theorem C12_illegal_relativity_through_chain_rejected : forall req tbl a s n r,
  wf tbl ->
  parse_path (creation_conf req) a = PParsed s ->
  path_symbol_of s = Some n ->
  Chain tbl n r -> creation_rel_ok r = false ->
  validate_refs tbl (sdv_refs s) = VReject.
Proof. exact chain_rejected. Qed.
Print Assumptions C12_illegal_relativity_through_chain_rejected.

Theorem C12_chain_relativity : forall tbl n r,
  Chain tbl n r -> wf tbl -> forall d, rvalue_of_sym tbl n = Ok (RVPath d) -> ddv_relativity d = r.
Proof. exact chain_relativity. Qed.
Print Assumptions C12_chain_relativity.

(** Resolution, end to end.  For every list of definitions that symbol validation accepts ([run_defs]: def
    string / path / list / other, path definitions parsed with the configuration of [def]), every argument
    configuration [c] of an instruction argument, every argument [a] (a relativity option, the default
    relativity, -rel SYMBOL, a leading symbol reference, plain strings with embedded string symbols; any
    chain of definitions): if parse accepts and the path resolves to [d], then the declarative reading of the
    manual ([spec_meaning], Spec/C12.v) gives the argument a meaning [m], and for EVERY env (in particular every
    current directory at the time of use) the resolved absolute path is [denote e m] - the documented root
    directory joined with the suffix - and the relativity symbol validation judges is that of [m].
    PARTIAL, guards: [ddv_parts_rel d] - no PATH-STRING that is joined to a root is absolute; [explicit_ok] /
    [defs_explicit_ok] - where a relativity is given explicitly (in the argument or in a path definition) the
    PATH-STRING is not absolute and the relativity is not -rel-here.  Without the guards the clause is refuted
    ([C12_resolves_under_root_refuted], known finding KF-C12-1).  -rel-here (only available in def) is not
    covered by this theorem; the correspondence run covers it. *)
Theorem C12_argument_resolves_to_documented_path_partial : forall here defs tbl c a s d,
  run_defs here [] 0 defs = (None, tbl) ->
  c_here c = None ->
  parse_path c a = PParsed s -> resolve tbl s = Ok d ->
  ddv_parts_rel d = true -> explicit_ok tbl a = true -> defs_explicit_ok here [] defs = true ->
  exists m, spec_meaning here defs (c_default c) a = Some m /\
            (forall e, ddv_value e d = denote e m) /\ ddv_relativity d = meaning_rel m.
Proof. exact argument_meaning. Qed.
Print Assumptions C12_argument_resolves_to_documented_path_partial.

(** The same at the level of a resolved value: a path with relativity [r] none of whose PATH-STRINGs (its own
    and those of the symbol definitions it is built from) is absolute denotes the root directory of [r]
    followed by the components of those PATH-STRINGs, in order - for every env.
    PARTIAL: the guard [ddv_parts_rel]; without it the clause is refuted (next theorem, KF-C12-1). *)
Theorem C12_resolves_under_root_partial : forall d e r,
  ddv_relativity d = Some r -> ddv_parts_rel d = true ->
  ddv_value e d = under (root_of e r) (suffix_parts d).
Proof. exact resolves_under_root. Qed.
Print Assumptions C12_resolves_under_root_partial.

(** [file -rel-act /abs/x = ..] and the same through a string symbol: the documented meaning is the act
    directory joined with abs/x; the resolved path is /abs/x (pathlib: an absolute right operand replaces the
    left one). *)
Theorem C12_resolves_under_root_refuted :
  (exists a s d m, parse_path (creation_conf true) a = PParsed s /\ validate_refs [] (sdv_refs s) = VAccept /\
                   resolve [] s = Ok d /\ spec_meaning [] [] RCwd a = Some m /\ meaning_rel m = Some RAct /\
                   ddv_value probe_env d <> denote probe_env m)
  /\
  (exists defs tbl a s d m, run_defs [] [] 0 defs = (None, tbl) /\
                   parse_path (creation_conf true) a = PParsed s /\ validate_refs tbl (sdv_refs s) = VAccept /\
                   resolve tbl s = Ok d /\ ddv_relativity d = Some RAct /\ spec_meaning [] defs RCwd a = Some m /\
                   ddv_value probe_env d <> denote probe_env m /\
                   is_prefix_parts (pp_parts (e_sds probe_env)) (pp_parts (ddv_value probe_env d)) = false).
Proof.
  split.
  - exists (PArg (ROpt RAct) (Some (tok "/abs/x"%string))). eexists. eexists. eexists. vm_compute.
    repeat split; try reflexivity. discriminate.
  - exists [(1%N, SDString [FConst (text_of_string "/abs/x"%string)])]. eexists.
    exists (PArg (ROpt RAct) (Some (StrTok QPlain [FSym 1%N]))). eexists. eexists. eexists. vm_compute.
    repeat split; try reflexivity. discriminate.
Qed.
Print Assumptions C12_resolves_under_root_refuted.

(** -rel-cd is resolved at the time of use: a symbol table holds no directory; the value of a path with
    relativity -rel-cd is computed from the current directory of the env of the USE, and that is the only
    relativity through which the current directory enters. *)
Theorem C12_rel_cd_resolved_at_use :
  (forall d e, ddv_relativity d = Some RCwd -> ddv_parts_rel d = true ->
               ddv_value e d = under (e_cwd e) (suffix_parts d))
  /\
  (forall d e1 e2, e_hds_case e1 = e_hds_case e2 -> e_hds_act e1 = e_hds_act e2 -> e_sds e1 = e_sds e2 ->
                   ddv_relativity d <> Some RCwd -> ddv_value e1 d = ddv_value e2 d).
Proof. split; [exact rel_cd_at_use | exact only_cd_depends_on_cwd]. Qed.
Print Assumptions C12_rel_cd_resolved_at_use.

(** Non-vacuity: [def path P1 = -rel-cd x], [def path P2 = -rel P1 a/..], [def path P3 = @[P2]@/b]; the
    argument [-rel P3 f.txt] of [file] is accepted and denotes <cwd at use>/x/a/../b/f.txt, for two different
    current directories; with P1 = -rel-home x it is rejected. *)
Example C12_example :
  let defs r := [(1, SDPath (PArg (ROpt r) (Some (tok "x"%string)))); (2, SDPath (PArg (RSym 1) (Some (tok "a/.."%string))));
                 (3, SDPath (PArg RNone (Some (StrTok QPlain [FSym 2; FConst (text_of_string "/b"%string)]))))]%N in
  let arg := PArg (RSym 3%N) (Some (tok "f.txt"%string)) in
  let e2 := Env (e_hds_case probe_env) (e_hds_act probe_env) (e_sds probe_env) (parse_pp (text_of_string "/S/sds/tmp"%string)) in
  (match run_defs probe_here [] 0 (defs RCwd) with
   | (None, tbl) => match run_arg (creation_conf true) arg probe_env e2 tbl true with
                    | AResolved rel _ v1 v2 => (rel, v1, v2)
                    | _ => (None, [], [])
                    end
   | _ => (None, [], [])
   end) = (Some RCwd, text_of_string "/S/sds/act/sub/x/a/../b/f.txt"%string, text_of_string "/S/sds/tmp/x/a/../b/f.txt"%string)
  /\ (match run_defs probe_here [] 0 (defs RHdsCase) with
      | (None, tbl) => run_arg (creation_conf true) arg probe_env e2 tbl true
      | _ => AParsedOnly
      end) = ARejected.
Proof. vm_compute. split; reflexivity. Qed.

(** *** Obligations over tables regenerated from the running code on this run (coq/Gen/C12_tables.v). *)

(** The live configuration object of every destination argument (file, dir, copy) is the creation
    configuration: accepted relativities exactly {act, tmp, cd}, absolute not accepted, default cd; and
    the configuration of [def path] is the one the model compiles definitions with. *)
Theorem C12_gen_creating_confs :
  creating_confs_ok gen_arg_confs = true
  /\ forallb (fun l => has_conf gen_arg_confs l true) [label_file_dst; label_dir_dst; label_copy_dst] = true
  /\ option_eqb conf_eqb (conf_of_label gen_arg_confs label_def_path) (Some (def_conf probe_here)) = true.
Proof. vm_compute. repeat split; reflexivity. Qed.
Print Assumptions C12_gen_creating_confs.

(** Each relativity option has the documented name and root directory (REL_OPTIONS_MAP, REL_SDS_RESOLVERS,
    REL_HDS_OPTIONS_MAP under a probe TCDS), all six tabulated. *)
Theorem C12_gen_roots_match :
  forallb (root_row_ok gen_probe_env) gen_roots = true
  /\ forallb (fun r => existsb (fun e => relopt_eqb (fst e) r) gen_roots) all_relopts = true.
Proof. vm_compute. split; reflexivity. Qed.
Print Assumptions C12_gen_roots_match.

(** file, dir and copy (destination), through the instruction parser of each of the four phases that have
    them: a relativity option parses iff it is act, tmp or cd; a path symbol - referenced by -rel or by a
    leading reference, through chains of 1, 2 and 3 definitions - validates iff the relativity at the end
    of the chain is act, tmp or cd (home, act-home, result and absolute are rejected). *)
Theorem C12_gen_creation_behaviour :
  forallb behaviour_row_ok gen_creation_behaviour = true
  /\ forallb (fun l => existsb (fun row => text_eqb (fst row) l) gen_creation_behaviour) creation_labels = true.
Proof. vm_compute. split; reflexivity. Qed.
Print Assumptions C12_gen_creation_behaviour.
