(** Property C05 — text assertions and text transformers mean what the reference manual says.
    Theorem statements only (proofs in Proofs/TextOps*.v).

    [eval_m], [eval_lm], [eval_t], [eval_src] (Model/TextOps.v) are the implementation-shaped
    evaluators over line iterators and sources; [sem_m], [sem_lm], [sem_t], [sem_src] (Spec/C05.v) are
    the meanings the reference manual gives, as functions of the whole text.  Python's [re],
    [str.upper], [str.lower] and the per-character [str.isspace] are universally quantified
    (oracles); the only things assumed of them are: "\n" is white space, and case conversion respects
    the division of a text into lines ([case_map_ok]).  [mem_buff] (the memory buffer size that
    decides whether a frozen source lives in memory or on disk) is universally quantified too. *)
From Coq Require Import ZArith NArith List Bool.
From Exactly Require Import Lib.Text Model.Interval Model.LineNums Model.TextOps Spec.C13b Spec.C05
     Proofs.TextOpsEquals Proofs.TextOpsReplace Proofs.TextOpsCorrect Proofs.TextOpsFilterC13.
Import ListNotations.

Section Statements.
  Variable re_search : nat -> text -> bool.
  Variable re_full : nat -> text -> bool.
  Variable re_sub : nat -> text -> text.
  Variable py_upper : text -> text.
  Variable py_lower : text -> text.
  Variable is_space : char -> bool.
  Variable mem_buff : N.

  Notation EM := (eval_m re_search re_full re_sub py_upper py_lower is_space mem_buff).
  Notation ET := (eval_t re_search re_full re_sub py_upper py_lower is_space mem_buff).
  Notation ES := (eval_src re_search re_full re_sub py_upper py_lower is_space mem_buff).
  Notation SM := (sem_m re_search re_full re_sub py_upper py_lower is_space).
  Notation ST := (sem_t re_search re_full re_sub py_upper py_lower is_space).
  Notation SS := (sem_src re_search re_full re_sub py_upper py_lower is_space).

  (** Every text matcher built from is-empty, equals, matches [-full], num-lines, every/any line,
      -transformed-by, constant, !, && and || (to any depth, with line matchers and transformers of
      any depth inside), applied to any source - a file, a literal, a transformed source - passes
      exactly when the documented predicate holds of the source's text. *)
  Theorem C05_matcher_correct :
    library_assumptions py_upper py_lower is_space ->
    forall (m : smatcher) (e : tsource), EM m (ES e) = SM m (SS e).
  Proof. exact (matcher_correct re_search re_full re_sub py_upper py_lower is_space mem_buff). Qed.

  (** ... and more generally on every line iterator that is a well-formed line sequence, whatever
      its may-depend-on-external-resources flags. *)
  Theorem C05_matcher_correct_on_lines :
    library_assumptions py_upper py_lower is_space ->
    forall (m : smatcher) (s : src), wf_lines (s_lines s) = true -> EM m s = SM m (text_of s).
  Proof. exact (matcher_correct_on_lines re_search re_full re_sub py_upper py_lower is_space mem_buff). Qed.

  (** Every text transformer (replace with and without -preserve-new-lines and -at, the strip
      variants, char-case, filter LINE-MATCHER, filter -line-nums RANGE... [through C13's model and
      C13_line_nums_exact], grep, identity, | composition), applied to any source, yields exactly
      the documented output text ... *)
  Theorem C05_transformer_correct :
    library_assumptions py_upper py_lower is_space ->
    forall (T : ttrans) (e : tsource), text_of (ET T (ES e)) = ST T (SS e).
  Proof. exact (transformer_correct re_search re_full re_sub py_upper py_lower is_space mem_buff). Qed.

  (** ... and its output is again a well-formed line sequence (every line but possibly the last
      ends in "\n" and contains no other "\n"; no empty line), so that composition, and matchers that
      iterate over lines, see the lines of the output text. *)
  Theorem C05_transformer_lines_wellformed :
    library_assumptions py_upper py_lower is_space ->
    forall (T : ttrans) (s : src), wf_lines (s_lines s) = true ->
      wf_lines (s_lines (ET T s)) = true /\ text_of (ET T s) = ST T (text_of s).
  Proof. exact (transformer_lines_wellformed re_search re_full re_sub py_upper py_lower is_space mem_buff). Qed.

  (** The kind of source does not matter: a file (also: the output of the action to check) and a
      literal with the same text give the same verdict and the same transformed text. *)
  Theorem C05_source_kind_irrelevant :
    library_assumptions py_upper py_lower is_space ->
    forall t : text,
      (forall m, EM m (file_src t) = EM m (str_src t)) /\
      (forall T, text_of (ET T (file_src t)) = text_of (ET T (str_src t))).
  Proof. exact (source_kind_irrelevant re_search re_full re_sub py_upper py_lower is_space mem_buff). Qed.
End Statements.

Print Assumptions C05_matcher_correct.
Print Assumptions C05_matcher_correct_on_lines.
Print Assumptions C05_transformer_correct.
Print Assumptions C05_transformer_lines_wellformed.
Print Assumptions C05_source_kind_irrelevant.

(** Whatever [may_depend_on_external_resources] says of the two sources (before and after
    freezing), i.e. whichever of the four strategies of [equals] is taken - comparison of two files,
    reading a prefix of the expected file, reading a prefix of the actual lines ([len + 1 + 100]
    characters, by whole lines), comparison of two strings - the verdict is equality of the texts. *)
Theorem C05_equals_all_strategies :
  forall expected actual : src, equals_impl expected actual = text_eqb (text_of expected) (text_of actual).
Proof. exact equals_all_strategies. Qed.
Print Assumptions C05_equals_all_strategies.

(** Re-splitting after substitution ([_lines_iterator_from_replacements]): whatever the substitution
    does to the new-lines of each line (removes them, adds some), the lines yielded are exactly the
    lines of the concatenated results - no text is lost, in particular not a last line without "\n". *)
Theorem C05_replace_resplits_lines :
  forall (A : Type) (replacer : A -> text) (lines : list A),
    replace_lines replacer [] lines = lines_lf (concat (map replacer lines)).
Proof. exact replace_resplits_lines. Qed.
Print Assumptions C05_replace_resplits_lines.

(** The memory buffer size - which decides whether a frozen source is kept in memory or in a file,
    and with it the strategy of [equals] - never changes a verdict or a transformed text. *)
Theorem C05_mem_buff_irrelevant :
  forall re_search re_full re_sub py_upper py_lower is_space,
    library_assumptions py_upper py_lower is_space ->
    forall (mem1 mem2 : N) (e : tsource),
      (forall m, eval_m re_search re_full re_sub py_upper py_lower is_space mem1 m
                        (eval_src re_search re_full re_sub py_upper py_lower is_space mem1 e)
                 = eval_m re_search re_full re_sub py_upper py_lower is_space mem2 m
                          (eval_src re_search re_full re_sub py_upper py_lower is_space mem2 e)) /\
      (forall T, text_of (eval_t re_search re_full re_sub py_upper py_lower is_space mem1 T
                                 (eval_src re_search re_full re_sub py_upper py_lower is_space mem1 e))
                 = text_of (eval_t re_search re_full re_sub py_upper py_lower is_space mem2 T
                                   (eval_src re_search re_full re_sub py_upper py_lower is_space mem2 e))).
Proof. exact mem_buff_irrelevant. Qed.
Print Assumptions C05_mem_buff_irrelevant.

(** [filter LINE-MATCHER]: the implementation does not offer every line to the matcher - it first
    computes a line-number interval from the matcher and reads only that interval (property C13).
    Composition with C13's model of that algorithm ([Interval.filter_impl], proved exact in
    C13_filter_exact): for every line matcher of this model, translated to C13's matcher language
    ([to_c13]: [contents] leaves become matchers of unknown class decided by this model's evaluator),
    the algorithm with read-ahead yields exactly the lines the [TFilter] clause of [eval_t] yields. *)
Theorem C05_filter_read_ahead_exact :
  forall re_search re_full re_sub py_upper py_lower is_space mem_buff (lm : TextOps.lmatcher) (lines : list text),
    filter_impl text no_io
                (contents_oracle re_search re_full re_sub py_upper py_lower is_space mem_buff (contents_leaves lm))
                true (to_c13 lm 0) lines
    = map fst (filter (fun line => eval_lm re_search re_full re_sub py_upper py_lower is_space mem_buff lm
                                           (fst (snd line)) (snd (snd line)))
                      (original_and_model_iter lines)).
Proof. exact filter_read_ahead_exact. Qed.
Print Assumptions C05_filter_read_ahead_exact.

(** ** Non-vacuity (concrete oracles: pattern 0 = "\n" replaced by ""; pattern 1 = "a" / "a") *)
Definition ex_sub (k : nat) (t : text) : text := filter (fun c => negb (N.eqb c NL)) t.
Definition ex_search (r : nat) (t : text) : bool := existsb (N.eqb 97) t.
Definition ex_full (r : nat) (t : text) : bool := text_eqb t [97]%N.
Definition ex_id (t : text) : text := t.
Definition ex_space (c : char) : bool := N.eqb c 32 || N.eqb c 10.

(** [replace '\n' ''] joins all lines into one line without new-line (three pending segments). *)
Example C05_example_replace_joins :
  s_lines (eval_t ex_search ex_full ex_sub ex_id ex_id ex_space 8 (TReplace false 0)
                  (file_src [111;44;10; 116;44;10; 104;10]%N)) = [[111;44;116;44;104]%N].
Proof. vm_compute. reflexivity. Qed.

(** [strip] over blank lines around, with an inner blank line kept *)
Example C05_example_strip :
  s_lines (eval_t ex_search ex_full ex_sub ex_id ex_id ex_space 8 TStrip
                  (str_src [32;10; 10; 32;97;32;10; 10; 98;32;10; 32;10]%N)) = [[97;32;10]; [10]; [98]]%N.
Proof. vm_compute. reflexivity. Qed.

(** [every line : contents matches -full a] on "a\na" (last line unterminated) holds; with a
    [filter line-num == 2] in front the source becomes one that may depend on external resources
    and [equals 'a'] takes the prefix-reading strategy *)
Example C05_example_matchers :
  eval_m ex_search ex_full ex_sub ex_id ex_id ex_space 8
         (SAnd (SLine QAll (LContents (SMatches true 0)))
               (STransformed (TFilter (LLineNum (MLeaf (ICmp CEq 2)))) (SEquals (SrcStr [97]%N))))
         (file_src [97;10;97]%N) = true.
Proof. vm_compute. reflexivity. Qed.

(** [filter -line-nums -7 3] on five lines keeps line 3 only (-7 lies before the first line);
    [filter -line-nums 3 -2] on a one-line text keeps nothing; in a chain: upper-cased afterwards *)
Example C05_example_line_nums :
  text_of (eval_t ex_search ex_full ex_sub ex_id ex_id ex_space 8 (TFilterLineNums [RSingle (-7); RSingle 3])
                  (file_src [49;10; 50;10; 51;10; 52;10; 53;10]%N)) = [51;10]%N /\
  text_of (eval_t ex_search ex_full ex_sub ex_id ex_id ex_space 8 (TSeq (TFilterLineNums [RSingle 3; RSingle (-2)]) TStrip)
                  (str_src [111;10]%N)) = [].
Proof. vm_compute. split; reflexivity. Qed.

Example C05_example_library_assumptions : library_assumptions ex_id ex_id ex_space.
Proof.
  unfold library_assumptions. split; [reflexivity|]. split; (split; [reflexivity | split; [now intros | split; [now intros | reflexivity]]]).
Qed.
