(** Property C09 — string syntax: quoting, concatenation, here-documents denote one exact string.
    Theorem statements only; the model is Model/Tok.v, the documented syntax is Spec/C09.v (part 1). *)
From Coq Require Import NArith List Bool.
From Exactly Require Import Model.Tok Spec.C09 Proofs.TokLex Proofs.TokStream Proofs.TokTotal Proofs.TokSplit
     Proofs.TokHere Proofs.TokParse Proofs.TokRich Proofs.TokList Gen.C09_tables.
Import ListNotations.

(** Token boundaries.  A source written as  lead t1 s1 t2 s2 ... tn sn  — every ti a non-empty
    sequence of adjacent naked / soft-quoted / hard-quoted fragments (naked: no white space, no
    quote characters — so #, backslash, reserved words, option-like words, non-ASCII are all
    allowed; quoted: anything but the own quote character, including new-lines), every si
    non-empty white space (sn may be empty) — is tokenised into exactly t1 ... tn: each token
    has the characters of its fragments, its own source text, is "quoted" iff its first fragment
    is quoted; nothing is swallowed, nothing is split; afterwards the stream is exhausted.
    For all token lists, all fragment contents, all separators (no bound). *)
Theorem C09_token_boundaries :
  forall (lead : text) (l : sitems),
    forallb is_sep lead = true -> wf_items l = true ->
    exists obs p q,
      ts_run (lead ++ render_items l) = (obs, EndNull p q) /\ map obs_core obs = spec_tokens l.
Proof. exact token_boundaries. Qed.
Print Assumptions C09_token_boundaries.

(** An unterminated quote (after any number of well-formed tokens) is a syntax error: exactly the
    preceding tokens are delivered, then the look-ahead state is SYNTAX_ERROR, reported at a
    position that is not after the beginning of the token that contains the quote. *)
Theorem C09_unterminated_quote_is_error :
  forall (lead : text) (l : sitems) (u : unterminated),
    forallb is_sep lead = true -> wf_items l = true -> wf_unterm u = true -> last_sep_nonempty l = true ->
    exists obs p q,
      ts_run (lead ++ render_items l ++ render_unterm u) = (obs, EndSyntaxError p q) /\
      map obs_core obs = spec_tokens l /\ (p <= length (lead ++ render_items l))%nat.
Proof. exact unterminated_quote. Qed.
Print Assumptions C09_unterminated_quote_is_error.

(** TokenStream.consume (as repaired by commit 8cce868) never raises IndexError: for EVERY source,
    position and lexer state without a pending syntax error it succeeds, returns the previous head
    and moves the position to where the underlying stream was. *)
Theorem C09_consume_total :
  forall ts : tstream, ts_err ts = false ->
    exists ts', ts_consume ts = Ok (ts_head ts, ts') /\ ts_src ts' = ts_src ts /\ ts_start ts' = ts_io ts.
Proof. exact consume_total. Qed.
Print Assumptions C09_consume_total.

(** symbol_syntax.split computes THE decomposition of a text into constants and references
    @[NAME]@ (the first reference is the leftmost one written in the text, what precedes it is a
    constant, and so on for what follows it): it is a decomposition, every decomposition equals it,
    and nothing is lost.  [alnum] is Python's str.isalnum (any function for which the two
    delimiters @ and ] are not alphanumeric: Gen/C09_tables.v shows Python's is one). *)
Theorem C09_split_correct :
  forall (alnum : N -> bool), alnum AT = false -> alnum RBR = false ->
  forall s : text,
    Decomp alnum s (split alnum s) /\
    (forall frs, Decomp alnum s frs -> frs = split alnum s) /\
    concat (map (fun f => match f with FConst c => c | FSym n => ref_text n end) (split alnum s)) = s /\
    split alnum s = ref_split alnum s.
Proof.
  intros alnum H1 H2 s. repeat split.
  - apply split_Decomp; assumption.
  - intros frs H. apply split_unique; assumption.
  - apply split_concat; assumption.
  - apply split_eq_ref_split; assumption.
Qed.
Print Assumptions C09_split_correct.

(** The premises of C09_split_correct hold of the running Python (regenerated on every run). *)
Theorem C09_python_alnum_facts : gen_alnum_of_delims = [false; false; false].
Proof. exact (proj2 (proj2 (proj2 (proj2 (proj2 (proj2 (proj2 gen_constants_match_model))))))). Qed.

(** Substitution.  A string token written from well-formed fragments, followed by nothing or by a
    separator and ANYTHING: parse_string delivers the fragments [fragments_of t] and stops right
    after the token (at most one separator character further, never beyond a new-line); if the
    token is quoted uniformly (no hard-quoted fragment at all, or hard-quoted fragments only) the
    value of the string under any symbol table is the documented denotation: symbol references
    substituted everywhere / nowhere.  A naked reserved word is rejected. *)
Theorem C09_substitution :
  forall (alnum : N -> bool), alnum AT = false -> alnum RBR = false ->
  forall (lead : text) (t : stoken) (rest : text),
    forallb is_sep lead = true -> wf_tok t = true -> rest_ok rest ->
    (is_reserved_word t = false ->
       exists ts ts',
         ts_init (lead ++ render_tok t ++ rest) = Ok ts /\
         parse_string alnum ts = Ok (fragments_of alnum t, ts') /\
         ts_position ts' = (length lead + length (render_tok t) + adv rest)%nat /\
         ts_src ts' = lead ++ render_tok t ++ rest /\
         (uniform_quoting t = true -> forall e : env, resolve e (fragments_of alnum t) = denoteA alnum e t)) /\
    (is_reserved_word t = true ->
       exists ts, ts_init (lead ++ render_tok t ++ rest) = Ok ts /\ parse_string alnum ts = Raise ExInvalidArg).
Proof.
  intros alnum H1 H2 lead t rest Hl Ht Hr. split; intros Hres.
  - destruct (parse_string_token alnum lead t rest Hl Ht Hr Hres) as (ts & ts' & A & B & C & D).
    exists ts, ts'. repeat split; auto. intros Hu e. apply uniform_value; assumption.
  - apply parse_string_reserved; assumption.
Qed.
Print Assumptions C09_substitution.

(** KNOWN FINDING KF-C09-1.  Without the guard [uniform_quoting] the clause is false of the code:
    the quoting of the token's FIRST character decides for the whole token.  "A"'@[X]@' : the
    reference inside hard quotes is substituted;  'A'"@[X]@" : the reference in soft quotes is not. *)
Definition ascii_alnum (c : N) : bool :=
  (((48 <=? c) && (c <=? 57)) || ((65 <=? c) && (c <=? 90)) || ((97 <=? c) && (c <=? 122)))%N.
Theorem C09_mixed_quotes_refuted :
  exists (e : env) (t1 t2 : stoken),
    wf_tok t1 = true /\ wf_tok t2 = true /\ is_reserved_word t1 = false /\ is_reserved_word t2 = false /\
    (resolve e (fragments_of ascii_alnum t1) = Some [65; 120; 118; 97; 108] /\
    denoteA ascii_alnum e t1 = Some [65; 64; 91; 88; 93; 64] /\ denoteB ascii_alnum e t1 = Some [65; 64; 91; 88; 93; 64] /\
    resolve e (fragments_of ascii_alnum t2) = Some [65; 64; 91; 88; 93; 64] /\
    denoteA ascii_alnum e t2 = Some [65; 120; 118; 97; 108] /\ denoteB ascii_alnum e t2 = Some [65; 120; 118; 97; 108])%N.
Proof.
  exists [([88], [120; 118; 97; 108])]%N, [Soft [65]; Hard [64; 91; 88; 93; 64]]%N, [Hard [65]; Soft [64; 91; 88; 93; 64]]%N.
  vm_compute. repeat split; reflexivity.
Qed.
Print Assumptions C09_mixed_quotes_refuted.

(** Here-documents.  lead <<MARKER trail NL line1 NL ... linek NL MARKER [NL anything]  with a marker
    of [0-9a-zA-Z_-]+ and lines that are ANY texts without new-line other than the marker itself
    (lines that look like other markers, "MARKER " with a trailing blank, section headers,
    comments, quotes, white space of every kind): the rich-string parser delivers exactly
    split (line1 NL ... linek NL) — by C09_split_correct the documented decomposition of the lines
    each with its new-line — and stops right after the end marker. *)
Theorem C09_heredoc_exact :
  forall (alnum : N -> bool) (lead marker trail : text) (lines : list text) (after : option text),
    forallb is_sep lead = true ->
    wf_rich (RHere marker trail lines (HEnd after)) = true ->
    exists ts ts',
      ts_init (lead ++ render_rich (RHere marker trail lines (HEnd after))) = Ok ts /\
      rich_string_parse alnum ts = Ok (split alnum (render_lines lines), ts') /\
      ts_position ts' = length (lead ++ [60; 60] ++ marker ++ trail ++ [NL] ++ render_lines lines ++ marker)%N.
Proof. exact heredoc_exact. Qed.
Print Assumptions C09_heredoc_exact.

(** A here-document without a line equal to the marker (up to the end of the source, whether or
    not the last line ends in a new-line) is a syntax error. *)
Theorem C09_unterminated_heredoc_is_error :
  forall (alnum : N -> bool) (lead marker trail : text) (lines : list text) (last : option text),
    forallb is_sep lead = true ->
    wf_rich (RHere marker trail lines (HMissing last)) = true ->
    exists ts,
      ts_init (lead ++ render_rich (RHere marker trail lines (HMissing last))) = Ok ts /\
      rich_string_parse alnum ts = Raise ExInvalidArg.
Proof. exact heredoc_unterminated. Qed.
Print Assumptions C09_unterminated_heredoc_is_error.

(** RICH-STRING, first form: when the first token neither looks like a here-document start nor
    is the unquoted marker :>, the rich-string parser treats it exactly like a STRING
    (C09_substitution applies to its fragments and value). *)
Theorem C09_rich_string_plain :
  forall (alnum : N -> bool) (lead : text) (t : stoken) (rest : text),
    forallb is_sep lead = true -> wf_tok t = true -> rest_ok rest -> is_reserved_word t = false ->
    plain_for_rich t = true ->
    exists ts ts',
      ts_init (lead ++ render_tok t ++ rest) = Ok ts /\
      rich_string_parse alnum ts = Ok (fragments_of alnum t, ts') /\
      ts_position ts' = (length lead + length (render_tok t) + adv rest)%nat.
Proof. exact rich_string_token. Qed.
Print Assumptions C09_rich_string_plain.

(** RICH-STRING, second form  lead :> gap TEXT [NL anything]  (TEXT any characters but new-line,
    including quotes, #, symbol references, white space of every kind): the string is TEXT with
    white space at both ends removed, decomposed by split; the parser stops at the end of the
    line, so following lines are not touched. *)
Theorem C09_text_until_eol :
  forall (alnum : N -> bool) (lead gap txt : text) (after : option text),
    forallb is_sep lead = true -> wf_rich (REol gap txt after) = true ->
    exists ts ts',
      ts_init (lead ++ render_rich (REol gap txt after)) = Ok ts /\
      rich_string_parse alnum ts = Ok (split alnum (strip_py txt), ts') /\
      ts_position ts' = length (lead ++ [58; 62] ++ gap ++ txt)%N.
Proof. exact text_until_eol. Qed.
Print Assumptions C09_text_until_eol.

(** LIST elements.  lead item ... item [NL anything], an item being a string token followed by
    blanks, or the continuation  backslash blanks NL blanks : the elements are exactly the written
    tokens in order ([elements]: each token with the fragments of C09_substitution; a naked token
    that is exactly one symbol reference is a symbol element), a lone backslash that is not last
    on its line is an element, one that is last continues the list on the next line; the parser
    stops at the end of the last line.  [wfl] (Proofs/TokList.v): every token is well-formed, is
    not a reserved word, separators between things on a line are non-empty.
    PARTIAL: [wfl] also demands that no token contains a new-line inside quotes, and the theorem
    does not cover a list stopped by an unquoted ")" — both are covered by the correspondence
    check only. *)
Theorem C09_list_elements_partial :
  forall (alnum : N -> bool) (lead : text) (its : list litem) (after : option text),
    forallb is_sep_no_nl lead = true -> wfl its = true ->
    exists ts ts',
      ts_init (lead ++ render_slist (SList its None after)) = Ok ts /\
      list_parse alnum ts = Ok (elements alnum its, ts') /\
      ts_position ts' = length (lead ++ concat (map render_litem its)).
Proof. exact list_elements. Qed.
Print Assumptions C09_list_elements_partial.

(** Where tokens are consumed in a loop (list elements, program arguments) a null head — the state
    after an unterminated quote (C09_unterminated_quote_is_error: head None, SYNTAX_ERROR) as well as
    a missing token — on a line that is not blank and not a continuation line is never skipped: the
    element parser is asked and the instruction is rejected. *)
Theorem C09_loops_report_invalid_head :
  forall (alnum : N -> bool) (fuel : nat) (acc : list element) (ts : tstream),
    ts_head ts = None -> tp_is_at_eol ts = false ->
    text_eqb (strip_py (ts_remaining_part_of_current_line ts)) [BSL] = false ->
    list_loop alnum (S fuel) acc ts = Raise ExInvalidArg /\ args_loop alnum (S fuel) acc ts = Raise ExInvalidArg.
Proof. exact list_loop_null_head_is_error. Qed.
Print Assumptions C09_loops_report_invalid_head.

(** Before a75c6db a lexer that had reached end of file stayed there.  Witness  <<E NL ' NL E NL b NL '
    (the quote of the body line is closed by the last character of the source): after the look-ahead
    has run to the end of the source and the stream is re-positioned on the body line, the old consume
    delivers no token; the repaired one delivers the token on that line. *)
Theorem C09_prefix_sticky_eof_refuted :
  exists src : text,
    match ts_init src with
    | Ok t0 =>
        match ts_consume t0 with
        | Ok (_, t1) =>
            match ts_consume_line true t1 with
            | Ok (_, t2) =>
                match ts_consume_line_with ts_consume_sticky relex_lexer_blank false t2, ts_consume_line false t2 with
                | Ok (l1, old), Ok (l2, new) =>
                    l1 = l2 /\ ts_position old = ts_position new /\ ts_head old = None /\ look_ahead_state old = LA_NULL /\
                    exists tk, ts_head new = Some tk
                | _, _ => False
                end
            | Raise _ => False
            end
        | Raise _ => False
        end
    | Raise _ => False
    end.
Proof. exists [60; 60; 69; 10; 39; 10; 69; 10; 98; 10; 39]%N. vm_compute. repeat split. eexists. reflexivity. Qed.
Print Assumptions C09_prefix_sticky_eof_refuted.

(** Before fbeae85 the rest of a line that is blank for Python but is the look-ahead token for the
    lexer was not re-lexed.  Witness  :> NBSP NL b : after the text has been consumed the old code
    still has the NBSP word as head token; the repaired code has the token b. *)
Theorem C09_prefix_stale_head_refuted :
  exists src : text,
    match ts_init src with
    | Ok t0 =>
        match ts_consume t0 with
        | Ok (_, t1) =>
            match ts_consume_line_stale false t1, ts_consume_line false t1 with
            | Ok (l1, old), Ok (l2, new) =>
                l1 = l2 /\ ts_position old = ts_position new /\
                (exists tk, ts_head old = Some tk /\ t_string tk = [160]%N) /\
                (exists tk, ts_head new = Some tk /\ t_string tk = [98]%N)
            | _, _ => False
            end
        | Raise _ => False
        end
    | Raise _ => False
    end.
Proof. exists [58; 62; 32; 160; 10; 98]%N. vm_compute. repeat split; eexists; split; reflexivity. Qed.
Print Assumptions C09_prefix_stale_head_refuted.

(** Non-vacuity: a"b c"d e  is two tokens;  a#b  is one token (the repaired defect FIX-C09-1). *)
Example C09_example_tokens :
  map obs_core (fst (ts_run [97; 34; 98; 32; 99; 34; 100; 32; 101]%N)) =
    [(false, [97; 98; 32; 99; 100]%N, [97; 34; 98; 32; 99; 34; 100]%N); (false, [101]%N, [101]%N)]
  /\ map obs_core (fst (ts_run [97; 35; 98; 32; 99]%N)) = [(false, [97; 35; 98]%N, [97; 35; 98]%N); (false, [99]%N, [99]%N)].
Proof. vm_compute. split; reflexivity. Qed.

(** Before the repair "token source is trimmed of the lexer's white space only" (commit 8cce868)
    the source text of a token was trimmed with Python's str.strip(): a word consisting of
    NBSP (or VT, FF, U+2028 ...) was trimmed to nothing and TokenStream.consume raised IndexError
    (reported as SYNTAX_ERROR "string index out of range"), e.g. for the here-document line or
    next line "NBSP".  Witness: the source "a NBSP". *)
Theorem C09_prefix_exotic_space_word_refuted :
  exists src : text,
    (exists ts, ts_init_prefix src = Ok ts) /\
    (exists ts, ts_init_prefix src = Ok ts /\ ts_consume_prefix ts = Raise ExIndex) /\
    (exists ts r, ts_init src = Ok ts /\ ts_consume ts = Ok r).
Proof.
  exists [97; 32; 160]%N. vm_compute. repeat split; eexists; try eexists; split; reflexivity.
Qed.
Print Assumptions C09_prefix_exotic_space_word_refuted.

(** Non-vacuity of the parsers: a here-document whose lines look like a marker with a trailing
    blank, a section header and a comment; a list with a lone backslash element and a continuation. *)
Example C09_example_heredoc :
  let src := [60;60;69;10; 69;32;10; 91;97;93;10; 35;32;120;10; 69;10; 122]%N in
  match ts_init src with
  | Ok ts => match rich_string_parse ascii_alnum ts with
             | Ok (frs, ts') => frs = [FConst [69;32;10; 91;97;93;10; 35;32;120;10]%N] /\ ts_position ts' = 16%nat
             | Raise _ => False
             end
  | Raise _ => False
  end.
Proof. vm_compute. split; reflexivity. Qed.

Example C09_example_list :
  let src := [97;32;92;32;98;32;92;10;32;39;99;32;100;39;10;122]%N in   (* a \ b \ NL 'c d' NL z *)
  match ts_init src with
  | Ok ts => match list_parse ascii_alnum ts with
             | Ok (els, ts') => els = [EStr [FConst [97]]; EStr [FConst [92]]; EStr [FConst [98]]; EStr [FConst [99;32;100]]]%N
                                /\ ts_position ts' = 14%nat
             | Raise _ => False
             end
  | Raise _ => False
  end.
Proof. vm_compute. split; reflexivity. Qed.

(** program arguments: a soft-quoted reference stays ONE string element whatever it references; the
    naked reference is a bare symbol element (spliced if the symbol is a list) *)
Example C09_example_args :
  let src := [32; 97; 32; 34; 64; 91; 76; 93; 64; 34; 32; 64; 91; 76; 93; 64]%N in   (* a "@[L]@" @[L]@ *)
  match ts_init src with
  | Ok ts => match args_parse ascii_alnum ts with
             | Ok (els, _) => els = [EStr [FConst [97]]; EStr [FSym [76]]; ESym [76]]%N
             | Raise _ => False
             end
  | Raise _ => False
  end.
Proof. vm_compute. reflexivity. Qed.
