(** Property C19 — timeouts are enforced on every OS process; Exactly never waits indefinitely.
    Theorem statements only.  PARTIAL as a whole: killing the child, grandchildren of a shell and
    wall-clock time are runtime behaviour of the OS / [subprocess]; they are observed by the real runs
    of harness/c19.py, not proved.  What is proved is about the model [Model/Timeout.v] in MODEL time,
    with the contract of [subprocess.call(timeout=t)] given by the explicit function [expires]. *)
From Coq Require Import List Bool Arith NArith.
From Exactly Require Import Lib.Harness Model.Outcome Model.Exec Model.World Model.Timeout Spec.C01 Spec.C19
  Proofs.ExecCorollaries Proofs.TimeoutForce Proofs.TimeoutSim Proofs.TimeoutExpiry Proofs.TimeoutBound Proofs.TimeoutSpec.
Import ListNotations.

(** Every process started — by any instruction of any phase, or by the action to check — is handed
    the timeout in force at that point of the execution: the value of the last [timeout] instruction
    whose main step ran before it, else the default.  Hence [timeout = none] (value [None]) lifts the
    limit only for processes started after its main step. *)
Theorem C19_timeout_in_force : forall tc n c,
  nth_error (fst (texecute tc)) n = Some (TCall c) ->
  c_timeout c = in_force tc (firstn n (fst (texecute tc))).
Proof. exact timeout_in_force. Qed.
Print Assumptions C19_timeout_in_force.

(** The model IS the phased executor of C01 ([Exec.partial_execute]) run on the test case whose
    instruction behaviours are the resolved ones (a process start site behaves as "raises
    HardErrorException" iff one of its processes exceeds the timeout in force): same trace (processes
    erased), same result.  This is what lets the theorems of C01 / C04 be used below. *)
Theorem C19_model_is_the_phased_executor : forall tc,
  partial_execute (lower tc) = (erase (fst (texecute tc)), snd (texecute tc)).
Proof. exact texecute_is_partial_execute. Qed.
Print Assumptions C19_model_is_the_phased_executor.

(** The first process that exceeds its limit ([pre] contains no expired call): nothing but cleanup
    runs afterwards (nothing at all, if the process was started by cleanup); the reported failure is
    HARD_ERROR of exactly the step that started it ([site_failure c]: that phase, its main step or
    act/execute, that instruction) — unless a cleanup instruction fails afterwards, whose failure is
    then reported (never after before-assert), or, for an expiry in cleanup that follows a failure of
    before-assert, that earlier failure.
    PARTIAL: "is terminated" is the ASSUMED contract of [subprocess.call(timeout=)] ([expires]); that the
    OS process — and the processes it started — are really gone afterwards is observed by the real runs
    only (and is false for commands run through the shell under dash: known finding KF-C19-1). *)
Theorem C19_expiry_is_hard_error_at_that_step_partial : forall tc pre c post,
  fst (texecute tc) = pre ++ TCall c :: post ->
  expires (c_timeout c) (c_dur c) = true -> existsb is_expired_call pre = false ->
  forallb only_cleanup post = true /\
  (c_phase c = Cleanup -> post = []) /\
  (c_phase c <> Cleanup -> exists prev, post = fst (tcleanup tc prev (cleanup_entry tc))) /\
  exists f, pr_failure (snd (texecute tc)) = Some f /\
    (f = site_failure c \/
     (c_phase c <> Cleanup /\ c_phase c <> BeforeAssert /\ f_phase f = Cleanup) \/
     (c_phase c = Cleanup /\ f_phase f = BeforeAssert)).
Proof. exact expiry_is_hard_error. Qed.
Print Assumptions C19_expiry_is_hard_error_at_that_step_partial.

(** Cleanup still runs and the sandbox is removed, whatever expires: cleanup is entered exactly once
    (C01, through the simulation); the trace ends with the cleanup phase, which runs the cleanup
    instructions in order — all of them unless one of them fails; the sandbox is removed at the end
    unless --keep (C04, through the simulation). *)
Theorem C19_cleanup_and_removal_after_timeout : forall tc keep,
  count_ev is_cleanup_begin (erase (fst (texecute tc))) = 1 /\
  (exists prev pre, fst (texecute tc) = pre ++ fst (tcleanup tc prev (cleanup_entry tc))) /\
  (forall prev st, let (t, rc) := tcleanup tc prev st in
     exists n, erase t = ECleanupBegin prev :: cleanup_mains prev 0 n /\ n <= length (t_cleanup tc) /\
               match rc with None => n = length (t_cleanup tc) | Some f => n = S (f_idx f) end) /\
  sandbox_left keep tc = keep.
Proof.
  intros tc keep. split; [apply cleanup_entered_once|]. split; [apply trace_ends_with_cleanup|].
  split; [intros prev st; apply cleanup_runs_in_order | apply sandbox_removed_unless_keep].
Qed.
Print Assumptions C19_cleanup_and_removal_after_timeout.

(** After the first expiry at most |cleanup| further main steps run. *)
Theorem C19_bounded_steps : forall tc pre c post,
  fst (texecute tc) = pre ++ TCall c :: post ->
  expires (c_timeout c) (c_dur c) = true -> existsb is_expired_call pre = false ->
  length (filter is_main_ev post) <= length (t_cleanup tc).
Proof. exact bounded_steps_after_expiry. Qed.
Print Assumptions C19_bounded_steps.

(** Exactly never waits indefinitely (MODEL time): if the default is finite and no [timeout = none]
    occurs (every limit is at most [T]), every process is handed a finite limit <= T and the total
    time spent waiting for processes is at most T x the number of processes started, which is at most
    the number of process start sites of the test case — however long the children would run.
    PARTIAL: a bound in model time (seconds attributed to [subprocess.call] by [wait_of]); the wall
    clock of the real program (interpreter start-up, file system, scheduling) is observed by the real
    runs only (bound checked there: sum of the model's waits + 10 s). *)
Theorem C19_bounded_wait_partial : forall tc T,
  finite_le T (t_default tc) ->
  (forall p i v, instr_at tc p i = Some (TSet v) -> finite_le T v) ->
  (forall c, In c (calls_of (fst (texecute tc))) -> finite_le T (c_timeout c)) /\
  (total_wait (calls_of (fst (texecute tc))) <= T * N.of_nat (length (calls_of (fst (texecute tc)))))%N /\
  length (calls_of (fst (texecute tc))) <= n_procs tc.
Proof.
  intros tc T Hd Hs. destruct (bounded_wait tc T Hd Hs) as [H1 H2].
  split; [exact H1|]. split; [exact H2 | apply calls_bounded_by_sites].
Qed.
Print Assumptions C19_bounded_wait_partial.

(** The model's own behaviour satisfies the reference semantics [P_C19] of Spec/C19.v — the flat
    "walk the instructions in fixed order, expect each process with the timeout in force, stop at the
    first expiry/failure, then cleanup, sandbox removed, finite default" predicate that the check
    evaluates on the implementation's OBSERVED behaviour.  Hence whenever the correspondence check
    finds model = implementation on an input, the property predicate holds for the implementation
    on that input. *)
Theorem C19_model_meets_reference_semantics : forall keep tc,
  (exists s, t_default tc = Some s) -> P_C19 true keep tc (model_obs keep tc) = true.
Proof. exact model_meets_reference_semantics. Qed.
Print Assumptions C19_model_meets_reference_semantics.

(** Whatever the test-case status ([conf] status = PASS | FAIL; with SKIP nothing runs), the status
    REPORTED for a step that ends in HARD_ERROR — in particular an expiry — is HARD_ERROR
    ([Outcome.translate_status], the table proved for C02): `status = FAIL` turns only an assertion FAIL
    into XFAIL; and the check's decoding of the printed identifier recovers exactly that. *)
Theorem C19_expiry_reported_hard_error_in_every_mode :
  translate_status TPass (Some FHard) = HARD_ERROR /\ translate_status TFail (Some FHard) = HARD_ERROR /\
  forall mode act_only, mode <> TSkip ->
    decode_ident mode act_only (Some (translate_status mode (Some FHard))) = Some (Some FHard).
Proof. exact expiry_reported_hard_error_in_every_mode. Qed.
Print Assumptions C19_expiry_reported_hard_error_in_every_mode.

(** Non-vacuity.  [setup]: timeout = 2; a 3-second child in before-assert (preceded by a process
    that stays within the limit); the limit is lifted in cleanup and a 100-second child is then
    waited for.  The expiry is a HARD_ERROR of before-assert[1]; assert never runs; cleanup does. *)
Example C19_example :
  let tc := TCase (Some 60%N) [TSpawn [60%N; 0%N]; TSet (Some 2%N)] [1%N] true
                  [TSpawn [2%N]; TSpawn [0%N; 3%N; 0%N]; TSpawn [0%N]] [TSpawn [0%N]]
                  [TSet None; TSpawn [100%N]] false in
  let (t, r) := texecute tc in
  map (fun c => (c_phase c, c_idx c, c_timeout c, c_dur c)) (calls_of t) =
    [(Setup, 0, Some 60%N, 60%N); (Setup, 0, Some 60%N, 0%N); (Act, 0, Some 2%N, 1%N);
     (BeforeAssert, 0, Some 2%N, 2%N); (BeforeAssert, 1, Some 2%N, 0%N); (BeforeAssert, 1, Some 2%N, 3%N);
     (Cleanup, 1, None, 100%N)] /\
  pr_failure r = Some (Failure BeforeAssert SMain 1 FHard) /\
  total_wait (calls_of t) = 165%N /\ sandbox_left false tc = false /\ sandbox_left true tc = true.
Proof. vm_compute. repeat split. Qed.

(** the default is in force until the first [timeout]; a limit set later does not apply retroactively *)
Example C19_example_default :
  let tc := TCase (Some 60%N) [TSpawn [61%N]; TSet None] [] false [] [] [TSpawn [0%N]] false in
  let (t, r) := texecute tc in
  pr_failure r = Some (Failure Setup SMain 0 FHard) /\
  map (fun c => (c_phase c, c_timeout c)) (calls_of t) = [(Setup, Some 60%N); (Cleanup, Some 60%N)].
Proof. vm_compute. repeat split. Qed.

(** Regenerated on every run from the source (harness/c19.py [gen_tables]): every call site under
    src/exactly_lib that can start an OS process is a known one, every site in scope of the statement
    passes a [timeout=] keyword, and the documented default is finite. *)
From Exactly Require Gen.C19_tables.
Theorem C19_sites_all_known_and_timed :
  forallb (fun s => fst (snd s) && (negb (fst (snd (snd s))) || snd (snd (snd s)))) Gen.C19_tables.gen_sites = true /\
  Gen.C19_tables.gen_missing_known_sites = 0.
Proof. split; vm_compute; reflexivity. Qed.
Print Assumptions C19_sites_all_known_and_timed.

Theorem C19_default_is_finite : exists s, Gen.C19_tables.gen_default_timeout = Some s.
Proof. eexists. vm_compute. reflexivity. Qed.
Print Assumptions C19_default_is_finite.
