(** * Source tie for property C19 (timeouts): the default timeout constant of the source text. *)
From Coq Require Import ZArith NArith List Bool String.
From Exactly Require Import Lib.PyVal Model.Timeout Gen.Src_Timeout Gen.C19_tables Proofs.SrcTieTimeout.
Local Open Scope Z_scope.

(** TIMEOUT__DEFAULT as written in the source is the value tabulated from the running code, and it is a finite number of
    seconds (never "wait indefinitely") *)
Theorem SrcTie_C19_default_timeout :
  py_os_proc_env_TIMEOUT__DEFAULT = enc_tmo gen_default_timeout /\
  exists n : N, py_os_proc_env_TIMEOUT__DEFAULT = enc_tmo (Some n).
Proof. exact tie_default_timeout. Qed.
Print Assumptions SrcTie_C19_default_timeout.
