(** * Source tie for property C17 (case independence; suite contents): which elements of the [conf] section of a suite
    configure the suite and which are instructions for the configuration phase of its cases. *)
From Coq Require Import ZArith NArith List Bool String.
From Exactly Require Import Lib.PyVal Model.Cases Gen.Src_SuiteConf Proofs.SrcTieSuiteConf.
Import ListNotations.

(** for every list of instruction elements, whatever the fields of the instruction objects, their descriptions and source
    locations, and whichever of the two translated case-instruction classes each case instruction belongs to *)
Theorem SrcTie_C17_separate_configuration_elements :
  forall (I : Type) (suite_fields : preproc -> list pyval) (case_fields : I -> list pyval) (case_is_actor : I -> bool)
         (descr loc : conf_elem I -> pyval) (l : list (conf_elem I)),
  py_suite_file_reading__separate_configuration_elements
    (enc_contents suite_fields case_fields case_is_actor descr loc l)
  = VTuple [enc_contents suite_fields case_fields case_is_actor descr loc (map CESuite (fst (separate l)));
            enc_contents suite_fields case_fields case_is_actor descr loc (map CECase (snd (separate l)))].
Proof. intros. apply tie_separate_configuration_elements. Qed.
Print Assumptions SrcTie_C17_separate_configuration_elements.
