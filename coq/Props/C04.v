(** Property C04 — sandbox lifecycle and isolation of the Exactly process.  Statements only. *)
From Coq Require Import List Bool Arith.
From Exactly Require Import Lib.Harness Model.Outcome Model.Exec Model.World Spec.C01 Spec.C04 Proofs.WorldProofs.
Import ListNotations.

(** The current directory of the process is restored, whatever the test case does and however it ends. *)
Theorem C04_cwd_restored : forall keep tc eff w, w_cwd (fst (fst (execute_in_world keep tc eff w))) = w_cwd w.
Proof. exact cwd_restored. Qed.
Print Assumptions C04_cwd_restored.

(** No step can change the environment of the Exactly process: instructions are handed copies. *)
Theorem C04_environ_untouched : forall keep tc eff w, w_environ (fst (fst (execute_in_world keep tc eff w))) = w_environ w.
Proof. exact environ_untouched. Qed.
Print Assumptions C04_environ_untouched.

(** Every execution that gets past validation uses exactly one fresh sandbox; it is removed at the
    end (whatever the ending) unless --keep, in which case it is left. *)
Theorem C04_sandbox_fresh_and_removed_unless_keep : forall keep tc eff w,
  (forall r, In r (w_roots w) -> r < w_next w) ->
  let '(w', t, r) := execute_in_world keep tc eff w in
  if fr_has_sds r then
    (if keep then w_roots w' = w_next w :: w_roots w else w_roots w' = w_roots w) /\ ~ In (w_next w) (w_roots w)
  else w_roots w' = w_roots w.
Proof. exact sandbox_removed_or_kept. Qed.
Print Assumptions C04_sandbox_fresh_and_removed_unless_keep.

Theorem C04_starts_in_act : forall eff tc w t1 t2,
  fst (full_execute tc) = t1 ++ ESandbox :: t2 ->
  forallb (fun e => negb (is_sandbox e)) t1 = true ->
  w_cwd (x_world (fold_left (apply_event eff) (t1 ++ [ESandbox]) (X w (w_environ w) None None))) = DSub (w_next w) DAct.
Proof. exact starts_in_act_dir. Qed.
Print Assumptions C04_starts_in_act.

(** The sandbox event occurs at most once, and iff the result says there is a sandbox. *)
Theorem C04_at_most_one_sandbox : forall tc,
  let t := fst (full_execute tc) in
  (forallb (fun e => negb (is_sandbox e)) t = true /\ fr_has_sds (snd (full_execute tc)) = false) \/
  (exists t1 t2, t = t1 ++ ESandbox :: t2 /\ forallb (fun e => negb (is_sandbox e)) t1 = true /\
                 forallb (fun e => negb (is_sandbox e)) t2 = true) /\ fr_has_sds (snd (full_execute tc)) = true.
Proof. exact full_trace_sandbox_shape. Qed.
Print Assumptions C04_at_most_one_sandbox.

(** Partial: the removal itself ([shutil.rmtree(ignore_errors=True)]) on trees the case made
    read-only, the layout created by [construct_at], and the contents of result/ are file-system
    behaviour; they are observed by the correspondence run only (see DESIGN.md C04). *)

(** Non-vacuity: a case that changes directory in setup and fails in assert, with --keep. *)
Example C04_example :
  let tc := TC [] [ok_instr] ok_instr [] [failing_at SMain BFail] [ok_instr] TPass false in
  let eff := eff_of [EInstr Setup SMain 0 None] in
  let '(w', t, r) := execute_in_world true tc eff w0 in
  w_cwd w' = DOther 0 /\ w_roots w' = [0] /\ fr_status r = FAIL /\
  let '(w'', _, _) := execute_in_world false tc eff w0 in w_roots w'' = [].
Proof. vm_compute. repeat split. Qed.

(** "The check predicate holds on the model" (built by a separate pass; proofs in Proofs/PredOnModelC04.v): the boolean
    predicate the check evaluates on OBSERVED behaviour is true of the model's own output for all inputs, and
    correspondence on an input implies the property on that input. *)
From Exactly Require Import Proofs.PredOnModelC04.
(** ** C04.  The five compared fields are the world model's values, the "cwd is act/ at the first
    step after the sandbox" field is the model's [x_cwd_after_sandbox]; the directory layout is
    outside the model and stays a free observation. *)
Theorem C04_check_predicate_holds_on_model : forall keep tc evs layout,
  check_c04 (obs_of_model_c04 keep tc evs layout) = (true, opt_true layout).
Proof. exact check_c04_on_model. Qed.
Print Assumptions C04_check_predicate_holds_on_model.

Theorem C04_model_cwd_is_act : forall tc eff w,
  model_cwd_is_act tc eff w = None \/ model_cwd_is_act tc eff w = Some true.
Proof. exact model_cwd_is_act_true. Qed.
Print Assumptions C04_model_cwd_is_act.

Theorem C04_correspondence_implies_property : forall c,
  fst (check_c04 c) = true ->
  snd (check_c04 c) = opt_true (d_obs_cwd_is_act_at_first_post_sds_step c) && opt_true (d_obs_layout_ok c).
Proof. exact corr_implies_property_c04. Qed.
Print Assumptions C04_correspondence_implies_property.

