(** * Source tie for property C15 (directory trees): the depth limits of a recursive files model. *)
From Coq Require Import ZArith List Bool String.
From Exactly Require Import Lib.PyVal Model.Files Gen.Src_FilesDepth Proofs.SrcTieFilesDepth.
Local Open Scope Z_scope.

Theorem SrcTie_C15_is_within_min_depth_limit : forall mn mx d,
  py_models__FilesGeneratorForRecursive__is_within_min_depth_limit (enc_generator mn mx) (VInt (Z.of_nat d))
  = VBool (in_min mn d).
Proof. exact tie_is_within_min_depth_limit. Qed.
Print Assumptions SrcTie_C15_is_within_min_depth_limit.

Theorem SrcTie_C15_is_at_max_depth_limit : forall mn mx d,
  py_models__FilesGeneratorForRecursive__is_at_max_depth_limit (enc_generator mn mx) (VInt (Z.of_nat d))
  = VBool (at_max mx d).
Proof. exact tie_is_at_max_depth_limit. Qed.
Print Assumptions SrcTie_C15_is_at_max_depth_limit.

Theorem SrcTie_C15_generator_constructor : forall mn mx,
  py_models__FilesGeneratorForRecursive (enc_depth mn) (enc_depth mx) = enc_generator mn mx.
Proof. exact tie_generator_ctor. Qed.
Print Assumptions SrcTie_C15_generator_constructor.
