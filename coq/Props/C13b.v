(** Property C13, part 2 — [filter -line-nums RANGE...] keeps exactly the lines whose number lies in
    at least one of the ranges, negative numbers counting from the end, for texts of any length
    including the empty text.  Theorem statements only (definitions: Model/LineNums.v, Spec/C13b.v). *)
From Coq Require Import ZArith List Bool.
From Exactly Require Import Model.LineNums Spec.C13b Proofs.LineNumsSingle Proofs.LineNumsWalk
  Proofs.LineNumsMerge Proofs.LineNumsExact.
Import ListNotations.
Local Open Scope Z_scope.

(** The reference semantics says what the statement says: line number [k] is selected iff it lies in
    at least one of the given ranges. *)
Theorem C13_in_ranges_iff :
  forall (num_lines : Z) (rs : list range) (k : Z),
    in_ranges num_lines rs k = true <-> exists r, In r rs /\ in_range num_lines r k = true.
Proof. intros. unfold in_ranges. apply existsb_exists. Qed.
Print Assumptions C13_in_ranges_iff.

(** [range_merge.merge] keeps the set of line numbers: the merged ranges (as the transformers read
    them: is_empty / is_everything() / head, body, tail) contain a line number k >= 1 iff some entry
    of the partitioning does.  For every partitioning, no precondition. *)
Theorem C13_merge_preserves_set :
  forall (p : partitioning) (k : Z), 1 <= k -> in_merged (merge p) k = in_partitioning p k.
Proof. exact merge_preserves_set. Qed.
Print Assumptions C13_merge_preserves_set.

(** [range_merge.merge] establishes what the segment walker needs: head >= 1; body segments
    non-empty, sorted, each starting at least two after the end of what precedes it (head or previous
    segment; the first one at 2 or later when there is no head); tail likewise. *)
Theorem C13_merge_invariant :
  forall (p : partitioning),
    part_ok p -> let m := merge p in walk_ok (m_head m) (m_body m) (m_tail m).
Proof. exact merge_invariant. Qed.
Print Assumptions C13_merge_invariant.

(** ... and [_Partitioner] only ever produces partitionings that [merge] can handle, and stores
    exactly the ranges it does not return (the ranges with a negative value). *)
Theorem C13_partition_correct :
  forall (num_lines : Z) (rs negs : list range) (o o' : partitioning) (k : Z),
    part_ok o -> partition rs o = (negs, o') -> 1 <= k ->
    part_ok o' /\
    in_partitioning o' k || in_ranges num_lines negs k = in_partitioning o k || in_ranges num_lines rs k.
Proof.
  intros num_lines rs negs o o' k Ho E Hk. split; [eapply partition_ok; eassumption|now apply partition_set].
Qed.
Print Assumptions C13_partition_correct.

(** Translating negative values with the number of lines of the text keeps the selection. *)
Theorem C13_translate_neg_preserves_set :
  forall (num_lines : Z) (rs : list range) (k : Z),
    1 <= k -> in_ranges num_lines (translate_neg_to_non_neg rs num_lines) k = in_ranges num_lines rs k.
Proof. exact translate_set. Qed.
Print Assumptions C13_translate_neg_preserves_set.

(** The multi-segment walker (one shared line iterator, one running line number) yields exactly
    the lines of head / body / tail, under the invariant above, for texts of any length. *)
Theorem C13_segments_walk_correct :
  forall (A : Type) (head : option Z) (body : list from_to) (tail : option Z) (ls : list A),
    walk_ok head body tail ->
    walk_segments head body tail ls
    = map snd (filter (fun nl => in_segments head body tail (fst nl)) (enum_from 1 ls)).
Proof. exact @segments_walk_correct. Qed.
Print Assumptions C13_segments_walk_correct.

(** One range (any of the four forms, any signs, 0, reversed bounds, bounds beyond the text): the
    streaming transformer chosen by [_SingleRangeSourceConstructor] (ten algorithms, seven of them
    with a "pocket" of read-ahead lines) raises no IndexError and yields exactly the lines of the
    reference semantics, for texts of any length. *)
Theorem C13_single_range_correct :
  forall (A : Type) (r : range) (ls : list A),
    single_range_transform r ls = Some (line_nums_spec [r] ls).
Proof. exact @single_range_correct. Qed.
Print Assumptions C13_single_range_correct.

(** Several ranges (MultipleLineRangesTransformer: partition, count the lines and translate the
    negative ranges if there are any, merge, walk). *)
Theorem C13_multiple_ranges_correct :
  forall (A : Type) (rs : list range) (ls : list A),
    multiple_ranges_transform rs ls = Some (line_nums_spec rs ls).
Proof. exact @multiple_ranges_correct. Qed.
Print Assumptions C13_multiple_ranges_correct.

(** [filter -line-nums RANGE...]: the output is exactly the lines whose 1-based number lies in at
    least one of the ranges, negative numbers counting from the end — for every list of ranges and
    every text, including the empty text; and no IndexError escapes from a pocket. *)
Theorem C13_line_nums_exact :
  forall (A : Type) (rs : list range) (ls : list A),
    line_nums_transform rs ls = Some (line_nums_spec rs ls).
Proof. exact @line_nums_exact. Qed.
Print Assumptions C13_line_nums_exact.

(** Non-vacuity.  Negative and non-negative ranges, overlapping and adjacent, zero, reversed. *)
Example C13_line_nums_example :
  line_nums_transform [RBoth 2 3; RSingle (-1); RLower (-2); RSingle 0; RBoth 5 4; RSingle 4]
                      [10; 20; 30; 40; 50; 60; 70; 80]%nat
  = Some [20; 30; 40; 70; 80]%nat
  /\ line_nums_transform [RBoth (-3) 2] [10; 20; 30; 40]%nat = Some [20]%nat
  /\ line_nums_transform [RUpper (-9); RSingle 7] [10; 20]%nat = Some (@nil nat)
  /\ line_nums_transform [RLower 0] (@nil nat) = Some (@nil nat).
Proof. vm_compute. repeat split. Qed.

(** The walker's precondition is not decoration: on segments that violate it (a body segment that
    starts at line 1 — which is why [merge] turns such a segment into the head) the walker loses
    every line. *)
Example C13_walk_needs_invariant :
  walk_segments None [(1, 2)] None [10; 20; 30]%nat = (@nil nat)
  /\ map snd (filter (fun nl => in_segments None [(1, 2)] None (fst nl)) (enum_from 1 [10; 20; 30]%nat)) = [10; 20]%nat.
Proof. vm_compute. split; reflexivity. Qed.
