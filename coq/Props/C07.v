(** Property C07 — test-case file structure: phases, merging, inclusion, source locations.
    Theorem statements only.  The model is Model/Doc.v, the declarative reading Spec/C07.v.

    Oracles (explicitly quantified in every statement):
      [iparse]   what the instruction parsers of a phase do at a position (lines occupied / error);
      [fs]       pathlib and the file system ((directory, path token) -> display, readable?, resolved identity);
      [contents] lines of a file by resolved identity. *)
From Coq Require Import NArith List Bool.
From Exactly Require Import Model.Doc Spec.C07 Proofs.DocBasics Proofs.DocReader Proofs.DocTerm Proofs.DocOrder
     Proofs.DocParseSource Proofs.DocLocated Proofs.DocEndingAt Proofs.DocErrLocated Proofs.DocRefine Proofs.DocBlocks Proofs.DocExamples.
Import ListNotations.
Local Open Scope N_scope.

(** (a) ParseSource: after ANY sequence of successful operations (consume_current_line, consume n,
    consume_part_of_current_line n, consume_initial_space_on_current_line) on a source [s], the original is
    (consumed prefix) ++ (remaining source); the consumed prefix ends with the consumed part [within] of the
    current line; the line number is 1 + the number of newlines consumed; the current line text is the whole
    line of the original containing the position; when there is no current line everything was consumed. *)
Theorem C07_parse_source_line_numbers :
  forall s ops p,
    ps_run ops (ps_init s) = Some p ->
    (forall n, ps_line p = Some n ->
       exists pre within,
         s = (pre ++ within) ++ ps_remaining_source p /\
         line_start pre /\ no_nl within /\ length within = ps_col p /\
         n = 1 + N.of_nat (count_nl (pre ++ within)) /\
         ps_cur p = first_line (within ++ ps_remaining_source p)) /\
    (ps_line p = None -> ps_remaining_source p = [] /\ ps_is_at_eof p = true).
Proof. exact parse_source_line_numbers. Qed.
Print Assumptions C07_parse_source_line_numbers.

(** (b) The reader (dictionary of per-phase element lists; an included document merged into it by
    _add_raw_doc) yields, for every phase, exactly the elements that the declarative reading [flat_root] tags
    with that phase — those read while that phase's header was the last one seen (before any header: [act];
    in an included file: the including file's current phase), repeated declarations merged in reading
    order, the contents of an included file at the place of the directive — and otherwise the same error.
    For all files, inclusion graphs and oracles; no bound. *)
Theorem C07_elements_by_section :
  forall iparse fs contents depth root path dir ls,
    match parse_root iparse fs contents depth root path dir ls, flat_root iparse fs contents depth root path dir ls with
    | Ok d, Ok out => forall s, d s = sections_of out s
    | Err e, Err e' => e = e'
    | _, _ => False
    end.
Proof. exact elements_by_section. Qed.
Print Assumptions C07_elements_by_section.

(** Phase order: a document consisting of self-contained phase blocks ([self_contained]: wherever the block
    stands and whichever block follows, it is read completely in its own phase, ends at its end, contributes
    to its own phase only, and contributes the instructions [C b]) gives the same instructions (text, file,
    chain of including files — not line numbers) in every phase after any rearrangement of the blocks that
    keeps the relative order of the blocks of each phase. *)
Theorem C07_phase_order_irrelevant :
  forall iparse fs contents depth root path dir (C : block -> list content) bs bs',
    let fi := FileInfo path [] dir in
    let finc := flat_include iparse fs contents depth [root] fi in
    Forall header_ok bs -> Forall (fun b => self_contained iparse finc fi b (C b)) bs -> same_order bs bs' ->
    exists d d',
      parse_root iparse fs contents depth root path dir (doc_of_blocks bs) = Ok d /\
      parse_root iparse fs contents depth root path dir (doc_of_blocks bs') = Ok d' /\
      forall s, instr_contents (d' s) = instr_contents (d s).
Proof. exact phase_order_irrelevant. Qed.
Print Assumptions C07_phase_order_irrelevant.

(** A header line that is malformed or names no phase is an error report carrying that line, never ignored. *)
Theorem C07_unknown_section_is_error :
  forall iparse inc fuel fi cur n l0 rest doc,
    at_eof (l0 :: rest) = false -> is_header_line l0 = true ->
    (forall s, header_of l0 <> HSec s) ->
    loop iparse inc (S fuel) fi cur n (l0 :: rest) doc = Err (ESource None (LineSeq n [l0]) (fi_path fi) (fi_chain fi)).
Proof. exact unknown_header_is_error. Qed.
Print Assumptions C07_unknown_section_is_error.

(** A malformed inclusion directive (`including` alone, or with more than one argument) in a phase other than
    [act] is an error report carrying the directive's OWN line number and text, its file and the chain of
    including files, whatever follows it (also when it is the last line of the file).  The directive parser
    consumes the line before it raises; the location is nevertheless the directive's, not the next line's. *)
Theorem C07_malformed_directive_is_error :
  forall iparse inc fuel fi cur n l0 rest doc args,
    cur <> SAct -> at_eof (l0 :: rest) = false -> is_header_line l0 = false ->
    is_empty_line l0 = false -> is_comment_line l0 = false ->
    split_ws l0 = including_token :: args -> length args <> 1%nat ->
    loop iparse inc (S fuel) fi cur n (l0 :: rest) doc
    = Err (ESource (Some cur) (LineSeq n [l0]) (fi_path fi) (fi_chain fi)).
Proof. exact malformed_directive_is_error. Qed.
Print Assumptions C07_malformed_directive_is_error.

(** Instruction descriptions: for an element whose first line is `D` REST (no back-tick in D) the recorded
    description is D without surrounding white space — padding inside the delimiters is not part of it — and the
    instruction is looked for right after the CLOSING back-tick (column |D| + 2: on this line after white space,
    else on the following lines after comment / empty lines), whatever white space D contains.  ([instr_desc],
    [elem_desc] in Model/Doc.v give the description also when it spans several lines.) *)
Theorem C07_description_on_first_line :
  forall iparse s n d r rest,
    (forall x, In x d -> (x =? c_btick) = false) ->
    let l0 := c_btick :: d ++ c_btick :: r in
    instr_desc l0 rest = Some (strip d) /\
    instr_step iparse s n l0 rest = skip_cursor iparse s n l0 n l0 (length d + 2) rest.
Proof. exact described_on_first_line. Qed.
Print Assumptions C07_description_on_first_line.

(** Including a file that resolves to one of the files on the chain of including files is reported as an
    access error that carries the chain (with the offending directive last). *)
Theorem C07_cycle_is_error :
  forall iparse fs contents depth visited fi cur src tok display fid dir',
    fs (fi_dir fi) tok = FsEntry display (Some (fid, dir')) -> In fid visited ->
    include_file iparse fs contents (S depth) visited fi cur src tok
    = Err (EAccess (Some cur) display (fi_chain fi ++ [Loc (fi_path fi) src]) Cyclic).
Proof. exact cycle_is_error. Qed.
Print Assumptions C07_cycle_is_error.

(** ... and never looped on: with inclusion depth (number of files + 1) and line fuel (number of lines + 1)
    the reader always ends with a result other than "out of fuel", whatever the inclusion graph. *)
Theorem C07_terminates :
  forall iparse fs files root path dir ls,
    parse_root iparse fs (contents_of_table files) (S (length files)) root path dir ls <> Err EFuel.
Proof. exact root_terminates. Qed.
Print Assumptions C07_terminates.

(** Source locations: every element of a successful parse records the file it came from (as written in the
    directive), a chain of inclusion directives each of which is a real [including TOKEN] line, at the stated
    line number, of the file before it (starting at the test case file) and names the next file, and the
    1-based number and text of the lines it occupies in that file: exactly for comments and empty lines,
    un-escaped for [act], and for an instruction of another phase the first recorded line is the part of the
    actual line after white space / the description (a suffix), the following lines exactly. *)
Theorem C07_source_location_exact :
  forall iparse fs contents depth root path dir ls d,
    contents root = Some ls ->
    parse_root iparse fs contents depth root path dir ls = Ok d ->
    forall s e, In e (d s) -> located_element fs contents root dir path s e = true.
Proof. exact source_location_exact. Qed.
Print Assumptions C07_source_location_exact.

(** Error reports: a parse that ends with a FileSourceError / FileAccessError names the file, the chain of
    inclusion directives that led to it (each a real [including TOKEN] line at the stated number of the file
    before it), and lines that are lines of that file at the stated number ([err_src_ok]: each reported line
    [came_from] the actual line — up to surrounding white space / a preceding description; the LAST line of a
    report of several lines may stop where the instruction parser stopped); an access error names, last in its
    chain, the directive whose file is missing, or resolves to a file that is already being included (cyclic).
    Covers every error source of the reader: header errors, the inclusion directive parser (which has consumed
    its line when it raises), description errors, instruction errors at the current line, and instruction
    argument errors raised after input was consumed (_ErrMsgSourceConstructor.ending_at, Proofs/DocEndingAt.v).
    Only hypothesis besides the root file being known: the lines of a file contain no newline character. *)
Theorem C07_error_location_exact :
  forall iparse fs contents depth root path dir ls e,
    (forall fid fl, contents fid = Some fl -> Forall no_nl fl) ->
    contents root = Some ls ->
    parse_root iparse fs contents depth root path dir ls = Err e ->
    match e with
    | ECrash | EFuel | EOracle => True
    | _ => located_error fs contents root dir path e = true
    end.
Proof. exact error_location_exact. Qed.
Print Assumptions C07_error_location_exact.

(** The two layers fit: for a file whose lines are [l :: ls] (no newline inside a line) ParseSource starts
    at line 1 with text [l]; consume_current_line moves to the next line of the list and adds 1 to the number
    (after the last line there is no current line); is_at_eof is the reader's end-of-file test on the list. *)
Theorem C07_line_reader_refines_parse_source :
  forall k l ls,
    Forall line_ok (l :: ls) ->
    ps_init (join_lines (l :: ls)) = ps_at 0 (l :: ls) /\
    ps_consume_current_line (ps_at k (l :: ls)) = Some (ps_at (S k) ls) /\
    ps_is_at_eof (ps_at k (l :: ls)) = at_eof (l :: ls) /\
    ps_line (ps_at k (l :: ls)) = Some (1 + N.of_nat k) /\ ps_cur (ps_at k (l :: ls)) = l.
Proof.
  intros k l ls H. repeat split.
  - apply ps_init_lines. assumption.
  - apply ps_consume_line_lines. assumption.
  - apply ps_at_eof_lines.
Qed.
Print Assumptions C07_line_reader_refines_parse_source.

(** Inclusion is a splice: where the reader stands at an inclusion directive (phase [cur]), its result is
    the result so far, then the included file read with [cur] as its default phase (merged per phase by
    appending), then the rest of the including file read from the next line STILL in phase [cur], whatever
    phases the included file declared.  (Together with [C07_elements_by_section]: in the reading order the
    included elements stand at the place of the directive.) *)
Theorem C07_include_is_splice :
  forall iparse inc fuel fi cur n l0 rest doc src tok,
    at_eof (l0 :: rest) = false -> is_header_line l0 = false ->
    elem_step iparse cur n l0 rest = SIncl src tok ->
    loop iparse inc (S fuel) fi cur n (l0 :: rest) doc =
    match inc cur src tok with
    | Ok included => loop iparse inc fuel fi cur (n + 1) rest (fun s => doc s ++ included s)
    | Err e => Err e
    end.
Proof.
  intros iparse inc fuel fi cur n l0 rest doc src tok He Hh Hs. cbn [loop]. rewrite He, Hh, Hs. reflexivity.
Qed.
Print Assumptions C07_include_is_splice.

(** Self-contained blocks exist (hypothesis of [C07_phase_order_irrelevant]): an [act] block without header
    lines; the empty block; an instruction whose extent does not depend on what follows, put in front of a
    self-contained block; a single comment / empty line in front of a line that is neither. *)
Theorem C07_act_block_self_contained :
  forall iparse finc fi h l body,
    Forall (fun l => is_header_line l = false) (l :: body) ->
    self_contained iparse finc fi (Block SAct h (l :: body))
                   [(map un_escape (l :: body), fi_path fi, map l_path (fi_chain fi))].
Proof. exact act_block_self_contained. Qed.
Print Assumptions C07_act_block_self_contained.

Theorem C07_instruction_block_self_contained :
  forall iparse finc fi s h l more body C,
    s <> SAct -> fixed_extent_instruction iparse s l more ->
    self_contained iparse finc fi (Block s h body) C ->
    self_contained iparse finc fi (Block s h ((l :: more) ++ body))
                   ((skipn (count_while is_space l) l :: more, fi_path fi, map l_path (fi_chain fi)) :: C).
Proof. exact instr_cons_self_contained. Qed.
Print Assumptions C07_instruction_block_self_contained.

Theorem C07_comment_blank_ignored_in_block :
  forall iparse finc fi s h l l1 body C,
    s <> SAct -> is_empty_or_comment l = true -> is_empty_or_comment l1 = false ->
    self_contained iparse finc fi (Block s h (l1 :: body)) C ->
    self_contained iparse finc fi (Block s h (l :: l1 :: body)) C.
Proof. exact noninstr_cons_self_contained. Qed.
Print Assumptions C07_comment_blank_ignored_in_block.

(** Without "contributes to its own phase only" the phase-order statement is FALSE, for the model and for the
    real program (the two observations below were made on the real parser): a [cleanup] block that includes a
    file declaring [assert] contributes to [assert]; exchanging it with the [assert] block exchanges the two
    assert instructions.  (Not a defect: blocks of such a document are not blocks of one phase.) *)
Theorem C07_phase_order_without_purity_refuted :
  exists bs bs' c c',
    same_phase_order bs bs' = true /\ headers_ok bs = true /\
    dc_lines c = doc_of_blocks bs /\ dc_lines c' = doc_of_blocks bs' /\
    hd (0, []) (dc_files c) = hd (0, []) (dc_files c') (* the same included file *) /\
    obs_eqb (model_obs c) (dc_obs c) = true /\ obs_eqb (model_obs c') (dc_obs c') = true /\
    obs_instr_eqb (model_obs c) (model_obs c') = false.
Proof.
  exists impure_blocks, impure_blocks', impure_case, impure_case'. vm_compute. repeat split; reflexivity.
Qed.
Print Assumptions C07_phase_order_without_purity_refuted.

(** Non-vacuity: a test case with a repeated phase, a here-document containing a header line, a description,
    an escaped header in [act], and an included file that switches phase: the model reproduces what the real
    parser gave (frozen in Proofs/DocExamples.v), it is the declarative reading, every location checks; the
    setup phase has 4 elements from two files, cleanup 1 (from the included file), act 1. *)
Example C07_example :
  check_dcase ex_case = (true, true) /\
  match model_obs ex_case with
  | OOk secs => map (@length element) secs = [0; 4; 1; 0; 0; 1]%nat
  | OErr _ => False
  end.
Proof. vm_compute. split; reflexivity. Qed.

(** Diamond inclusion (two files include the same third file) is allowed; a cycle through three files is an
    error naming the whole chain. *)
Example C07_diamond_allowed_cycle_reported :
  check_dcase diamond_case = (true, true) /\
  (match model_obs diamond_case with OOk secs => map (@length element) secs = [0; 2; 0; 0; 0; 0]%nat | OErr _ => False end) /\
  check_dcase cycle_case = (true, true) /\
  (match model_obs cycle_case with OErr (EAccess (Some SSetup) _ chain Cyclic) => length chain = 3%nat | _ => False end).
Proof. vm_compute. repeat split; reflexivity. Qed.
