(** * Source tie for property C02 (outcome table): [translate_status] and the exit values as translated from the
    current Python source text (Gen/Src_Outcome.v, regenerated on every check) equal Model/Outcome.v. *)
From Coq Require Import ZArith List Bool String.
From Exactly Require Import Lib.PyVal Model.Outcome Gen.Src_Outcome Proofs.SrcTieOutcomeEnc Proofs.SrcTieOutcome.
Import ListNotations.
Local Open Scope Z_scope.

Theorem SrcTie_C02_translate_status : forall mode ps,
  py_result_translate_status (enc_tc mode) (enc_opt_fail ps) = enc_full (translate_status mode ps).
Proof. exact tie_translate_status. Qed.
Print Assumptions SrcTie_C02_translate_status.

Theorem SrcTie_C02_from_full_result : forall s,
  py_attr_exit_code (py_exit_values_from_full_result (enc_full s)) = VInt (exit_code_of_full s) /\
  py_attr_exit_identifier (py_exit_values_from_full_result (enc_full s)) = VStr (full_status_name s).
Proof. exact tie_from_full_result. Qed.
Print Assumptions SrcTie_C02_from_full_result.

Theorem SrcTie_C02_from_access_error : forall a,
  py_attr_exit_code (py_exit_values_from_access_error (enc_access a)) = VInt (fst (exit_value (AccessErr a))) /\
  py_attr_exit_identifier (py_exit_values_from_access_error (enc_access a))
  = VStr (ident_name (snd (exit_value (AccessErr a)))).
Proof. exact tie_from_access_error. Qed.
Print Assumptions SrcTie_C02_from_access_error.

Theorem SrcTie_C02_internal_error :
  py_attr_exit_code py_exit_values_EXECUTION__INTERNAL_ERROR = VInt (fst (exit_value InternalErr)) /\
  py_attr_exit_identifier py_exit_values_EXECUTION__INTERNAL_ERROR = VStr (ident_name (snd (exit_value InternalErr))).
Proof. exact tie_internal_error. Qed.
Print Assumptions SrcTie_C02_internal_error.

(** the enum classes of the source have exactly the members (names and values) the encoding uses *)
Theorem SrcTie_C02_enum_members :
  py_test_case_status_TestCaseStatus_members = map enc_tc [TPass; TSkip; TFail] /\
  py_result_ExecutionFailureStatus_members = map enc_fail [FSyntax; FValidation; FFail; FHard; FInternal] /\
  py_result_FullExeResultStatus_members
  = map enc_full [SYNTAX_ERROR; PASS; VALIDATION_ERROR; FAIL; SKIPPED; XFAIL; XPASS; HARD_ERROR; INTERNAL_ERROR] /\
  py_test_case_processing_AccessErrorType_members = map enc_access [FILE_ACCESS_ERROR; PRE_PROCESS_ERROR; ACC_SYNTAX_ERROR].
Proof. exact tie_members. Qed.
Print Assumptions SrcTie_C02_enum_members.
