(** C08 - Symbols: defined before use, defined once, type-checked, substituted faithfully.

    Model: Model/Symbols.v (mirrors symbol_validation.py, SymbolsValidator, the restriction classes,
    string/list/path resolution, the execution-time table of the executor).  Specification: Spec/C08.v
    (one left-to-right pass with eagerly evaluated definitions).  Preconditions of the theorems are the
    two boolean well-formedness checks evaluated on EVERY live case by the correspondence run
    ([wf_tcase]: the type recorded for a definition is the type of its value and references inside
    strings/lists/paths carry the restrictions the parsers attach; [builtins_ok]: builtin names are
    distinct, builtin values constant). *)
From Coq Require Import List Bool Arith NArith.
From Exactly Require Import Model.Exec Model.Symbols Spec.C08
  Proofs.SymbolsLayout Proofs.SymbolsSound Proofs.SymbolsAccept Proofs.SymbolsRun Proofs.SymbolsMain
  Proofs.SymbolsDecl Proofs.SymbolsMatrix Gen.C08_types.
Import ListNotations.

(** Validation accepts exactly what the specification accepts: no name defined twice (builtins
    included), every reference names a definition strictly earlier in execution order whose type
    satisfies the restriction of the context, transitively where the context demands it. *)
Theorem C08_accept_iff :
  forall roots builtins tc,
    builtins_ok builtins = true -> wf_tcase tc = true ->
    ((exists t, validate_all roots builtins tc = inl t) <-> spec_accept roots builtins tc = true).
Proof. exact accept_iff_validate. Qed.
Print Assumptions C08_accept_iff.

(** [spec_accept] in the words of the property: for every instruction [i] of the test case (in
    execution order: setup, act, before-assert, assert, cleanup; file order within a phase), with
    [earlier] = the builtin names and the names defined by the instructions strictly before [i]:
    a definition's name is not among [earlier]; every reference of [i] (for a definition: the references
    inside its value) names a member of [earlier], and the restriction of the reference's context holds
    for that definition ([restr_ok]: its type is among the accepted ones / its relativity is accepted,
    and where the context says so the same for every definition reachable from it). *)
Theorem C08_accept_declarative :
  forall roots builtins tc,
    spec_accept roots builtins tc = true <->
    (forall pre i post, exec_order tc = pre ++ i :: post ->
       let e := env_afters roots (env_of_table roots builtins) pre in
       let earlier := map fst builtins ++ def_names pre in
       (forall n c, i = IDef n c -> ~ In n earlier) /\
       (forall r, In r (instr_refs i) ->
          In (r_name r) earlier /\ exists d, find e (r_name r) = Some d /\ restr_ok e (r_restr r) d = true)).
Proof. exact accept_declarative. Qed.
Print Assumptions C08_accept_declarative.

(** ... in particular an accepted test case defines no name twice, builtin names included. *)
Theorem C08_accepted_defines_once :
  forall roots builtins tc,
    builtins_ok builtins = true -> spec_accept roots builtins tc = true ->
    NoDup (map fst builtins ++ def_names (exec_order tc)).
Proof. exact accepted_defined_once. Qed.
Print Assumptions C08_accepted_defines_once.

(** Any violation is reported as VALIDATION_ERROR (never an escaping exception) before anything
    executes: no sandbox, no value resolved. *)
Theorem C08_violation_is_validation_error_before_execution :
  forall roots builtins tc,
    builtins_ok builtins = true -> wf_tcase tc = true -> spec_accept roots builtins tc = false ->
    exists p i, sym_execute roots builtins tc = Outcome VdValidation (Some (p, i)) false [].
Proof. exact rejected_is_validation_error. Qed.
Print Assumptions C08_violation_is_validation_error_before_execution.

(** The file order of the sections does not matter: only the per-phase concatenation does. *)
Theorem C08_file_order_of_phases_irrelevant :
  forall roots builtins (l1 l2 : layout),
    (forall p, section_contents l1 p = section_contents l2 p) ->
    sym_execute roots builtins (assemble l1) = sym_execute roots builtins (assemble l2).
Proof. exact file_order_irrelevant. Qed.
Print Assumptions C08_file_order_of_phases_irrelevant.

(** The recursion through the table (resolution, the indirect check) terminates within the bound the
    model gives itself: on a validated table any larger bound gives the same result, and the indirect
    check of an entry never reports exhaustion. *)
Theorem C08_indirect_terminates :
  forall roots builtins tc tv,
    builtins_ok builtins = true -> wf_tcase tc = true -> validate_all roots builtins tc = inl tv ->
    forall f, length tv < f ->
      (forall m s, resolve roots f tv m s = resolve roots (fuel_of tv) tv m s) /\
      (forall v n c, lookup tv n = Some c ->
         check_indirect roots f tv v (sdv_refs (c_sdv c)) = check_indirect roots (fuel_of tv) tv v (sdv_refs (c_sdv c)) /\
         check_indirect roots f tv v (sdv_refs (c_sdv c)) <> SatExn XFuel).
Proof. exact indirect_terminates. Qed.
Print Assumptions C08_indirect_terminates.

(** Resolution.  In an accepted test case execution begins and does not end in a validation error;
    the values resolved by setup, act, before-assert and assert are exactly the specified ones
    (strings by concatenation, lists by splicing, a list inside a string joined by single spaces, paths
    rendered absolute: [spec_expected]); an internal error can only be attributed to a [cleanup]
    instruction.  PARTIAL: for [cleanup] the specified values (and the absence of an internal error)
    are proved only when no instruction of the earlier phases fails by itself ([no_stop_main]), i.e.
    when every main step scheduled before cleanup has run - without that proviso the clause is
    refuted, see [C08_runtime_table_sound_refuted]. *)
Theorem C08_resolution_partial :
  forall roots builtins tc,
    builtins_ok builtins = true -> wf_tcase tc = true -> spec_accept roots builtins tc = true ->
    let o := sym_execute roots builtins tc in
    o_sandbox o = true /\ o_verdict o <> VdValidation /\
    exists main cl ecl,
      o_values o = main ++ cl /\ spec_expected roots builtins tc = map some_obs main ++ ecl /\
      Forall (fun x => fst (fst x) <> Cleanup) main /\ Forall in_cleanup cl /\ Forall in_cleanup ecl /\
      (o_verdict o = VdInternal -> exists j, o_failing o = Some (Cleanup, j)) /\
      (no_stop_main tc = true -> map some_obs cl = ecl /\ o_verdict o <> VdInternal).
Proof. exact accepted_execution. Qed.
Print Assumptions C08_resolution_partial.

(** The execution-time table.  PARTIAL (what is missing: the case where a scheduled main step has
    NOT run): when every main step scheduled before an instruction has run, the execution-time table
    (builtins + the definitions before it) holds every symbol the instruction references, with the
    container that validation saw, and resolving it succeeds. *)
Theorem C08_runtime_table_sound_partial :
  forall roots builtins tc tv pre i post,
    builtins_ok builtins = true -> wf_tcase tc = true -> validate_all roots builtins tc = inl tv ->
    exec_order tc = pre ++ i :: post ->
    let rt := puts builtins pre in
    forall r, In r (instr_refs i) ->
      exists c, lookup rt (r_name r) = Some c /\ lookup tv (r_name r) = Some c /\
                exists v, resolve roots (fuel_of rt) rt false (c_sdv c) = Ok v.
Proof. exact runtime_table_sound_partial. Qed.
Print Assumptions C08_runtime_table_sound_partial.

(** REFUTED without the proviso: [assert] failing-instruction; def X = a  [cleanup] use X  is accepted,
    cleanup runs after the failure, the definition's main step never ran: the look-up raises
    (KeyError -> INTERNAL_ERROR, attributed to the cleanup instruction).  Replayed on the real program
    by the harness (corpus case A10; known finding KF-C08-1). *)
Definition kf_roots (r : rel) : text := [47%N].
Definition kf_any : restr := RDI (VArb [WString; WPath; WList]) None.
Definition kf_case : tcase :=
  TCase [] [] []
        [IStop false; IDef 100%N (Cont TString (SStr [FConst [97%N]]))]
        [IUse [Ref 100%N kf_any] [SStr [FSym (Ref 100%N kf_any)]]].
Theorem C08_runtime_table_sound_refuted :
  exists roots builtins tc,
    builtins_ok builtins = true /\ wf_tcase tc = true /\ spec_accept roots builtins tc = true /\
    sym_execute roots builtins tc = Outcome VdInternal (Some (Cleanup, 0)) true [] /\
    spec_expected roots builtins tc = [(Cleanup, 0, Some [[97%N]])].
Proof. exists kf_roots, [], kf_case. vm_compute. repeat split. Qed.
Print Assumptions C08_runtime_table_sound_refuted.

(** What the property demands is consistent and is met by a one-line change of the model of the
    executor: if [cleanup] is given every definition of the earlier phases ([sym_execute_gen true]) the
    whole resolution clause holds for every accepted test case, with no proviso.  (The correspondence
    check accepts this behaviour too on inputs of the known finding, so a repair of the defect keeps
    the check silent.) *)
Theorem C08_resolution_of_repaired_executor :
  forall roots builtins tc,
    builtins_ok builtins = true -> wf_tcase tc = true -> spec_accept roots builtins tc = true ->
    let o := sym_execute_gen true roots builtins tc in
    o_sandbox o = true /\ o_verdict o <> VdValidation /\ o_verdict o <> VdInternal /\
    map some_obs (o_values o) = spec_expected roots builtins tc.
Proof. exact repaired_execution. Qed.
Print Assumptions C08_resolution_of_repaired_executor.

(** (T) The type-compatibility matrix tabulated on this run from the live restriction objects of the
    implementation (every context x every kind of definition; coq/Gen/C08_types.v): the model's
    [restr_sat] and the specification's [ref_ok] give, entry by entry, the answer the implementation
    gave; all 13 value types occur. *)
Theorem C08_type_matrix_matches_model :
  (forall r c b, In (r, c, b) gen_type_matrix ->
     (restr_sat mx_roots [(100%N, c)] r c = Sat <-> b = true) /\
     ref_ok (env_of_table mx_roots [(100%N, c)]) (Ref 100%N r) = b) /\
  (forall ty, exists x, In x gen_type_matrix /\ c_type (snd (fst x)) = ty).
Proof. exact type_matrix_full. Qed.
Print Assumptions C08_type_matrix_matches_model.

(** *** Non-vacuity *)
Definition ex_str (n : N) (fs : list frag) : instr := IDef n (Cont TString (SStr fs)).
Definition ex_b : table := [(0%N, Cont TString (SStr [FConst [9%N]])); (1%N, Cont TPath (SPth (PConst (Some RAct) [])))].
Definition ex_roots (r : rel) : text := match r with RAct => [47; 83; 47; 97]%N | _ => [47; 72]%N end.
(* def string A = "a" ; def list L = @[A]@ "b c" @[ACT]@ ; file f = "x@[L]@"  -> "xa b c /S/a" *)
Definition ex_ok : tcase :=
  TCase [ex_str 100%N [FConst [97%N]];
         IDef 101%N (Cont TList (SLst [ESym (Ref 100%N kf_any); EStr [FConst [98; 32; 99]%N]; ESym (Ref 1%N kf_any)]))]
        [] [IUse [Ref 101%N kf_any] [SStr [FConst [120%N]; FSym (Ref 101%N kf_any)]]] [] [].
Example C08_ex_accepted_values :
  spec_accept ex_roots ex_b ex_ok = true /\
  sym_execute ex_roots ex_b ex_ok =
    Outcome VdPass None true [(BeforeAssert, 0, [[120; 97; 32; 98; 32; 99; 32; 47; 83; 47; 97]%N])].
Proof. vm_compute. split; reflexivity. Qed.
(* duplicate of a builtin; forward reference; wrong type reached indirectly (a list inside a string used as path suffix) *)
Definition str_only : restr := RDI (VArb [WString]) (Some (VArb [WString])).
Example C08_ex_rejected :
  spec_accept ex_roots ex_b (TCase [ex_str 0%N [FConst [97%N]]] [] [] [] []) = false /\
  spec_accept ex_roots ex_b (TCase [IUse [Ref 100%N kf_any] []] [] [] [] [ex_str 100%N []]) = false /\
  spec_accept ex_roots ex_b
    (TCase [IDef 100%N (Cont TList (SLst [])); ex_str 101%N [FSym (Ref 100%N kf_any)];
            IDef 102%N (Cont TPath (SPth (PRelOpt RAct [FSym (Ref 101%N str_only)])))] [] [] [] []) = false /\
  sym_execute ex_roots ex_b
    (TCase [IDef 100%N (Cont TList (SLst [])); ex_str 101%N [FSym (Ref 100%N kf_any)];
            IDef 102%N (Cont TPath (SPth (PRelOpt RAct [FSym (Ref 101%N str_only)])))] [] [] [] []) =
    Outcome VdValidation (Some (Setup, 2)) false [].
Proof. vm_compute. repeat split. Qed.
