(** Property C01 — phased execution protocol.  Theorem statements only. *)
From Coq Require Import List Bool Arith.
From Exactly Require Import Lib.Harness Model.Outcome Model.Exec Spec.C01 Proofs.ExecSpec Proofs.ExecCorollaries.
Import ListNotations.

(** The executor (three try-blocks, three cleanup policies) refines the declarative protocol:
    for every number of instructions per phase, every position and kind of failure. *)
Theorem C01_exec_refines_spec : forall tc, partial_execute tc = spec_partial tc.
Proof. exact partial_execute_refines_spec. Qed.
Print Assumptions C01_exec_refines_spec.

Theorem C01_full_exec_refines_spec : forall tc, full_execute tc = spec_full tc.
Proof. exact full_execute_refines_spec. Qed.
Print Assumptions C01_full_exec_refines_spec.

(** Fixed order, instructions in file order, halt at the first failure: the trace is the plan up to
    and including its first failing item, followed only by the cleanup part. *)
Theorem C01_fixed_order_halts_at_first_failure : forall tc,
  exists cl, fst (partial_execute tc) = map fst (tuf (schedule tc)) ++ cl /\ cleanup_part tc cl.
Proof. exact trace_is_plan_prefix_then_cleanup. Qed.
Print Assumptions C01_fixed_order_halts_at_first_failure.

Theorem C01_items_before_the_failing_one_succeeded : forall l pre it post,
  tuf l = pre ++ it :: post -> post <> [] -> snd it = None.
Proof. exact tuf_all_but_last_ok. Qed.
Print Assumptions C01_items_before_the_failing_one_succeeded.

(** Every phase is validated (act parse, symbols, pre-sds) before any main step, the sandbox or
    act/execute. *)
Theorem C01_validation_before_main : forall tc,
  exists t1 t2, fst (partial_execute tc) = t1 ++ t2 /\
                Forall (fun e => is_validation_event e = true) t1 /\
                Forall (fun e => is_validation_event e = false) t2.
Proof. exact validation_precedes_execution. Qed.
Print Assumptions C01_validation_before_main.

(** Once the sandbox exists cleanup is run exactly once; without sandbox never. *)
Theorem C01_cleanup_exactly_once : forall tc,
  let t := fst (partial_execute tc) in
  count_ev is_cleanup_begin t = (if existsb is_sandbox t then 1 else 0) /\
  existsb is_sandbox t = pr_has_sds (snd (partial_execute tc)).
Proof. exact cleanup_exactly_once_iff_sandbox. Qed.
Print Assumptions C01_cleanup_exactly_once.

(** The outcome names the earliest failing step, or a failing step of the cleanup that ran; it is a
    pass only if no executed step failed. *)
Theorem C01_outcome_names_earliest_failure : forall tc,
  match pr_failure (snd (partial_execute tc)) with
  | None => ffail (schedule tc) = None /\
            forall prev, In (ECleanupBegin prev) (fst (partial_execute tc)) -> ffail (sched_cleanup tc prev) = None
  | Some f => ffail (schedule tc) = Some f \/
              exists prev, In (ECleanupBegin prev) (fst (partial_execute tc)) /\ ffail (sched_cleanup tc prev) = Some f
  end.
Proof. exact outcome_names_earliest_failure. Qed.
Print Assumptions C01_outcome_names_earliest_failure.

Theorem C01_status_kind : forall tc f,
  pr_failure (snd (partial_execute tc)) = Some f ->
  exists i, nth_error (instrs_of tc (f_phase f)) (f_idx f) = Some i /\ outcome (i (f_step f)) = Some (f_status f).
Proof. exact failure_status_is_that_steps_kind. Qed.
Print Assumptions C01_status_kind.

Theorem C01_never_pass_after_failure : forall tc,
  In (fr_status (snd (full_execute tc))) [PASS; XPASS] ->
  ffail (sched_step tc (Conf, SMain)) = None /\ fr_failure (snd (full_execute tc)) = None /\
  pr_failure (snd (partial_execute tc)) = None.
Proof. exact full_pass_implies_no_failure. Qed.
Print Assumptions C01_never_pass_after_failure.

Theorem C01_skip_runs_only_conf : forall tc,
  tc_status tc = TSkip -> ffail (sched_step tc (Conf, SMain)) = None ->
  full_execute tc = (map fst (sched_step tc (Conf, SMain)), FResult SKIPPED None false false).
Proof. exact skip_runs_only_conf. Qed.
Print Assumptions C01_skip_runs_only_conf.

(** Cleanup is told which phase ran last (from the specification: decided by where the first
    failure is). *)
Theorem C01_cleanup_told_previous_phase : forall tc prev,
  In (ECleanupBegin prev) (fst (partial_execute tc)) -> prev = prev_of (tc_act_only tc) (ffail (schedule tc)).
Proof.
  intros tc prev. rewrite partial_execute_refines_spec. unfold spec_partial.
  assert (Hplan : ~ In (ECleanupBegin prev) (map fst (tuf (schedule tc)))).
  { intros Hin. apply in_map_iff in Hin as (it & E & Hin). apply tuf_incl, schedule_items in Hin.
    destruct Hin as [H|(p & k & j & H)]; congruence. }
  assert (Hcl : forall prev', In (ECleanupBegin prev) (map fst (tuf (sched_cleanup tc prev'))) -> prev = prev').
  { intros prev' Hin. cbn in Hin. destruct Hin as [H|Hin]; [congruence|].
    apply in_map_iff in Hin as (it & E & Hin). apply tuf_incl, sched_list_events in Hin as (j & i & E' & _). congruence. }
  destruct (ffail (schedule tc)) as [f|]; [destruct (in_validation f)|]; cbn [fst]; intros Hin;
    try contradiction; apply in_app_or in Hin as [Hin|Hin]; try contradiction; apply Hcl, Hin.
Qed.
Print Assumptions C01_cleanup_told_previous_phase.

(** Non-vacuity: 2 instructions per phase, hard error raised by assert[1], exception in cleanup[0]:
    the assert failure is replaced by the cleanup failure, cleanup is told ASSERT. *)
Example C01_example :
  let tc := TC [ok_instr] [ok_instr; ok_instr] ok_instr [ok_instr; ok_instr] [ok_instr; failing_at SMain BHardRaise]
               [failing_at SMain BExn; ok_instr] TPass false in
  let (t, r) := full_execute tc in
  fr_status r = INTERNAL_ERROR /\ option_map f_phase (fr_failure r) = Some Cleanup /\
  length t = 39 /\
  filter is_cleanup_main t = [EInstr Cleanup SMain 0 (Some PAssert)] /\
  nth_error t 35 = Some (EInstr Assert SMain 0 None) /\ nth_error t 36 = Some (EInstr Assert SMain 1 None) /\
  nth_error t 37 = Some (ECleanupBegin PAssert) /\ nth_error t 20 = Some ESandbox.
Proof. vm_compute. repeat split. Qed.

(** "The check predicate holds on the model" (built by a separate pass; proofs in Proofs/PredOnModelC01.v): the boolean
    predicate the check evaluates on OBSERVED behaviour is true of the model's own output for all inputs, and
    correspondence on an input implies the property on that input. *)
From Exactly Require Import Proofs.PredOnModelC01.
(** ** C01.  [obs_of_model tc] = (trace of [full_execute tc] filtered by [observable], status,
    failing (phase, step), has_sds, has_atc).  For every test case: any number of instructions per
    phase, any behaviour at any step (admissible for the step's return type or not), any status,
    --act or not.  No side condition. *)
Theorem C01_check_predicate_holds_on_model : forall tc, P_C01 tc (obs_of_model tc) = true.
Proof. exact P_C01_holds_on_model. Qed.
Print Assumptions C01_check_predicate_holds_on_model.

Theorem C01_check_on_model : forall tc, check_c01 (C01Case tc (obs_of_model tc)) = (true, true).
Proof. exact check_c01_on_model. Qed.
Print Assumptions C01_check_on_model.

(** the correspondence half being true forces the observation to be the model's *)
Theorem C01_correspondence_determines_observation : forall c,
  fst (check_c01 c) = true -> c_obs c = obs_of_model (c_tc c).
Proof. exact corr_determines_obs. Qed.
Print Assumptions C01_correspondence_determines_observation.

Theorem C01_correspondence_implies_property : forall c, fst (check_c01 c) = true -> snd (check_c01 c) = true.
Proof. exact corr_implies_property. Qed.
Print Assumptions C01_correspondence_implies_property.

