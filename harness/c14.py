"""C14 - a text has one value however it is consumed.  Correspondence harness.

Implementation side: string sources built by the real parser (`string_source.parse.default_parser_for`:
literals and here-documents, `-contents-of FILE`, `-stdout-from PROGRAM`, `-transformed-by ...`) in an
ApplicationEnvironment with a chosen mem_buff_size, consumed through `contents().as_str / as_lines /
as_file / may_depend_on_external_resources` and `freeze()` in a generated order; and string matchers built
by the real `parse_string_matcher` applied to such sources (verdict pairs that must agree).
Model side: Model/StrSrc.v through Spec/C14.v (`check_case`), evaluated by vm_compute.
"""
import json
import os
import pathlib
import shutil
import tempfile

import common
from common import Failure, cN, cbool, clist


def ctext(t):
    """a text as list N; long texts as a concatenation of chunks (a 40 000 element list literal is too deep for the parser)"""
    if len(t) <= 400:
        return common.ctext(t)
    return '(@List.concat N %s)' % clist([common.ctext(t[i:i + 400]) for i in range(0, len(t), 400)])
import impl

EXPLANATION = ('Theorems over the Gallina model of the string-source classes (Props/C14.v): every view (as_str, as_lines, '
               'as_file) of every source expression (literal, file, program output, line transformers, filter, run, concat), '
               'for every buffer size and every access order before/after freezing, shows the text the expression denotes, '
               'and the verdicts of M, ( M && M ), ( M || M ), identity-wrapped M and of equals over all source kinds agree - '
               'under the guard that no text contains a str.splitlines boundary other than LF; refuted without the guard by '
               'witnesses = the two open known findings; plus differential correspondence of that model with the running '
               'code, deviations included.')
ASSUMPTIONS = ['Linux text mode: writing "\\n" is the identity, reading applies universal newlines (modelled, and tested '
               'differentially together with the code that uses it)',
               'files and program output are valid UTF-8 (Unicode scalar values); a file on disk is modelled as its code '
               'points, the spooled file as UTF-8 bytes with a byte position (encoder/decoder in the model, round trip proved)',
               'line transformations and external programs are abstract functions in the theorems (hypothesis: they map '
               'well-formed clean line sequences / texts to such); the correspondence uses identity, char-case -to-upper '
               '(ASCII letters), filter with line-num / contents matches / constant, run with cat / tr ab ba / tail -n +2',
               'texts are smaller than the 8 KiB buffers of the Python io layer (a decode error is observed at the first read)',
               'concat is modelled for two parts (the n-ary loop of _lines_iter is mirrored for n = 2)']
TRUSTED_EXTRA = ['CPython str.splitlines / io text layer / UTF-8 codec as modelled by Lib/Text.v and Model/StrSrc.v '
                 '(splitlines_keepends, universal_nl, lines_lf, utf8, utf8_decode), tied by the same differential run',
                 '/bin/cat, tr, tail used as external programs in the correspondence cases']

FIXED_MTIME = 1600000000
KF1 = 'KF-C14-1'
KF2 = 'KF-C14-2'
EXOTIC_NO_CR = '\x0b\x0c\x1c\x1d\x1e\x85\u2028\u2029'
EXOTIC = '\r' + EXOTIC_NO_CR
CODEC_SPECIAL = ['\ufeff', '\x00', '\x1a']  # characters some codecs / io layers treat specially; ordinary in a text
PLAIN = ['a', 'b', 'c', ' ', 'a', 'b', '€', '\U0001d11e']


# ---------------------------------------------------------------------------------------------
# generators
# ---------------------------------------------------------------------------------------------
def gen_text(rng, exotic, max_lines=5, max_line=4):
    """texts by lines: empty text, empty lines, no final newline, CR LF ends, exotic boundaries"""
    if rng.chance(0.06):
        return ''
    if rng.chance(0.07):  # nothing but new-lines / blank lines / spaces
        return rng.choice(['\n', '\n\n', '\n\n\n', ' ', ' \n', '\n ', ' \n\n', '  \n \n', '\n \n\n'])
    n = rng.randint(1, max_lines)
    out = []
    for i in range(n):
        k = rng.randint(0, max_line)
        line = '\ufeff' if i == 0 and rng.chance(0.08) else ''   # a text starting with U+FEFF (a "BOM" for some codecs)
        for _ in range(k):
            if exotic and rng.chance(0.25):
                line += rng.choice(EXOTIC)
            elif rng.chance(0.04):
                line += rng.choice(CODEC_SPECIAL)
            else:
                line += rng.choice(PLAIN)
        last = i == n - 1
        if last and rng.chance(0.4):
            term = ''
        elif exotic and rng.chance(0.35):
            term = rng.choice(['\r\n', '\r\n', '\r', '\x0c\n', '\x85', '\u2028'])
        else:
            term = '\n'
        out.append(line + term)
    t = ''.join(out)
    if rng.chance(0.15):  # blank lines / spaces at the end or at the start
        pad = rng.choice(['\n', '\n\n', ' \n', ' ', '\n '])
        t = t + pad if rng.chance(0.7) else pad + t
    return t


PREDS = ['le', 'ge', 'ne', 'has', 'true']


def gen_pred(rng):
    k = rng.choice(PREDS)
    if k in ('le', 'ge', 'ne'):
        return (k, rng.randint(0, 4))
    if k == 'has':
        return (k, rng.choice('ab'))
    return (k,)


RUNS = {'cat': ('cat', 'g_cat'), 'tr': ('tr ab ba', 'g_tr_ab'), 'tail': ('tail -n +2', 'g_tail2')}


# replace REGEX REPLACEMENT with a literal regex: (regex syntax, replacement syntax, pattern, replacement)
REPLS = {'nl': ("'\\n'", "''", '\n', ''),          # removes every new-line
         'bnl': ("'b\\n'", 'B', 'b\n', 'B'),        # removes the new-line of lines ending in b
         'a_nl': ('a', "'a\\n'", 'a', 'a\n'),       # inserts new-lines
         'abb': ('a', 'bb', 'a', 'bb')}               # neither


STRIPS = {'both': ('strip', 'StripBoth'), 'space': ('strip -trailing-space', 'StripTrailingSpace'),
          'nl': ('strip -trailing-new-lines', 'StripTrailingNewLines')}


BLANK_TEXTS = ['\n', '\n\n', '\n\n\n', ' ', ' \n', '\n ', ' \n\n', '  \n \n', '\n \n\n', 'a\n\n', 'a\n \n\n', '\n\na', ' a \n\n ']


def gen_strip_trans(rng):
    """a transformer in which a strip variant meets the text directly or after neutral / other operands"""
    st = ('strip', rng.choice(sorted(STRIPS)))
    r = rng.below(6)
    if r < 3:
        return ('atom', st)
    if r < 4:
        return ('seq', [('id',), st])
    if r < 5:
        return ('seq', [st, gen_atom(rng)])
    return ('chain', ('s', [('s', [('a', ('id', rng.chance(0.5))), ('a', st)]), gen_leaf(rng)]))


def gen_atom(rng):
    return rng.weighted([(('id',), 3), (('upper',), 2), (('filter', gen_pred(rng)), 5),
                         (('run', rng.choice(sorted(RUNS))), 2),
                         (('replace', rng.choice(sorted(REPLS)), rng.chance(0.25)), 4),
                         (('strip', rng.choice(sorted(STRIPS))), 4)])


def gen_trans(rng):
    """None | ('atom', a) | ('seq', [a..]) | ('chain', tree): a chain with sub-chains, `identity` at every level"""
    r = rng.below(20)
    if r < 4:
        return None
    if r < 11:
        return ('atom', gen_atom(rng))
    if r < 16:
        return ('seq', [gen_atom(rng) for _ in range(rng.randint(2, 4))])
    return ('chain', gen_tree(rng, 2, top=True))


# trees of chains: ('a', atom) | ('s', [tree..]) | ('runt', program, tree): run PROGRAM -transformed-by TREE
def gen_leaf(rng):
    return ('a', ('id', rng.chance(0.5)) if rng.chance(0.4) else gen_atom(rng))


def gen_tree(rng, depth, top=False):
    r = rng.below(10)
    if not top and (depth <= 0 or r < 5):
        return gen_leaf(rng)
    if not top and r < 6 and rng.chance(0.5):
        return ('runt', rng.choice(sorted(RUNS)), gen_tree(rng, 0) if rng.chance(0.4) else ('s', [gen_leaf(rng), gen_leaf(rng)]))
    elems = [gen_tree(rng, depth - 1) for _ in range(rng.randint(2, 3))]
    if top and not any(e[0] == 's' for e in elems):  # at least one parenthesised sub-chain, with an identity in it
        elems[rng.below(len(elems))] = ('s', [gen_leaf(rng), ('a', ('id', rng.chance(0.5)))] if rng.chance(0.5)
                                        else [('a', ('id', rng.chance(0.5))), gen_leaf(rng)])
    return ('s', elems)


def tree_src(t):
    if t[0] == 'a':
        return atom_src(t[1])
    if t[0] == 's':
        return '( ' + ' | '.join(tree_src(e) for e in t[1]) + ' )'
    return 'run % ' + RUNS[t[1]][0] + '\n-transformed-by ' + tree_src(t[2]) + '\n'


def tree_coq(t):
    if t[0] == 'a':
        return '(CAtom %s)' % atom_coq(t[1])
    if t[0] == 's':
        return '(CSeq %s)' % clist([tree_coq(e) for e in t[1]])
    return '(CSeq [CAtom (TRun %s); %s])' % (RUNS[t[1]][1], tree_coq(t[2]))


def as_tree(trans):
    if trans[0] == 'atom':
        return ('a', trans[1])
    if trans[0] == 'seq':
        return ('s', [('a', a) for a in trans[1]])
    return trans[1]


BASE_KINDS = ['str', 'file', 'prog']
ACCESSES = ['str', 'lines', 'file', 'dep', 'freeze', 'write']


def gen_accesses(rng):
    n = rng.randint(1, 5)
    accs = [rng.choice(ACCESSES) for _ in range(n)]
    if rng.chance(0.5) and 'freeze' not in accs:
        accs.insert(rng.below(len(accs) + 1), 'freeze')
    if accs == ['freeze']:
        accs.append(rng.choice(ACCESSES[:3]))
    return accs


def gen_part(rng, exotic):
    """a part of a concat: (kind, text, transformer)"""
    if rng.chance(0.25):
        k, t = gen_progx(rng, exotic, small=True)
        return (k, t, None)
    return (rng.choice(BASE_KINDS), gen_text(rng, exotic, 3, 3), gen_trans(rng) if rng.chance(0.35) else None)


def gen_progx(rng, exotic, small=False, allow_nd=True):
    variant = rng.choice(sorted(PROG_VARIANTS))
    ml = 3 if small else 5
    r = rng.below(3)
    nd = allow_nd and rng.chance(0.3 if small else 0.5)  # a program that prints something different at every run
    if r == 0:
        return 'progx', (variant, gen_text(rng, exotic, ml, 3), None, nd)
    sin = (rng.choice(['str', 'file']), gen_text(rng, exotic, ml, 3))
    if rng.chance(0.4):  # two stdin parts (the first one through a program symbol)
        sin = (sin, (rng.choice(['str', 'file']), gen_text(rng, exotic, 2, 3)))
    return 'progx', (variant, None if r == 1 else gen_text(rng, exotic, 2, 3), sin, nd)


def gen_big_text(rng):
    """9-40 KiB, clean, mostly ASCII, lines of 0-80 characters, sometimes without final newline"""
    target = rng.randint(9 * 1024, 40 * 1024)
    out, n = [], 0
    while n < target:
        k = rng.randint(0, 80)
        line = ''.join(rng.choice('abc xyz') for _ in range(k))
        if rng.chance(0.05):
            line += '\u20ac'
        out.append(line + '\n')
        n += k + 1
    t = ''.join(out)
    return t if rng.chance(0.7) else t[:-1]


def gen_buff(rng, text):
    n, nb = len(text), len(text.encode())
    cands = [1, 2, max(1, n - 1), max(1, n), n + 1, max(1, nb - 1), max(1, nb), nb + 1, 8192]
    return rng.choice(cands)


# ---------------------------------------------------------------------------------------------
# rendering: exactly syntax / Coq terms
# ---------------------------------------------------------------------------------------------
def pred_src(p):
    if p[0] == 'le':
        return 'line-num <= %d' % p[1]
    if p[0] == 'ge':
        return 'line-num >= %d' % p[1]
    if p[0] == 'ne':
        return 'line-num != %d' % p[1]
    if p[0] == 'has':
        return "contents matches '%s'" % p[1]
    return 'constant true'


def pred_coq(p):
    if p[0] == 'le':
        return '(p_num_le %s)' % cN(p[1])
    if p[0] == 'ge':
        return '(p_num_ge %s)' % cN(p[1])
    if p[0] == 'ne':
        return '(p_num_ne %s)' % cN(p[1])
    if p[0] == 'has':
        return '(p_has %s)' % cN(ord(p[1]))
    return 'p_true'


def atom_src(a):
    if a[0] == 'id':
        return 'IDT' if len(a) > 1 and a[1] else 'identity'  # IDT: a text-transformer symbol defined as identity
    if a[0] == 'upper':
        return 'char-case -to-upper'
    if a[0] == 'strip':
        return STRIPS[a[1]][0]
    if a[0] == 'replace':
        return 'replace %s%s %s' % ('-preserve-new-lines ' if a[2] else '', REPLS[a[1]][0], REPLS[a[1]][1])
    if a[0] == 'run':
        return 'run % ' + RUNS[a[1]][0] + '\n'  # the shell command takes the rest of the line
    return 'filter ' + pred_src(a[1])


def atom_coq(a):
    if a[0] == 'id':
        return 'TId'
    if a[0] == 'upper':
        return 'TUpper'
    if a[0] == 'strip':
        return '(TStrip %s)' % STRIPS[a[1]][1]
    if a[0] == 'replace':
        sub = '(subst %s %s)' % (ctext(REPLS[a[1]][2]), ctext(REPLS[a[1]][3]))
        return '(TReplace %s)' % ('(sub_preserving_nl %s)' % sub if a[2] else sub)
    if a[0] == 'run':
        return '(TRun %s)' % RUNS[a[1]][1]
    return '(TFilter %s)' % pred_coq(a[1])


def trans_src(t):
    if t[0] == 'atom':
        return atom_src(t[1])
    if t[0] == 'chain':
        return tree_src(t[1])
    return '( ' + ' | '.join(atom_src(a) for a in t[1]) + ' )'


def trans_coq(t):
    if t is None:
        return 'None'
    if t[0] == 'atom':
        return '(Some (TAtom %s))' % atom_coq(t[1])
    if t[0] == 'chain':
        return '(Some (TChain %s))' % tree_coq(t[1])
    return '(Some (TSeq %s))' % clist([atom_coq(a) for a in t[1]])


PROG_VARIANTS = {'out': ('-stdout-from ', 'PFd', False, False), 'outi': ('-stdout-from -ignore-exit-code ', 'PFd', False, True),
                 'erri': ('-stderr-from -ignore-exit-code ', 'PFd', True, True), 'err': ('-stderr-from ', 'PFile', True, False)}


def stdin_parts(sin):
    """the stdin parts of a progx source: None | (kind, text) | ((kind, text), (kind, text))"""
    if sin is None:
        return []
    return [tuple(sin)] if isinstance(sin[0], str) else [tuple(q) for q in sin]


def base_coq(kind, text):
    if kind == 'concat':  # text = ((kind, text, trans), ...): any number of parts
        return '(SConcat cs0 %s)' % clist(['(build %s %s)' % (base_coq(k, t), trans_coq(tr)) for k, t, tr in text])
    if kind == 'str':
        return '(SStr %s)' % ctext(text)
    if kind == 'file':
        return '(SFile %s)' % ctext(text)
    if kind == 'prog':
        return '(SProg PFd (det (g_const %s)) cs0 [])' % ctext(text)
    if kind == 'progx':  # text = (variant, text printed by the program or None, stdin part (kind, text) or None)
        v, ft, sin, nd = text
        sins = stdin_parts(sin)
        if nd:
            g = '(g_counting %s)' % ctext(ft or '')
        else:
            g = '(det %s)' % ('g_cat' if ft is None else ('(g_const %s)' % ctext(ft) if not sins else '(g_prefix %s)' % ctext(ft)))
        return '(SProg %s %s cs0 %s)' % (PROG_VARIANTS[v][1], g, clist([base_coq(*q) for q in sins]) if sins else '(@nil src)')
    if kind == 'runin':  # text = ((model kind, model text), (stdin kind, stdin text)): MODEL -transformed-by run % cat -stdin S
        m, sin = text
        return '(SRun g_cat cs0 (SConcat cs0 [%s; %s]))' % (base_coq(*sin), base_coq(*m))
    raise ValueError(kind)


ACC_COQ = {'str': 'AStr', 'lines': 'ALines', 'file': 'AFile', 'dep': 'ADep', 'freeze': 'AFreeze', 'write': 'AWrite'}


def obs_coq(o):
    k, v = o
    if k == 'str':
        return '(OStr %s)' % ctext(v)
    if k == 'lines':
        return '(OLines %s)' % (clist([ctext(l) for l in v]) if v else '(@nil text)')
    if k == 'file':
        return '(OFile (FText %s))' % ctext(v)
    if k == 'filebytes':
        return '(OFile (FBytes %s))' % common.cbytes(bytes(v))
    if k == 'written':
        return '(OWritten (FText %s))' % ctext(v)
    if k == 'writtenbytes':
        return '(OWritten (FBytes %s))' % common.cbytes(bytes(v))
    if k == 'exc':
        return 'OExc'
    if k == 'dep':
        return '(ODep %s)' % cbool(v)
    return 'OFrozen'


def literal_src(text, rng_bit):
    """a here-document when the text allows it (and the coin says so), else a quoted literal"""
    if rng_bit and text.endswith('\n') and 'EOF' not in text and not any(c in text for c in EXOTIC):
        return '<<EOF\n' + text + 'EOF\n'
    assert "'" not in text
    return "'" + text + "' "


# ---------------------------------------------------------------------------------------------
# the implementation
# ---------------------------------------------------------------------------------------------
class World:
    def __init__(self, work):
        from exactly_lib.tcfs.hds import HomeDs
        from exactly_lib.tcfs import sds as sdsm
        from exactly_lib.tcfs.tcds import TestCaseDs
        from exactly_lib.impls.types.string_source import parse as ss_parse
        from exactly_lib.impls.types.string_matcher import parse_string_matcher
        self.root = tempfile.mkdtemp(prefix='c14-', dir=work)
        self.home = pathlib.Path(self.root) / 'home'
        self.home.mkdir()
        os.mkdir(os.path.join(self.root, 'sds'))
        self.tcds = TestCaseDs(HomeDs(self.home, self.home), sdsm.construct_at(os.path.join(self.root, 'sds')))
        self.ss_parser = ss_parse.default_parser_for(True)
        self.sm = parse_string_matcher
        self.n = 0
        self.symdefs = {}

    def close(self):
        shutil.rmtree(self.root, ignore_errors=True)

    def new_env(self, buff):
        self.n += 1
        d = os.path.join(self.root, 'e%d' % self.n)
        os.mkdir(d)
        return d, impl.app_env(d, buff)

    def put_file(self, text):
        self.n += 1
        p = self.home / ('f%d.txt' % self.n)
        p.write_bytes(text.encode('utf-8'))
        os.utime(p, (FIXED_MTIME, FIXED_MTIME))  # one instant for all input files: size + mtime never tell files apart
        return p

    def clear_files(self):
        for f in self.home.iterdir():
            f.unlink()
        self.symdefs = {}

    def source_syntax(self, kind, text, trans, here_doc=False):
        """(exactly syntax of the string source, None)"""
        if kind == 'str':
            s = literal_src(text, here_doc)
        elif kind == 'file':
            s = '-contents-of -rel-home %s ' % self.put_file(text).name
        elif kind == 'prog':
            s = '-stdout-from % cat ' + str(self.put_file(text)) + '\n'
        elif kind == 'progx':
            v, ft, sin, nd = text
            sins = stdin_parts(sin)
            opt, _, to_stderr, ignore = PROG_VARIANTS[v]
            cmd = 'cat' + ('' if ft is None else ' ' + str(self.put_file(ft))) + (' -' if sins and ft is not None else '')
            if nd:  # prints one more "x" at every run: the k-th run (k = 0, 1, ...) appends k times "x"
                cnt, xs = self.put_file('0\n'), self.put_file('x' * 64)
                cmd = '{ n=$(cat %s); echo $((n+1)) > %s; %s; head -c $n %s; }' % (cnt, cnt, cmd, xs)
            if to_stderr:
                cmd += ' >&2'
            if ignore:
                cmd += '; exit 3'
            # `$`: a shell command line (`%` runs a program without a shell).  The stdin source is parenthesised:
            # a following -transformed-by then belongs to the program, not to the stdin source.
            def stdin_opt(q):
                return '-stdin ( ' + nl(self.source_syntax(q[0], q[1], None)[0]) + ')\n'
            if len(sins) == 2:
                # two stdin parts: the first comes with the definition of a program symbol, the second with the reference
                self.n += 1
                name = 'PROG%d' % self.n
                self.symdefs[name] = '$ ' + cmd + '\n' + stdin_opt(sins[0])
                s = opt + '@ ' + name + '\n' + stdin_opt(sins[1])
            else:
                s = opt + '$ ' + cmd + '\n' + ''.join(stdin_opt(q) for q in sins)
        elif kind == 'progsym':
            return self.progsym_syntax(text, trans), None
        elif kind == 'runin':
            m, sin = text
            s = nl(self.source_syntax(m[0], m[1], None)[0]) + '-transformed-by run % cat\n-stdin ( ' + \
                nl(self.source_syntax(sin[0], sin[1], None)[0]) + ')\n'
        else:
            raise ValueError(kind)
        if trans is not None:
            s += '-transformed-by ' + trans_src(trans)
        return s, None

    def progsym_syntax(self, text, trans):
        """a program symbol that carries a transformation T1 (and its first stdin part); the reference adds the second
        stdin part and, optionally, a transformation T2: the source is transformed by the chain [T1, T2]"""
        (v, ft, sin, nd), t1 = text
        sins = stdin_parts(sin)
        opt, _, to_stderr, ignore = PROG_VARIANTS[v]
        cmd = 'cat' + ('' if ft is None else ' ' + str(self.put_file(ft))) + (' -' if sins and ft is not None else '')
        if to_stderr:
            cmd += ' >&2'
        if ignore:
            cmd += '; exit 3'

        def stdin_opt(q):
            return '-stdin ( ' + nl(self.source_syntax(q[0], q[1], None)[0]) + ')\n'
        self.n += 1
        name = 'PROG%d' % self.n
        self.symdefs[name] = '$ ' + cmd + '\n' + ''.join(stdin_opt(q) for q in sins[:1]) + '-transformed-by ' + nl(tree_src(t1))
        s = opt + '@ ' + name + '\n' + ''.join(stdin_opt(q) for q in sins[1:])
        if trans is not None:
            s += '-transformed-by ' + trans_src(trans)
        return s

    def symbols(self):
        """symbol table with the program symbols the rendered syntax refers to"""
        from exactly_lib.section_document.parse_source import ParseSource
        from exactly_lib.impls.types.program.parse import parse_program
        from exactly_lib.util.symbol_table import SymbolTable
        from exactly_lib.symbol.sdv_structure import SymbolContainer
        from exactly_lib.symbol.value_type import ValueType
        parser = parse_program.program_parser(must_be_on_current_line=False)
        from exactly_lib.impls.types.string_transformer import parse_string_transformer
        table = {name: SymbolContainer(parser.parse(ParseSource(src)), ValueType.PROGRAM, None)
                 for name, src in self.symdefs.items()}
        table['IDT'] = SymbolContainer(parse_string_transformer.parsers().full.parse(ParseSource('identity')),
                                       ValueType.STRING_TRANSFORMER, None)
        return SymbolTable(table)

    def build_source(self, syntax, env):
        from exactly_lib.section_document.parse_source import ParseSource
        sdv = self.ss_parser.parse(ParseSource(syntax))
        return impl.primitive_of(sdv, env, self.tcds, self.symbols())


def do_access(x, a):
    try:
        return _do_access(x, a)
    except Exception as ex:  # a view that raises (whatever it raises) is an observation, not a harness error
        return ('exc', type(ex).__name__)


def _do_access(x, a):
    if a == 'str':
        return ('str', x.contents().as_str)
    if a == 'lines':
        with x.contents().as_lines as ls:
            return ('lines', list(ls))
    if a == 'file':
        p = x.contents().as_file
        data = pathlib.Path(p).read_bytes()
        try:
            return ('file', data.decode('utf-8'))
        except UnicodeDecodeError:
            return ('filebytes', list(data))
    if a == 'dep':
        return ('dep', bool(x.contents().may_depend_on_external_resources))
    if a == 'write':
        p = pathlib.Path(x.contents().tmp_file_space.new_path('written'))
        with p.open('w+') as f:
            x.contents().write_to(f)
        data = p.read_bytes()
        try:
            return ('written', data.decode('utf-8'))
        except UnicodeDecodeError:
            return ('writtenbytes', list(data))
    x.freeze()
    return ('freeze', None)


def observe_access(world, kind, text, trans, buff, accs, here_doc=False):
    d, env = world.new_env(buff)
    try:
        if kind == 'concat':
            from exactly_lib.type_val_prims.string_source.impls import concat
            syntaxes = [world.source_syntax(k, t, tr)[0] for k, t, tr in text]
            x = concat.string_source([world.build_source(sx, env) for sx in syntaxes], buff)
            syntax = 'concat.string_source([%s], %d)' % (', '.join(repr(sx) for sx in syntaxes), buff)
        else:
            syntax, _ = world.source_syntax(kind, text, trans, here_doc)
            x = world.build_source(syntax, env)
        return syntax, [do_access(x, a) for a in accs]
    finally:
        shutil.rmtree(d, ignore_errors=True)
        world.clear_files()


def is_nd(kind, text):
    """the source contains a program that prints something different at every run"""
    if kind == 'progx':
        return bool(text[3])
    if kind == 'concat':
        return any(is_nd(k, t) for k, t, _ in text)
    return False


def coq_src(kind, text, trans):
    """(base term, optional transformer term) of a source"""
    if kind == 'progsym':  # the program's own transformation T1 followed by the reference's T2: one chain [T1, T2]
        t1 = tree_coq(text[1])
        chain = t1 if trans is None else '(CSeq [%s; %s])' % (t1, tree_coq(as_tree(trans)))
        return base_coq('progx', text[0]), '(Some (TChain %s))' % chain
    return base_coq(kind, text), trans_coq(trans)


def access_case_term(kind, text, trans, buff, accs, observed):
    return '(%s %s %s %s %s %s)' % (('CaseAccessND' if is_nd(kind, text) else 'CaseAccess',) + coq_src(kind, text, trans) + (cN(buff),
                                    clist([ACC_COQ[a] for a in accs]),
                                    clist([obs_coq(o) for o in observed])))


# ---------------------------------------------------------------------------------------------
# matchers: ('numlines', op_idx, n) ('empty',) ('equals', kind, text, trans) ('neg', m) ('conj', m1, m2)
#           ('disj', m1, m2) ('ontrans', trans, m)
# ---------------------------------------------------------------------------------------------
CMPS = [('==', 'CEq'), ('!=', 'CNe'), ('<', 'CLt'), ('<=', 'CLe'), ('>', 'CGt'), ('>=', 'CGe')]


def vary_text(rng, text, exotic):
    """the same text (50 %), a text of the SAME LENGTH differing in one character (25 %), longer, shorter, another"""
    r = rng.below(20)
    if r < 10:
        return text
    if r < 15 and text:
        k = rng.below(len(text))
        if ord(text[k]) < 128 and text[k] not in '\r\n':
            return text[:k] + ('b' if text[k] != 'b' else 'a') + text[k + 1:]
        return text
    if r < 17:
        return text + rng.choice(['a', '\n', 'b\n'])
    if r < 18 and text:
        return text[:-1]
    return gen_text(rng, exotic)


def gen_matcher(rng, depth, text, exotic):
    r = rng.below(12)
    if depth <= 0 or r < 5:
        q = rng.below(10)
        if q < 4:
            n = len(text.split('\n')) - 1 + rng.randint(-1, 1)
            return ('numlines', rng.below(6), max(0, n))
        if q < 5:
            return ('empty',)
        return ('equals', rng.choice(BASE_KINDS), vary_text(rng, text, exotic),
                gen_trans(rng) if rng.chance(0.25) else None)
    if r < 7:
        return ('neg', gen_matcher(rng, depth - 1, text, exotic))
    if r < 9:
        return ('conj', gen_matcher(rng, depth - 1, text, exotic), gen_matcher(rng, depth - 1, text, exotic))
    if r < 10:
        return ('disj', gen_matcher(rng, depth - 1, text, exotic), gen_matcher(rng, depth - 1, text, exotic))
    t = gen_trans(rng) or ('atom', ('id',))
    return ('ontrans', t, gen_matcher(rng, depth - 1, text, exotic))


def matcher_texts(m):
    if m[0] == 'equals':
        return [m[2]]
    if m[0] in ('neg',):
        return matcher_texts(m[1])
    if m[0] in ('conj', 'disj'):
        return matcher_texts(m[1]) + matcher_texts(m[2])
    if m[0] == 'ontrans':
        return matcher_texts(m[2])
    return []


def nl(s):
    """make sure the next token starts on a new line (needed after `% shell command` and here-documents)"""
    return s if s.endswith('\n') else s + '\n'


def matcher_src(world, m):
    k = m[0]
    if k == 'numlines':
        return 'num-lines %s %d' % (CMPS[m[1]][0], m[2])
    if k == 'empty':
        return 'is-empty'
    if k == 'equals':
        return nl('equals ' + world.source_syntax(m[1], m[2], m[3])[0])
    if k == 'neg':
        inner = matcher_src(world, m[1])
        return '! ' + (inner if m[1][0] in ('numlines', 'empty', 'equals', 'conj', 'disj') else nl('( ' + inner) + ')')
    if k in ('conj', 'disj'):
        return nl('( ' + matcher_src(world, m[1])) + ('&& ' if k == 'conj' else '|| ') + nl(matcher_src(world, m[2])) + ')'
    inner = matcher_src(world, m[2])
    if m[2][0] in ('neg', 'ontrans'):
        inner = nl('( ' + inner) + ')'
    return '-transformed-by ' + trans_src(m[1]) + ' ' + inner


def matcher_coq(m):
    k = m[0]
    if k == 'numlines':
        return '(MNumLines %s %s)' % (CMPS[m[1]][1], cN(m[2]))
    if k == 'empty':
        return 'MEmpty'
    if k == 'equals':
        return '(MEquals (build %s %s))' % (base_coq(m[1], m[2]), trans_coq(m[3]))
    if k == 'neg':
        return '(MNeg %s)' % matcher_coq(m[1])
    if k == 'conj':
        return '(MConj %s %s)' % (matcher_coq(m[1]), matcher_coq(m[2]))
    if k == 'disj':
        return '(MDisj %s %s)' % (matcher_coq(m[1]), matcher_coq(m[2]))
    return '(MOnTrans %s %s)' % (trans_coq(m[1])[6:-1], matcher_coq(m[2]))


def variants_src(world, m):
    a = matcher_src(world, m)
    simple = a if m[0] in ('numlines', 'empty', 'equals', 'conj', 'disj') else nl('( ' + a) + ')'
    return [a,
            nl('( ' + a) + '&& ' + nl(a) + ')',
            nl('( ' + a) + '|| ' + nl(a) + ')',
            '-transformed-by identity ' + simple]


def cobool(v):
    return 'None' if v is None else '(Some %s)' % cbool(v)


def apply_matcher(world, env, matcher_syntax, source_syntax):
    from exactly_lib.section_document.parse_source import ParseSource
    m = impl.primitive_of(world.sm.parsers().full.parse(ParseSource(matcher_syntax)), env, world.tcds, world.symbols())
    x = world.build_source(source_syntax, env)
    try:
        return bool(m.matches_w_trace(x).value)
    except Exception:  # a matcher that raises is an observation (no verdict), not a harness error
        return None


def observe_verdicts(world, kind, text, trans, buff, m):
    d, env = world.new_env(buff)
    try:
        syntax, _ = world.source_syntax(kind, text, trans)
        vs = variants_src(world, m)
        return syntax, vs, [apply_matcher(world, env, v, syntax) for v in vs]
    finally:
        shutil.rmtree(d, ignore_errors=True)
        world.clear_files()


def kind_source(k, t, variant, sin):
    """(kind, text) of the source of kind k in {'str','file','prog'} holding the text t"""
    if k != 'prog':
        return k, t
    return 'progx', ((variant, None, ('str', t), False) if sin else (variant, t, None, False))


def observe_kinds(world, te, ta, trans, buff, variant='out', sin=False):
    d, env = world.new_env(buff)
    try:
        out = []
        for ke in BASE_KINDS:
            for ka in BASE_KINDS:
                ms = nl('equals ' + world.source_syntax(*kind_source(ke, te, variant, sin), None)[0])
                out.append(apply_matcher(world, env, ms, world.source_syntax(*kind_source(ka, ta, variant, sin), trans)[0]))
        return out
    finally:
        shutil.rmtree(d, ignore_errors=True)
        world.clear_files()


def verdict_case_term(kind, text, trans, buff, extra, m, observed):
    return '(CaseVerdict %s %s %s %s %s %s)' % (coq_src(kind, text, trans) + (cN(buff), cN(extra),
                                               matcher_coq(m), clist([cobool(v) for v in observed])))


def kinds_case_term(te, ta, trans, buff, extra, observed, variant='out', sin=False):
    return '(CaseKinds %s %s %s %s %s %s %s %s)' % (PROG_VARIANTS[variant][1], cbool(sin), ctext(te), ctext(ta), trans_coq(trans),
                                                   cN(buff), cN(extra), clist([cobool(v) for v in observed]))


def leaf_texts(kind, text):
    if kind == 'concat':
        return [t for k, x, _ in text for t in leaf_texts(k, x)]
    if kind == 'progx':
        return ([text[1]] if text[1] is not None else []) + [t for q in stdin_parts(text[2]) for t in leaf_texts(*q)]
    if kind == 'runin':
        return leaf_texts(*text[0]) + leaf_texts(*text[1])
    if kind == 'progsym':
        return leaf_texts('progx', text[0])
    return [text]


def whole_text(kind, text):
    return ''.join(leaf_texts(kind, text))


def finding_of(texts, buff=None):
    """the known finding whose INPUT predicate the case satisfies, or None"""
    if any(c in t for t in texts for c in EXOTIC_NO_CR):
        return KF1
    if any('\r' in t for t in texts):
        return KF2
    return None


# corpus: the access-level form of DESIGN.md Appendix A7 / A8 (run first)
CORPUS_ACCESS = [
    ('file', 'a\x0cb\n', ('atom', ('filter', ('has', 'a'))), 8192, ['lines', 'freeze', 'lines']),
    ('file', 'a\r\nb\r\n', None, 8192, ['str', 'file']),
    ('file', 'a\r\nb\r\n', ('atom', ('id',)), 8192, ['str', 'file']),
    ('str', 'a\nb', ('atom', ('filter', ('true',))), 1, ['freeze', 'dep', 'str', 'lines', 'file']),
    ('prog', 'ab\n', None, 3, ['freeze', 'dep', 'str', 'lines', 'file']),
    ('prog', 'ab\n', None, 2, ['file', 'freeze', 'dep', 'str', 'lines', 'file']),
    # repaired defect FIX-C14-1 (spool rollover with non-ASCII characters in the memory buffer, writelines path)
    ('file', '\u20aca\nb\n', ('atom', ('filter', ('true',))), 1, ['freeze', 'str', 'lines', 'file']),
    ('prog', '\U0001d11eca\nbaa\n', None, 1, ['file', 'freeze', 'str', 'lines', 'file']),
    ('str', 'a\u20ac\n\u20ac\u20ac\nb', ('seq', [('upper',), ('filter', ('ge', 1))]), 3, ['freeze', 'file', 'lines', 'str']),
    # concat: last line of the first part without newline is glued to the first line of the second part
    ('concat', (('str', 'x\ny', None), ('file', 'a\nb\nc', None)), None, 3, ['lines', 'str', 'dep', 'file', 'freeze', 'lines', 'file']),
    ('concat', (('file', 'x\n', ('atom', ('filter', ('true',)))), ('prog', '', None)), None, 1, ['freeze', 'str', 'lines', 'file']),
    # repaired defect FIX-C14-2: a program part after a literal part, consumed as a file before freezing
    ('concat', (('str', 'X', None), ('prog', 'a\nb\n', None)), None, 8192, ['str', 'file']),
    ('file', 'a\nb\nc', ('seq', [('run', 'tr'), ('filter', ('ge', 2)), ('run', 'tail')]), 2, ['file', 'freeze', 'str', 'lines', 'file']),
    # replace that removes / inserts new-lines: the output consumed through every view
    ('str', 'abc\nxyz\n', ('atom', ('replace', 'nl', False)), 8192, ['lines', 'str', 'file', 'freeze', 'lines']),
    ('file', 'ab\nxb\nca\n\nb', ('seq', [('replace', 'bnl', False), ('filter', ('ge', 2))]), 3, ['lines', 'file', 'freeze', 'lines', 'str']),
    ('prog', 'aa\nb', ('atom', ('replace', 'a_nl', True)), 2, ['lines', 'str', 'freeze', 'lines', 'file']),
]


# the verdict-level form of DESIGN.md Appendix A7 / A8 and of the spool defect
CORPUS_VERDICT = [
    ('file', 'a\x0cb\n', ('atom', ('filter', ('has', 'a'))), 8192, ('numlines', 0, 1)),
    ('file', 'a\r\nb\r\n', None, 8192, ('equals', 'file', 'a\r\nb\r\n', None)),
    ('file', '€a\nb\n', ('atom', ('filter', ('true',))), 2, ('numlines', 0, 2)),
    ('prog', 'a\nb\n', ('atom', ('upper',)), 8192, ('equals', 'str', 'A\nB\n', None)),
]
CORPUS_KINDS = [
    ('a\nb\n', 'a\nb\n', None, 8192),
    ('a\nb\n', 'a\nc\n', None, 8192),  # different texts of the same length (files: same size, same mtime)
    ('a\nb', 'a\nb', ('atom', ('id',)), 1),
    ('a\r\nb\r\n', 'a\r\nb\r\n', None, 8192),
]


def extra_to_read():
    from exactly_lib.impls.description_tree import custom_details
    return int(custom_details.STRING__EXTRA_TO_READ_FOR_ERROR_MESSAGES)


def gen_long_text(rng, extra):
    """a clean text whose length is near the header length `len + 1 + extra` read by `equals`"""
    lines = []
    while sum(len(l) for l in lines) < extra + rng.randint(-3, 40):
        lines.append(''.join(rng.choice('abc ') for _ in range(rng.randint(0, 30))) + '\n')
    t = ''.join(lines)
    return t if rng.chance(0.6) else t[:-1]


def gen_long_pair(rng, extra):
    """(shorter, longer): a text of more than `extra` characters ending in a new-line, and a strict LINE EXTENSION of it
    (the same text followed by further lines) - or, one time in four, a same-length text differing in one character"""
    lines = []
    while sum(len(l) for l in lines) < extra + rng.randint(2, 60):
        lines.append(''.join(rng.choice('abc ') for _ in range(rng.randint(0, 30))) + '\n')
    base = ''.join(lines)
    if rng.chance(0.25):
        k = rng.below(len(base))
        if base[k] != '\n':
            return base, base[:k] + ('b' if base[k] != 'b' else 'a') + base[k + 1:]
    more = ''.join(''.join(rng.choice('abc ') for _ in range(rng.randint(0, 12))) + '\n' for _ in range(rng.randint(1, 3)))
    return base, base + (more if rng.chance(0.7) else more[:-1] or 'c')


def decorrelated(ctx):
    """common.Rng streams of consecutive seeds are shifts of one another (state = seed * gamma + c, step = gamma);
    draw one value from ctx.rng and start a stream at an unrelated 64-bit state, so that VERIF_SEED=1 and 2 give
    unrelated inputs.  Everything is still derived from the one run seed."""
    return common.Rng((ctx.rng.next() * 0x2545F4914F6CDD1D + ctx.seed * 0x632BE59BD9B4E019 + 0x9FB21C651E98DF25) & common.Rng.M)


def run(ctx, res):
    rng = decorrelated(ctx)
    n_acc, n_ver, n_kinds = (2500, 700, 120) if ctx.quick else (30000, 8000, 1500)
    n_big_permille = 7 if ctx.quick else 3  # access cases with a text of 9-40 KiB (quick: ~12, thorough: ~60)
    world = World(ctx.work)
    extra = extra_to_read()
    res.rule = ('(1) access cases: string sources built by the real parser: {literal / here-document, -contents-of FILE, '
                '-stdout-from PROGRAM, concat of two such (15 %)} x {no transformer, identity, char-case, filter (line-num <=,>=,!=; '
                'contents matches; constant), run (cat, tr, tail), sequences of 2-4 of them} x mem_buff_size in {1, 2, len-1, len, len+1, bytes-1, bytes, bytes+1, '
                '8192} x access sequences of 1-6 steps over as_str, as_lines, as_file, may_depend_on_external_resources, '
                'freeze; texts of 0-5 lines incl. empty lines, no final newline, multi-byte characters, and (40 %) CR, CR LF '
                'and the str.splitlines boundaries VT FF FS GS RS NEL LS PS.  (2) verdict cases: a random matcher M (depth <= 2 '
                'over num-lines, is-empty, equals SOURCE, !, &&, ||, -transformed-by) applied as M, ( M && M ), ( M || M ) and '
                '-transformed-by identity M to fresh copies of such a source.  (3) kind cases: equals with expected and actual '
                'text each from a literal, a file, a program (9 pairs), equal / same-length-one-character-different (25 %) / longer / '
                'shorter / long texts; all input files get one fixed mtime.  non-trivial := '
                '(1) freeze followed by a view, or a transformer, or no final newline / exotic boundary / non-ASCII; (2),(3) '
                'all; distinct := distinct (source syntax, text, buffer, accesses | matcher | expected text)')
    cases = []  # dicts: term, json, texts, buff

    def add(term, js, texts, buff, key, nontrivial):
        cases.append({'term': term, 'json': js, 'texts': texts, 'buff': buff})
        if nontrivial:
            res.nontrivial.add(key)

    try:
        # regression corpus (minimised inputs of the known / repaired defects), run first
        cdir = os.path.join(os.path.dirname(os.path.abspath(__file__)), 'corpus', 'C14')
        for fn in sorted(os.listdir(cdir)) if os.path.isdir(cdir) else []:
            if fn.endswith('.json'):
                family, args = case_of_json(json.load(open(os.path.join(cdir, fn))))
                term, js, texts, buff = observe_case(world, family, args, extra)
                js['corpus_file'] = fn
                res.count('corpus cases')
                add(term, js, texts, buff, ('corpus', fn), True)
        for j in range(len(CORPUS_ACCESS) + n_acc):
            if j < len(CORPUS_ACCESS):
                kind, text, trans, buff, accs = CORPUS_ACCESS[j]
                here = False
            else:
                exotic = rng.chance(0.4)
                kind = rng.choice(BASE_KINDS)
                text = gen_text(rng, exotic)
                trans = gen_trans(rng)
                buff = gen_buff(rng, text)
                accs = gen_accesses(rng)
                here = rng.chance(0.5)
                r = rng.below(100)
                if r >= 97:  # texts of only new-lines / blank lines / spaces through the strip variants, lines before and after freeze
                    text, trans, exotic = rng.choice(BLANK_TEXTS), gen_strip_trans(rng), False
                    buff = rng.choice([1, 2, 8192])
                    accs = [rng.choice(['lines', 'str', 'file', 'write']) for _ in range(rng.randint(0, 2))] + ['lines', 'freeze'] + \
                           [rng.choice(['lines', 'str', 'file']) for _ in range(rng.randint(0, 1))] + ['lines']
                elif r < 15:  # concat of 2-4 parts of any kinds, built through concat.string_source
                    parts = tuple(gen_part(rng, exotic) for _ in range(rng.randint(2, 4)))
                    kind, text, trans = 'concat', parts, None
                    buff = gen_buff(rng, whole_text(kind, text))
                    if is_nd(kind, text):
                        views = [rng.choice(['str', 'lines', 'file', 'write']) for _ in range(rng.randint(2, 4))]
                        accs = [a for a in accs if a != 'freeze'][:rng.randint(0, 1)] + ['freeze'] + views
                elif r < 27:  # program output: stdout / stderr, exit code ignored or not, with or without -stdin
                    kind, text = gen_progx(rng, exotic)
                    buff = gen_buff(rng, whole_text(kind, text))
                    if is_nd(kind, text):  # freeze, then at least two views in any order (write_to first in a third of them)
                        pre = [a for a in accs if a != 'freeze'][:rng.randint(0, 2)]
                        views = [rng.choice(['str', 'lines', 'file', 'write']) for _ in range(rng.randint(2, 4))]
                        if rng.chance(0.5):
                            views[0] = 'write'
                        accs = pre + ['freeze'] + views
                        if rng.chance(0.6):
                            trans = None  # the frozen program source itself is what is consumed
                elif r < 33:  # a program symbol with a transformation of its own, referenced with a further transformation
                    _, px = gen_progx(rng, exotic, allow_nd=False)
                    kind, text = 'progsym', (px, gen_tree(rng, 1, top=rng.chance(0.7)))
                    trans = gen_trans(rng) if rng.chance(0.7) else None
                    buff = gen_buff(rng, whole_text(kind, text))
                elif r < 37:  # MODEL -transformed-by run % cat -stdin S : concat [S, MODEL] as the program's stdin
                    kind = 'runin'
                    text = ((rng.choice(BASE_KINDS), gen_text(rng, exotic, 3, 3)), (rng.choice(['str', 'file']), gen_text(rng, exotic, 2, 3)))
                    trans = None
                    buff = gen_buff(rng, whole_text(kind, text))
                elif rng.below(1000) < n_big_permille:  # a text larger than the 8 KiB buffers of the io layer
                    kind = rng.choice(BASE_KINDS)
                    text = gen_big_text(rng)
                    trans = rng.choice([None, ('atom', ('id',)), ('atom', ('filter', ('true',))), ('atom', ('replace', 'abb', False)),
                                        ('atom', ('run', 'cat')), ('seq', [('filter', ('ge', 2)), ('upper',)])])
                    buff = rng.choice([8192, 8192, 1, 100, len(text) - 1, len(text), 3000])
                    accs = [a for a in accs if a != 'dep'][:4] or ['str']
                    if 'freeze' not in accs:
                        accs.insert(rng.below(2), 'freeze')
                    here = False
            syntax, observed = observe_access(world, kind, text, trans, buff, accs, here)
            c = (kind, text, trans, buff, accs, observed, syntax)
            texts = leaf_texts(kind, text)
            whole = ''.join(texts)
            res.count('access cases: base ' + kind)
            if is_nd(kind, text):
                res.count('access cases: program output differs per run (one text after freeze demanded)')
            res.count('access cases: text ' + ('with CR/exotic boundary' if finding_of(texts) else 'clean'))
            res.count('access cases: buffer ' + ('< text' if buff < len(whole) else '>= text'))
            if len(whole) > 8192:
                res.count('access cases: text larger than 8 KiB')
            res.count('access cases: ' + ('non-ASCII text' if any(ord(ch) >= 128 for ch in whole) else 'ASCII text'))
            add(access_case_term(*c[:6]), case_json(c), texts, buff, ('a', syntax, repr(text), buff, tuple(accs)),
                ('freeze' in accs and accs.index('freeze') < len(accs) - 1) or trans is not None or kind in ('concat', 'progx', 'progsym', 'runin') or
                (whole and not whole.endswith('\n')) or finding_of(texts, buff))
        for j in range(len(CORPUS_VERDICT) + n_ver):
            if j < len(CORPUS_VERDICT):
                kind, text, trans, buff, m = CORPUS_VERDICT[j]
            else:
                exotic = rng.chance(0.3)
                kind = rng.choice(BASE_KINDS)
                text = gen_text(rng, exotic)
                trans = gen_trans(rng) if rng.chance(0.6) else None
                buff = gen_buff(rng, text)
                m = gen_matcher(rng, rng.randint(0, 2), text, exotic)
                if rng.chance(0.08):  # a long model text compared with a prefix / line extension of it from any kind of source
                    a_, b_ = gen_long_pair(rng, extra)
                    text, other = (a_, b_) if rng.chance(0.5) else (b_, a_)
                    kind, exotic = rng.choice(BASE_KINDS), False
                    trans = rng.choice([None, ('atom', ('id',)), ('atom', ('filter', ('true',)))])
                    buff = rng.choice([16, 100, 8192])
                    m = ('equals', rng.choice(BASE_KINDS), other, None)
                    if rng.chance(0.3):
                        m = ('neg', m)
                    res.count('verdict cases: long prefix / line-extension pair')
                elif rng.chance(0.08):
                    _, px = gen_progx(rng, exotic, allow_nd=False)
                    kind, text = 'progsym', (px, gen_tree(rng, 1, top=rng.chance(0.7)))
                    buff = gen_buff(rng, whole_text(kind, text))
                    m = gen_matcher(rng, rng.randint(0, 2), whole_text(kind, text), exotic)
                elif rng.chance(0.05):  # line count / emptiness of blank texts through the strip variants, by every route
                    kind, text, trans, exotic = rng.choice(BASE_KINDS), rng.choice(BLANK_TEXTS), gen_strip_trans(rng), False
                    buff = rng.choice([1, 2, 8192])
                    m = rng.choice([('numlines', 0, rng.randint(0, 2)), ('empty',), ('conj', ('neg', ('empty',)), ('numlines', 4, 0)),
                                    ('equals', rng.choice(BASE_KINDS), rng.choice(['', '\n', 'a']), None)])
                elif rng.chance(0.12):
                    kind, text = gen_progx(rng, exotic, allow_nd=False)
                    buff = gen_buff(rng, whole_text(kind, text))
                    m = gen_matcher(rng, rng.randint(0, 2), whole_text(kind, text), exotic)
            syntax, vs, observed = observe_verdicts(world, kind, text, trans, buff, m)
            res.count('verdict cases: base ' + kind)
            res.count('verdict cases: text ' + ('with CR/exotic boundary' if finding_of(leaf_texts(kind, text) + matcher_texts(m)) else 'clean'))
            res.count('verdict cases: verdict of M ' + str(observed[0]))
            add(verdict_case_term(kind, text, trans, buff, extra, m, observed),
                {'kind': 'verdict', 'base': kind, 'text': text, 'transformer': trans, 'mem_buff_size': buff, 'matcher': m,
                 'source_syntax': syntax, 'matcher_variants': vs, 'observed_verdicts': observed},
                leaf_texts(kind, text) + matcher_texts(m), buff, ('v', syntax, repr(text), buff, repr(m)), True)
        for j in range(len(CORPUS_KINDS) + n_kinds):
            variant, sin = 'out', False
            if j < len(CORPUS_KINDS):
                te, ta, trans, buff = CORPUS_KINDS[j]
            else:
                variant, sin = rng.choice(sorted(PROG_VARIANTS)), rng.chance(0.3)
                exotic = rng.chance(0.25)
                te = gen_long_text(rng, extra) if rng.chance(0.15) else gen_text(rng, exotic)
                ta = vary_text(rng, te, exotic)
                trans = rng.choice([None, None, None, ('atom', ('id',)), ('atom', ('filter', ('true',))), ('seq', [('id',), ('filter', ('ge', 1))]),
                                    ('atom', ('replace', 'bnl', False))])
                buff = gen_buff(rng, ta)
                if rng.chance(0.25):  # long prefix / line-extension pairs, both directions (the head-reading strategies of equals)
                    te, ta = gen_long_pair(rng, extra)
                    if rng.chance(0.5):
                        te, ta = ta, te
                    trans = rng.choice([None, None, ('atom', ('id',)), ('atom', ('filter', ('true',)))])
                    buff = rng.choice([16, 100, 8192])
                    res.count('kind cases: long prefix / line-extension pair')
            observed = observe_kinds(world, te, ta, trans, buff, variant, sin)
            res.count('kind cases: program kind %s%s' % (variant, ' with -stdin' if sin else ''))
            res.count('kind cases: ' + ('same text' if te == ta else 'different texts'))
            res.count('kind cases: text ' + ('with CR/exotic boundary' if finding_of([te, ta]) else 'clean'))
            add(kinds_case_term(te, ta, trans, buff, extra, observed, variant, sin),
                {'kind': 'kinds', 'expected_text': te, 'actual_text': ta, 'transformer_of_actual': trans, 'mem_buff_size': buff,
                 'program_variant': variant, 'program_reads_stdin': sin,
                 'pairs': [[ke, ka] for ke in BASE_KINDS for ka in BASE_KINDS], 'observed_verdicts': observed},
                [te, ta], buff, ('k', te, ta, repr(trans), buff, variant, sin), True)
    finally:
        world.close()
    res.evaluations = len(cases)
    res.samples = [cases[k]['json'] for k in (0, 12, 20, len(CORPUS_ACCESS) + n_acc + 12, len(cases) - 2)
                   if k < len(cases) and len(cases[k]['term']) < 5000]
    res.extra['extra_to_read_for_error_messages'] = extra
    # texts larger than the io buffers are evaluated in shards of their own (few cases, long literals)
    order = [i for i, c in enumerate(cases) if len(c['term']) <= 60000] + [i for i, c in enumerate(cases) if len(c['term']) > 60000]
    n_small = sum(1 for c in cases if len(c['term']) <= 60000)
    cases = [cases[i] for i in order]
    cb, pb, errs = common.run_shards('C14', ['Lib.Text', 'Model.StrSrc', 'Spec.C14'], 'check_case',
                                     [c['term'] for c in cases[:n_small]], shard_size=250)
    cb2, pb2, errs2 = common.run_shards('C14', ['Lib.Text', 'Model.StrSrc', 'Spec.C14'], 'check_case',
                                        [c['term'] for c in cases[n_small:]], shard_size=2, tag='big') if n_small < len(cases) \
        else ([], [], [])
    cb, pb = cb + [n_small + i for i in cb2], pb + [n_small + i for i in pb2]
    res.errors += errs + errs2
    # Inputs satisfying the predicate of an open known finding are outside the guard of the theorems: the property is
    # already recorded as failing there, so a deviation of the model on such an input is reported in the evidence but is
    # not an alarm (a harmless change of an internal policy may move WHICH view shows the known deviation).
    n_dev = 0
    for i in cb:
        c = cases[i]
        if finding_of(c['texts'], c['buff']) is not None:
            n_dev += 1
            continue
        res.disagreements.append(Failure('correspondence', c['json'],
                                         'the model differs from what the real objects returned (views / verdicts)'))
    res.extra['model_deviations_on_known_finding_inputs'] = n_dev
    for i in pb:
        c = cases[i]
        res.prop_failures.append(Failure('property', c['json'],
                                         'a view of the source differs from the text the source expression denotes '
                                         '(characters or division into lines), or verdicts that must agree differ',
                                         finding=finding_of(c['texts'], c['buff'])))


def case_json(c):
    kind, text, trans, buff, accs, observed, syntax = c
    return {'kind': 'access', 'base': kind, 'text': text, 'transformer': trans, 'mem_buff_size': buff,
            'accesses': accs, 'source_syntax': syntax, 'observed': [list(o) for o in observed]}


def _tup(x):
    """JSON lists back to the tuples the generators use (transformers, matchers, concat parts)"""
    if isinstance(x, list):
        if len(x) == 2 and x[0] == 'seq':
            return ('seq', [_tup(a) for a in x[1]])
        return tuple(_tup(y) for y in x)
    return x


def case_of_json(js):
    """(family, args) from the JSON description stored in a replay file"""
    k = js['kind']
    if k == 'access':
        return k, (js['base'], _tup(js['text']), _tup(js.get('transformer')), js['mem_buff_size'], list(js['accesses']))
    if k == 'verdict':
        return k, (js['base'], _tup(js['text']), _tup(js.get('transformer')), js['mem_buff_size'], _tup(js['matcher']))
    return k, (js['expected_text'], js['actual_text'], _tup(js.get('transformer_of_actual')), js['mem_buff_size'],
               js.get('program_variant', 'out'), bool(js.get('program_reads_stdin', False)))


def observe_case(world, family, args, extra):
    """run the real implementation on one case: (coq term, json, texts, buff)"""
    if family == 'access':
        kind, text, trans, buff, accs = args
        syntax, observed = observe_access(world, kind, text, trans, buff, accs)
        c = (kind, text, trans, buff, accs, observed, syntax)
        return access_case_term(*c[:6]), case_json(c), leaf_texts(kind, text), buff
    if family == 'verdict':
        kind, text, trans, buff, m = args
        syntax, vs, observed = observe_verdicts(world, kind, text, trans, buff, m)
        return (verdict_case_term(kind, text, trans, buff, extra, m, observed),
                {'kind': 'verdict', 'base': kind, 'text': text, 'transformer': trans, 'mem_buff_size': buff, 'matcher': m,
                 'source_syntax': syntax, 'matcher_variants': vs, 'observed_verdicts': observed},
                leaf_texts(kind, text) + matcher_texts(m), buff)
    te, ta, trans, buff, variant, sin = args
    observed = observe_kinds(world, te, ta, trans, buff, variant, sin)
    return (kinds_case_term(te, ta, trans, buff, extra, observed, variant, sin),
            {'kind': 'kinds', 'expected_text': te, 'actual_text': ta, 'transformer_of_actual': trans, 'mem_buff_size': buff,
             'program_variant': variant, 'program_reads_stdin': sin,
             'pairs': [[ke, ka] for ke in BASE_KINDS for ka in BASE_KINDS], 'observed_verdicts': observed},
            [te, ta], buff)


def search(ctx, res):
    """failing-input search: the correspondence (or a proof) broke; look around the disagreeing inputs - same
    sources and texts, other buffer sizes / access orders / matchers - for an input on which the property predicate
    fails on the implementation and that no known finding covers."""
    rng = decorrelated(ctx)
    world = World(ctx.work)
    extra = extra_to_read()
    tried = []
    try:
        seeds = [case_of_json(d.case) for d in res.disagreements[:12]]
        for family, args in seeds:
            for _ in range(25):
                if family == 'access':
                    kind, text, trans, buff, accs = args
                    whole = ''.join(leaf_texts(kind, text))
                    v = (kind, text, trans, gen_buff(rng, whole), gen_accesses(rng))
                elif family == 'verdict':
                    kind, text, trans, buff, m = args
                    wt = whole_text(kind, text)
                    v = (kind, text, trans, gen_buff(rng, wt), m if rng.chance(0.5) else gen_matcher(rng, 1, wt, False))
                else:
                    te, ta, trans, buff, variant, sin = args
                    v = (te, ta if rng.chance(0.7) else te, trans, gen_buff(rng, ta), variant, sin)
                try:
                    tried.append(observe_case(world, family, v, extra))
                except Exception:
                    continue
    finally:
        world.close()
    if not tried:
        return []
    cb, pb, errs = common.run_shards('C14', ['Lib.Text', 'Model.StrSrc', 'Spec.C14'], 'check_case',
                                     [t[0] for t in tried], shard_size=250, tag='search')
    out = []
    for i in pb:
        term, js, texts, buff = tried[i]
        out.append(Failure('property', js, 'found by the failing-input search around a correspondence disagreement',
                           finding=finding_of(texts, buff)))
    return out


def replay(ctx, payload):
    case = payload.get('case') or (payload.get('correspondence_disagreements') or [{}])[0].get('case')
    if not case:
        print(json.dumps(payload, indent=1, default=str))
        return 0
    world = World(ctx.work)
    try:
        family, args = case_of_json(case)
        term, js, texts, buff = observe_case(world, family, args, extra_to_read())
        print(json.dumps(js, indent=1, ensure_ascii=True))
        vals, out = common.coq_eval_terms('C14', ['Lib.Text', 'Model.StrSrc', 'Spec.C14'], ['check_case ' + term],
                                          tag='replay')
        print('(correspondence model = implementation, property on the implementation) =', vals[0] if vals else out[-400:])
    finally:
        world.close()
    return 0
