"""C04 — sandbox lifecycle and isolation of the Exactly process.  Correspondence harness.

Part A (stub executions): the fault plans of the C01 harness (every step x position x failure kind, alone and with a
failing cleanup), each with and without keep, with stub instructions that change the current directory in any phase.
Observed around `full_execution.execute`: cwd restored, os.environ unchanged, number of sandbox roots created / left,
cwd at the first step after sandbox creation, the directory layout at act/execute.  Model: Model/World.v
`execute_in_world` (Spec/C04.v `check_c04`).

Part B (real test cases through MainProgram.execute, with and without --keep): cases that cd, change environment
variables, make sandbox files read-only, write into tmp/, produce various output, and end in every way (pass, failing
assertion, hard error in each phase, internal error, validation error, syntax error).  Observed: cwd / os.environ of the
calling process, what is left under the sandbox root, the reported path, layout, result/ files and their contents, tmp/,
and the current directory of the first [setup] instruction (Spec/C04.v `check_c04_real`).
"""
import json
import os
import shutil
import tempfile

import common
from common import Failure, cnat, cbool, clist, copt
import impl
import c01

EXPLANATION = ('Theorems (Props/C04.v) over Model/World.v + Model/Exec.v: cwd restored, environ untouched, one fresh sandbox, '
               'removed unless keep, for every test case, ending and effect placement; correspondence with stub executions '
               'and with real test cases through the main program.')
ASSUMPTIONS = ['PARTIAL: shutil.rmtree on trees made read-only, the layout created by construct_at and the contents of result/ are '
               'file-system behaviour outside the Gallina model; they are observed on real runs only',
               'the checks run as root: permission bits do not bind, so a removal that fails for lack of permission cannot be exhibited']
TRUSTED_EXTRA = ['the operating system / shutil / tempfile for directory creation and removal (observed, not modelled)']

EXPECTED_LAYOUT = ['act', 'internal', 'internal/log', 'internal/tmp', 'result', 'tmp']


# ---------------------------------------------------------------------------------------------
# Part A
# ---------------------------------------------------------------------------------------------
def stub_cases(ctx):
    rng = ctx.rng
    plans = c01.gen_plans(ctx)
    n = 1200 if ctx.quick else 12000
    if len(plans) > n:
        plans = rng.sample(plans, n)
    out = []
    for pl in plans:
        pl = dict(pl)
        chdir = set()
        for p in ('Setup', 'BeforeAssert', 'Assert', 'Cleanup'):
            for i in range(pl['counts'][p]):
                if rng.chance(0.25):
                    chdir.add((p, i, 'SMain'))
        if rng.chance(0.15):
            chdir.add(('Act', 0, 'SExecute'))
        pl['chdir'] = chdir
        pl['keep'] = rng.chance(0.5)
        out.append(pl)
    return out


def run_stub(ctx, res):
    root = tempfile.mkdtemp(prefix='c04a-', dir=ctx.work)
    home, sbx, elsewhere = (os.path.join(root, x) for x in ('home', 'sandboxes', 'elsewhere'))
    for d in (home, sbx, elsewhere):
        os.makedirs(d)
    terms, meta = [], []
    old = os.getcwd()
    os.chdir(home)
    try:
        for pl in stub_cases(ctx):
            pl['chdir_target'] = elsewhere
            world, result, exc = c01.execute_plan(pl, sbx, home, keep=pl['keep'])
            d = c01.plan_desc(pl)
            d['keep'] = pl['keep']
            d['chdir_in'] = sorted('%s[%d].%s' % k for k in pl['chdir'])
            if exc is not None or result is None:
                res.prop_failures.append(Failure('property', d, 'exception escaped full_execution.execute: %r' % exc))
                for x in world.created:
                    shutil.rmtree(x, ignore_errors=True)
                continue
            tr = world.trace
            first_post = None
            if ('SANDBOX',) in tr:
                s = tr.index(('SANDBOX',))
                if s + 1 < len(tr) and world.created:
                    first_post = os.path.realpath(world.cwd_at.get(s + 2, '')) == os.path.realpath(os.path.join(world.created[0], 'act'))
            layout_ok = None if world.sds_layout is None else (world.sds_layout == EXPECTED_LAYOUT)
            chdir_events = [e for e in tr if e != ('SANDBOX',) and (e[0], e[2], e[1]) in pl['chdir']]
            obs = {'cwd_restored': world.cwd_restored, 'environ_same': world.environ_same, 'created': len(world.created),
                   'exist_after': sum(world.exists_after), 'has_sds': bool(result.has_sds),
                   'cwd_is_act_at_first_step_after_sandbox': first_post, 'layout_at_act_execute_ok': layout_ok,
                   'status': result.status.name}
            terms.append('(C04Case %s %s %s %s %s %s %s %s %s %s)' % (
                c01.c_plan(pl), cbool(pl['keep']),
                clist([c01.c_event(e) for e in chdir_events]) if chdir_events else '(@nil event)',
                cbool(obs['cwd_restored']), cbool(obs['environ_same']), cnat(obs['created']), cnat(obs['exist_after']),
                cbool(obs['has_sds']), copt(first_post, cbool), copt(layout_ok, cbool)))
            meta.append({'kind': 'stub execution', 'plan': d, 'observed': obs})
            res.count('stub: keep=%s' % pl['keep'])
            res.count('stub: ending %s' % result.status.name)
            if pl['faults'] or pl['chdir']:
                res.nontrivial.add(('A', repr(sorted(d.items(), key=str))))
            for x in world.created:
                shutil.rmtree(x, ignore_errors=True)
    finally:
        os.chdir(old)
        shutil.rmtree(root, ignore_errors=True)
    return terms, meta


# ---------------------------------------------------------------------------------------------
# Part B
# ---------------------------------------------------------------------------------------------
OUTPUTS = [('OUT\n', 'ERR\n'), ('', ''), ('no final newline', ''), ('a\nb\n\n', 'e1\ne2'), ('r\u00e4ksm\u00f6rg\u00e5s \u20ac\n', '\u00e5\n')]


def real_cases(ctx, marker_dir):
    """-> list of dict(text, keep, expect_sds, expect_act, out, err, code, tmp_files, name)"""
    rng = ctx.rng
    cases = []
    endings = ['pass', 'fail', 'hard setup', 'hard before-assert', 'hard assert', 'hard cleanup', 'fail + hard cleanup',
               'internal error in cleanup', 'validation error', 'syntax error', 'act syntax error', 'act validation error',
               'act program cannot be started', 'act killed by timeout']
    n_rand = 6 if ctx.quick else 60
    for ending in endings:
        # ways of running: plain, --keep, --act (the sandbox is removed under --act as in a plain run)
        for keep, act_mode in ((False, False), (True, False), (False, True)):
            for _ in range((n_rand + 2) // 3 if act_mode or ending == 'act killed by timeout' else n_rand):
                out, err = rng.choice(OUTPUTS)
                code = rng.choice([0, 1, 2, 7, 255])
                setup = ['$ pwd > %s/pwd.txt' % marker_dir]
                before, asserts, cleanup = [], [], []
                tmp_files = []
                feats = []
                if rng.chance(0.5):
                    feats.append('cd')
                    setup += ['dir sub/deeper', 'cd sub/deeper']
                if rng.chance(0.4):
                    feats.append('env')
                    setup += ['env C04_VAR = value', 'env unset HOME']
                    before += ['env -of act C04_B = b']
                if rng.chance(0.4):
                    feats.append('read-only')
                    setup += ['dir -rel-act ro', 'file -rel-act ro/f.txt = x', '$ chmod -R a-w %s' % '"$(dirname "$(pwd)")"/act/ro'
                              if 'cd' not in feats else '$ chmod -R a-w ../../ro']
                if rng.chance(0.4):
                    feats.append('tmp-file')
                    # names Exactly itself might be tempted to use
                    tf = rng.choice(['mine.txt', 'act.src', 'stdout', 'exit-code', 'stdin', 'act'])
                    setup += ['file -rel-tmp %s = mine' % tf]
                    tmp_files.append(tf)
                if rng.chance(0.25):
                    # [setup] leaves files of its own in result/ (through the shell): after the act phase result/ still holds
                    # exactly the action's output
                    feats.append('stale files in result/')
                    setup += ['$ echo stale-c04 > @[EXACTLY_RESULT]@/stdout; echo stale-c04 > @[EXACTLY_RESULT]@/stderr; '
                              'echo 99 > @[EXACTLY_RESULT]@/exit-code']
                if rng.chance(0.3):
                    feats.append('cd in before-assert')
                    before += ['cd -rel-tmp .']
                if rng.chance(0.3):
                    feats.append('cd in cleanup')
                    cleanup += ['cd -rel-result .']
                if rng.chance(0.3):
                    feats.append('child cd')
                    before += ['$ cd / && pwd']
                if rng.chance(0.3):
                    # things that make a naive removal / restoration stumble: dangling and cyclic symbolic links, a link to a
                    # directory outside the sandbox (must not be followed when removing), odd file names
                    feats.append('odd sandbox contents')
                    setup += ['$ ln -s /no-such-target-c04 "$(dirname "$(pwd)")"/act/dangling' if 'cd' not in feats else '$ ln -s /no-such-target-c04 ../../dangling',
                              '$ ln -s loop-c04 "$(dirname "$(pwd)")"/tmp/loop-c04' if 'cd' not in feats else '$ ln -s loop-c04 ../../../tmp/loop-c04',
                              '$ ln -s %s "$(dirname "$(pwd)")"/act/outside-link' % marker_dir if 'cd' not in feats else '$ ln -s %s ../../outside-link' % marker_dir]
                    tmp_files.append('loop-c04')
                if rng.chance(0.25):
                    # the current directory is deleted before execution ends
                    feats.append('cwd deleted')
                    (cleanup if rng.chance(0.5) else before).extend(['dir -rel-tmp gone-c04', 'cd -rel-tmp gone-c04', '$ rmdir "$(pwd)"'])
                act = "$ printf '%%s' '%s'; printf '%%s' '%s' >&2; exit %d" % (out.replace('\n', "'\"\\n\"'") if False else out, err, code)
                # printf with literal newlines inside single quotes is fine for the shell; the act phase source is one line per
                # instruction line, so encode newlines through printf escapes instead
                act = '$ printf %s; printf %s >&2; exit %d' % (sh_printf(out), sh_printf(err), code)
                exp_out = out
                if rng.chance(0.3):
                    # the action is a program with a transformation of its output (another execution path of the actor):
                    # result/stdout holds the TRANSFORMED output, result/stderr and exit-code are the program's own
                    feats.append('act program with -transformed-by')
                    act = '%% sh -c "printf %s; printf %s >&2; exit %d"\n    -transformed-by char-case -to-upper' % (
                        sh_printf(out), sh_printf(err), code)
                    exp_out = out.upper()
                conf = []
                home_files = {}
                if ending not in ('act syntax error', 'act validation error') and rng.chance(0.35):
                    # the other actors (other execution paths for preparing and running the action to check)
                    script = 'printf %s; printf %s >&2\nexit %d' % (sh_printf(out), sh_printf(err), code)
                    exp_out = out
                    feats[:] = [f for f in feats if f != 'act program with -transformed-by']
                    if rng.chance(0.5):
                        feats.append('actor: source interpreter')
                        conf = ['actor = source % sh']
                        act = script
                    else:
                        feats.append('actor: file interpreter')
                        conf = ['actor = file % sh']
                        home_files['the-script.sh'] = script + '\n'
                        act = 'the-script.sh'
                expect_sds, expect_act = True, True
                if ending == 'pass':
                    asserts += ['exit-code == %d' % code]
                elif ending == 'fail':
                    asserts += ['exit-code == %d' % ((code + 1) % 256)]
                elif ending == 'hard setup':
                    setup += ['$ exit 1']
                    expect_act = False
                elif ending == 'hard before-assert':
                    before += ['$ exit 1']
                elif ending == 'hard assert':
                    asserts += ['contents no-such-file.txt : is-empty']
                elif ending == 'hard cleanup':
                    cleanup += ['$ exit 1']
                elif ending == 'fail + hard cleanup':
                    asserts += ['exit-code == %d' % ((code + 1) % 256)]
                    cleanup += ['$ exit 1']
                elif ending == 'internal error in cleanup':
                    # known defect of the real program (C08/C18 finding): a symbol defined after a failing assertion, used in cleanup
                    asserts += ['exit-code == %d' % ((code + 1) % 256), 'def string C04_X = a']
                    cleanup += ['$ echo @[C04_X]@']
                elif ending == 'validation error':
                    cleanup += ['file f.txt = @[C04_UNDEFINED]@']
                    expect_sds = expect_act = False
                elif ending == 'syntax error':
                    cleanup += ['no-such-instruction']
                    expect_sds = expect_act = False
                elif ending == 'act syntax error':
                    act = '"unterminated'
                    expect_sds = expect_act = False
                elif ending == 'act validation error':
                    act = 'no-such-program-c04-xyz arg'  # rejected by pre-sds validation of the act phase
                    expect_sds = expect_act = False
                elif ending == 'act program cannot be started':
                    # an executable file whose interpreter does not exist: passes validation, fails when started
                    conf, home_files = [], {}
                    feats[:] = [f for f in feats if not f.startswith('actor') and f != 'act program with -transformed-by']
                    setup += ['file -rel-act cannot-start-c04 = "#!/no/such/interpreter-c04"', '$ chmod +x @[EXACTLY_ACT]@/cannot-start-c04']
                    act = '-rel-act cannot-start-c04'
                    expect_act = False
                elif ending == 'act killed by timeout':
                    conf, home_files = [], {}
                    feats[:] = [f for f in feats if not f.startswith('actor') and f != 'act program with -transformed-by']
                    setup += ['timeout = 1']
                    act = '$ printf started; sleep 20'
                    expect_act = False
                text = ('[conf]\n%s\n' % '\n'.join(conf) if conf else '') + '[setup]\n%s\n[act]\n%s\n[before-assert]\n%s\n[assert]\n%s\n[cleanup]\n%s\n' % (
                    '\n'.join(setup), act, '\n'.join(before), '\n'.join(asserts), '\n'.join(cleanup))
                cases.append({'name': ending, 'features': feats, 'keep': keep, 'text': text, 'expect_sds': expect_sds,
                              'expect_act': expect_act, 'out': exp_out, 'err': err, 'code': code, 'tmp_files': tmp_files,
                              'home_files': home_files, 'act_mode': act_mode})
    return cases


def sh_printf(s):
    """a shell word for printf's format producing exactly s (only \\n and non-ASCII need care)"""
    return "'" + s.replace('\\', '\\\\').replace('%', '%%').replace('\n', '\\n') + "'" if s else "''"


def run_real(ctx, res):
    root = tempfile.mkdtemp(prefix='c04b-', dir=ctx.work)
    sbx = os.path.join(root, 'sandboxes')
    markers = os.path.join(root, 'markers')
    os.makedirs(sbx)
    os.makedirs(markers)
    mp = impl.main_program(sbx)
    terms, meta = [], []
    n = 0
    for c in real_cases(ctx, markers):
        d = os.path.join(root, 'case%d' % n)
        n += 1
        os.makedirs(d)
        with open(os.path.join(d, 'test.case'), 'w') as f:
            f.write(c['text'])
        for fn, content in c['home_files'].items():
            open(os.path.join(d, fn), 'w').write(content)
        for fn in os.listdir(markers):
            os.remove(os.path.join(markers, fn))
        cwd0, env0 = os.getcwd(), dict(os.environ)
        pr = impl.run_main(mp, (['--keep'] if c['keep'] else ['--act'] if c['act_mode'] else []) + ['test.case'], d, d)
        cwd_restored = os.getcwd() == cwd0
        environ_same = dict(os.environ) == env0
        if not cwd_restored:
            os.chdir(cwd0)
        if not environ_same:
            os.environ.clear()
            os.environ.update(env0)
        desc = {'kind': 'real case', 'ending': c['name'], 'features': c['features'], 'keep': c['keep'], 'act_mode': c['act_mode'],
                'case': c['text']}
        if pr.exception is not None:
            res.prop_failures.append(Failure('property', desc, 'exception escaped MainProgram.execute: %r' % pr.exception))
            continue
        left = sorted(os.listdir(sbx))
        reported = layout_ok = result_ok = tmp_ok = None
        starts_in_act = None
        pwd_file = os.path.join(markers, 'pwd.txt')
        sds_root = None
        if left:
            sds_root = os.path.join(sbx, left[0])
        if os.path.exists(pwd_file):
            pwd = open(pwd_file).read().rstrip('\n')
            if sds_root is not None:
                starts_in_act = os.path.realpath(pwd) == os.path.realpath(os.path.join(sds_root, 'act'))
            else:
                starts_in_act = (os.path.dirname(os.path.dirname(os.path.realpath(pwd))) == os.path.realpath(sbx)
                                 and os.path.basename(pwd) == 'act')
        if c['keep'] and len(left) == 1:
            first_line = pr.out.split('\n')[0] if pr.out else ''
            reported = os.path.realpath(first_line) == os.path.realpath(sds_root) and pr.out.count('\n') == 1
            layout_ok = sorted(os.listdir(sds_root)) == ['act', 'internal', 'result', 'tmp']
            rdir = os.path.join(sds_root, 'result')
            if c['expect_act'] and os.path.isdir(rdir):
                try:
                    result_ok = (sorted(os.listdir(rdir)) == ['exit-code', 'stderr', 'stdout']
                                 and open(os.path.join(rdir, 'stdout'), newline='').read() == c['out']
                                 and open(os.path.join(rdir, 'stderr'), newline='').read() == c['err']
                                 and open(os.path.join(rdir, 'exit-code')).read() == str(c['code']))
                except OSError:
                    result_ok = False
            elif os.path.isdir(rdir):
                # the action did not complete: whatever is in result/ is not Exactly's invention — no file but the three, and an
                # exit-code file (if any) holds an exit code
                try:
                    names = sorted(os.listdir(rdir))
                    result_ok = set(names) <= {'exit-code', 'stderr', 'stdout'} and (
                        'exit-code' not in names or open(os.path.join(rdir, 'exit-code')).read().strip().lstrip('-').isdigit())
                except OSError:
                    result_ok = False
            tdir = os.path.join(sds_root, 'tmp')
            if os.path.isdir(tdir):
                tmp_ok = sorted(os.listdir(tdir)) == sorted(c['tmp_files'])
                for tf in c['tmp_files']:
                    tp = os.path.join(tdir, tf)
                    if tmp_ok and os.path.isfile(tp) and not os.path.islink(tp):
                        tmp_ok = open(tp).read() == 'mine'
        obs = {'exit': pr.exit_code, 'stdout': pr.out[:200], 'cwd_restored': cwd_restored, 'environ_same': environ_same,
               'dirs_left': len(left), 'reported_path_is_left_dir': reported, 'layout_ok': layout_ok,
               'result_files_exact': result_ok, 'tmp_untouched': tmp_ok, 'first_setup_instruction_ran_in_act': starts_in_act}
        terms.append('(C04Real %s %s %s %s %s %s %s %s %s %s %s)' % (
            cbool(c['keep']), cbool(c['expect_sds']), cbool(c['expect_act']), cbool(cwd_restored), cbool(environ_same),
            cnat(len(left)), copt(reported, cbool), copt(layout_ok, cbool), copt(result_ok, cbool), copt(tmp_ok, cbool),
            copt(starts_in_act, cbool)))
        desc['observed'] = obs
        meta.append(desc)
        res.count('real: ending %s' % c['name'])
        res.count('real: way of running = %s' % ('--keep' if c['keep'] else '--act' if c['act_mode'] else 'plain'))
        res.nontrivial.add(('B', c['name'], c['keep'], c['act_mode'], tuple(c['features']), c['out'], c['code']))
        for x in left:
            p = os.path.join(sbx, x)
            os.system('chmod -R u+w %s 2>/dev/null' % p)
            shutil.rmtree(p, ignore_errors=True)
        shutil.rmtree(d, ignore_errors=True)
    shutil.rmtree(root, ignore_errors=True)
    return terms, meta


def run(ctx, res):
    res.rule = ('A: stub executions — C01 fault plans (every step x position x failure kind, alone and with failing cleanup; random '
                'multi-fault plans), each with keep chosen at random and stub instructions that chdir in random main steps; '
                'B: real cases through MainProgram.execute — 12 endings x keep/no keep x random features (cd in setup / before-assert / '
                'cleanup, env changes, read-only files, tmp files, child cd) x 5 outputs x 5 exit codes. non-trivial := A: a fault or a '
                'chdir is planned; B: every case (each has an ending and features); distinct := distinct plan / case description')
    ta, ma = run_stub(ctx, res)
    tb, mb = run_real(ctx, res)
    res.evaluations = len(ta) + len(tb)
    res.samples = [ma[1], ma[len(ma) // 2], mb[0], mb[len(mb) // 2]]
    imports = ['Model.Outcome', 'Model.Exec', 'Model.World', 'Spec.C01', 'Spec.C04']
    cb, pb, errs = common.run_shards('C04', imports, 'check_c04', ta, shard_size=300, tag='stub')
    res.errors += errs
    for i in pb:
        res.prop_failures.append(Failure('property', ma[i], 'cwd / environ not restored, sandbox not removed (or not kept under keep), '
                                                            'not exactly one fresh sandbox, cwd not act/ after sandbox creation, or layout wrong'))
    for i in cb:
        res.disagreements.append(Failure('correspondence', ma[i], 'model execute_in_world differs from the observed execution'))
    cb, pb, errs = common.run_shards('C04', imports, 'check_c04_real', tb, shard_size=300, tag='real')
    res.errors += errs
    for i in pb:
        res.prop_failures.append(Failure('property', mb[i], 'real case: cwd/environ not restored, sandbox not removed / not kept+reported, '
                                                            'layout, result/ files, tmp/ or initial directory wrong'))
    for i in cb:
        res.disagreements.append(Failure('correspondence', mb[i], 'number of directories left under the sandbox root differs from the model'))


def replay(ctx, payload):
    print(json.dumps(payload.get('case'), indent=1, default=str))
    return 0
