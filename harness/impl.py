"""In-process access to the implementation under /repo/src through its public entry points."""
import os
import pathlib
import sys
import tempfile
import warnings

from common import REPO

warnings.simplefilter('ignore')
if REPO + '/src' not in sys.path:
    sys.path.insert(0, REPO + '/src')

from exactly_lib.section_document.parse_source import ParseSource  # noqa: E402
from exactly_lib.util.symbol_table import SymbolTable  # noqa: E402


def app_env(tmp_dir, mem_buff_size=2 ** 10):
    from exactly_lib.test_case.app_env import ApplicationEnvironment
    from exactly_lib.impls.os_services import os_services_access
    from exactly_lib.util.process_execution.execution_elements import ProcessExecutionSettings
    from exactly_lib.common import tmp_dir_file_spaces
    space = tmp_dir_file_spaces.std_tmp_dir_file_space(pathlib.Path(tmp_dir) / 'space')
    return ApplicationEnvironment(os_services_access.new_for_current_os(),
                                  ProcessExecutionSettings.with_timeout(30), space, mem_buff_size)


def primitive_of(sdv, env=None, tcds=None, symbols=None):
    ddv = sdv.resolve(symbols or SymbolTable())
    return ddv.value_of_any_dependency(tcds).primitive(env)


def parse_full(parsers_module, source, must_be_on_current_line=False):
    return parsers_module.parsers(must_be_on_current_line).full.parse(ParseSource(source))


def str_source(contents, env):
    from exactly_lib.impls.types.string_source import constant_str
    return constant_str.string_source(contents, env.tmp_files_space)
