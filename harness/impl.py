"""In-process access to the implementation under /repo/src through its public entry points."""
import os
import pathlib
import sys
import tempfile
import warnings

from common import REPO

warnings.simplefilter('ignore')
if REPO + '/src' not in sys.path:
    sys.path.insert(0, REPO + '/src')

from exactly_lib.section_document.parse_source import ParseSource  # noqa: E402
from exactly_lib.util.symbol_table import SymbolTable  # noqa: E402


def app_env(tmp_dir, mem_buff_size=2 ** 10):
    from exactly_lib.test_case.app_env import ApplicationEnvironment
    from exactly_lib.impls.os_services import os_services_access
    from exactly_lib.util.process_execution.execution_elements import ProcessExecutionSettings
    from exactly_lib.common import tmp_dir_file_spaces
    space = tmp_dir_file_spaces.std_tmp_dir_file_space(pathlib.Path(tmp_dir) / 'space')
    return ApplicationEnvironment(os_services_access.new_for_current_os(),
                                  ProcessExecutionSettings.with_timeout(30), space, mem_buff_size)


def primitive_of(sdv, env=None, tcds=None, symbols=None):
    ddv = sdv.resolve(symbols or SymbolTable())
    return ddv.value_of_any_dependency(tcds).primitive(env)


def parse_full(parsers_module, source, must_be_on_current_line=False):
    return parsers_module.parsers(must_be_on_current_line).full.parse(ParseSource(source))


def str_source(contents, env):
    from exactly_lib.impls.types.string_source import constant_str
    return constant_str.string_source(contents, env.tmp_files_space)


# ---------------------------------------------------------------------------------------------
# The main program, in process
# ---------------------------------------------------------------------------------------------
def main_program(sandbox_root, mem_buff_size=None, on_create=None):
    """A MainProgram exactly like default_main_program() but creating sandboxes under sandbox_root."""
    import io
    from exactly_lib.cli import main_program as mp
    from exactly_lib.cli.test_case_def import TestCaseDefinitionForMainProgram
    from exactly_lib.cli_default.program_modes import test_suite
    from exactly_lib.cli_default.program_modes.test_case import builtin_symbols, default_instructions_setup, \
        test_case_handling_setup
    from exactly_lib.common import instruction_name_and_argument_splitter
    from exactly_lib.processing.instruction_setup import TestCaseParsingSetup
    from exactly_lib.processing.parse.act_phase_source_parser import ActPhaseParser

    def mk():
        d = tempfile.mkdtemp(prefix='exactly-', dir=sandbox_root)
        if on_create is not None:
            on_create(d)
        return d

    return mp.MainProgram(test_case_handling_setup.setup(), mk,
                          TestCaseDefinitionForMainProgram(
                              TestCaseParsingSetup(instruction_name_and_argument_splitter.splitter,
                                                   default_instructions_setup.INSTRUCTIONS_SETUP,
                                                   ActPhaseParser()),
                              builtin_symbols.ALL),
                          test_suite.test_suite_definition(),
                          io.DEFAULT_BUFFER_SIZE if mem_buff_size is None else mem_buff_size)


class ProgramRun:
    def __init__(self, exit_code, out, err, exception=None):
        self.exit_code, self.out, self.err, self.exception = exit_code, out, err, exception


def run_main(mp, argv, cwd, scratch):
    """Run MainProgram.execute(argv) with real files as stdout/stderr, in directory cwd."""
    from exactly_lib.util.file_utils.std import StdOutputFiles
    po, pe = os.path.join(scratch, 'stdout.txt'), os.path.join(scratch, 'stderr.txt')
    old = os.getcwd()
    exc = None
    code = None
    with open(po, 'w') as fo, open(pe, 'w') as fe:
        try:
            os.chdir(cwd)
            code = mp.execute(list(argv), StdOutputFiles(fo, fe))
        except BaseException as ex:  # an escaping exception is an observation, not a harness error
            if isinstance(ex, KeyboardInterrupt):
                raise
            exc = ex
        finally:
            os.chdir(old)
    return ProgramRun(code, open(po, errors='replace').read(), open(pe, errors='replace').read(), exc)


def run_cli(argv, cwd, tmpdir, timeout=120):
    """Run the real entry point (src/default-main-program-runner.py) as a process: what a user runs.  Sandboxes go under tmpdir."""
    import subprocess
    env = dict(os.environ, TMPDIR=tmpdir, PYTHONWARNINGS='ignore', PYTHONPATH=REPO + '/src', PYTHONHASHSEED='0',
               PYTHONDONTWRITEBYTECODE='1')
    try:
        p = subprocess.run([sys.executable, REPO + '/src/default-main-program-runner.py'] + list(argv), cwd=cwd, env=env,
                           stdin=subprocess.DEVNULL, stdout=subprocess.PIPE, stderr=subprocess.PIPE, timeout=timeout)
    except subprocess.TimeoutExpired as ex:
        return ProgramRun(None, '', '', ex)
    return ProgramRun(p.returncode, p.stdout.decode(errors='replace'), p.stderr.decode(errors='replace'), None)
