"""C09 — string syntax: quoting, concatenation, here-documents denote one exact string.

Implementation side (in process): the real `TokenStream`, `parse_string.parse_string_sdv`,
`parse_rich_string.RichStringParser`, `parse_list.parse_list_from_token_parser`, `symbol_syntax.split`, and a sample
end to end through the main program (`file f = RICH-STRING`, contents read back).
Model side: Model/Tok.v through Spec/C09.v `check_case`, evaluated by vm_compute.

Inputs are STRUCTURES (fragments with their quoting, separators, here-document lines ...) rendered to source text; the
Coq side re-renders the structure and checks that the text given to the implementation is that rendering, evaluates the
model on the text (correspondence) and the documented denotation on the structure (property).  A second stream of
unstructured character soup exercises correspondence only.
"""
import json
import os
import shutil
import tempfile

import common
from common import Failure, cnat, cbool, clist, copt, ctext, cN
import impl

EXPLANATION = ('Theorems over the Gallina model of shlex (as configured by TokenStream), TokenStream, symbol_syntax.split, '
               'parse_string, the rich-string/here-document parser and the list-element loop (Props/C09.v); differential '
               'correspondence of that model with the running code on structured and unstructured sources; the documented '
               'denotation evaluated on the observed behaviour.')
ASSUMPTIONS = ["Python's str.isalnum is an oracle (per case table of the characters that occur; a miss fails the case)",
               "Python's white space set (str.strip / str.isspace) is a concrete list in the model, compared with the running "
               "interpreter over all code points on every run (coq/Gen/C09_tables.v)",
               'RESERVED_TOKENS is tabulated from the running code and compared with the model and with the manual\'s list',
               'symbols of the generated cases are string symbols; list- and path-valued symbols are outside the model']
TRUSTED_EXTRA = ['Python 3.12 shlex is MODELLED (Model/Tok.v lex_go), not assumed: its model is tested against the real shlex '
                 'through TokenStream on every run']

KF1 = 'KF-C09-1'

EXOTIC = '\x0b\x0c\x1c\x1d\x1e\x1f\x85\xa0\u1680\u2000\u2003\u200a\u2028\u2029\u202f\u205f\u3000'
SHLEX_WS = ' \t\r\n'

LISTS = [('L', ['e1', 'e 2', 'e3']), ('ONE', ['single']), ('NIL', [])]       # list symbols
LISTS_D = dict(LISTS)
# the symbol table as strings: a list symbol is rendered with single spaces wherever a string is wanted
ENV = [('X', 'xval'), ('Y', 'y v'), ('S_1', '@[X]@'), ('é', 'q\'"'), ('E', '')] + [(k, ' '.join(v)) for k, v in LISTS]
ENV_D = dict(ENV)


_OPTION_WORDS = None


def option_words():
    """every option word of the grammar, collected from the RUNNING program (all OptionName objects alive after the main
    program with its instruction set has been imported); fail-closed if the known core is missing"""
    global _OPTION_WORDS
    if _OPTION_WORDS is None:
        import gc
        impl.main_program(tempfile.gettempdir())
        from exactly_lib.util.cli_syntax.elements.argument import OptionName
        from exactly_lib.util.cli_syntax import option_syntax
        ws = sorted({option_syntax.long_option_syntax(o.long) for o in gc.get_objects() if isinstance(o, OptionName) and o.long})
        core = {'-existing-file', '-existing-dir', '-existing-path', '-contents-of', '-stdout-from', '-stderr-from', '-stdin',
                '-transformed-by', '-ignore-exit-code', '-python', '-of', '-rel-act', '-rel-home', '-rel-tmp'}
        if not core <= set(ws) or any(not w.startswith('-') or any(c in w for c in ' \t\r\n\'"@') for w in ws):
            raise RuntimeError('option words of the running program could not be collected: %r' % ws)
        _OPTION_WORDS = ws
    return _OPTION_WORDS


def is_ident(c):
    return c.isalnum() or c == '_'


def env_for(texts):
    """the fixed symbols plus a definition for every name that could be referenced in one of the texts (every maximal
    identifier run that follows '@[')"""
    names = []
    for s in texts:
        i = s.find('@[')
        while i != -1:
            j = i + 2
            while j < len(s) and is_ident(s[j]):
                j += 1
            if j > i + 2 and s[i + 2:j] not in ENV_D and s[i + 2:j] not in names:
                names.append(s[i + 2:j])
            i = s.find('@[', i + 1)
    return ENV + [(n, '<' + n + '>') for n in names]

WORDS = ['a', 'b', 'ab', 'X', 'x1', '_', 'é', 'ü', '²', '→', '#', '\\', '-', '--opt', '-x', '(', ')', '=', '|',
         '&&', '||', '!', ':', '>', '<<', '<<EOF', ':>', '{', '}', '[', ']', '.', '/', '$', '*', '#c', 'a#b', 'EOF', '\\\\']
REFP = ['@[L]@', '@[L]@', '@[ONE]@', '@[NIL]@', '@[X]@', '@[Y]@', '@[S_1]@', '@[é]@', '@[E]@', '@[', ']@', '@[X', 'X]@', '@[]@', '@', '[', ']', '@[@[X]@',
        '@[a@[X]@', '@[a-@[Y]@', '@[X]@[Y]@', '@[X]@@[Y]@', '@[X_]@', '@[ X]@']
RESERVED = ['(', ')', '[', ']', '{', '}', '=', '|', ':', '!', '&&', '||']
SEPS = [' ', '  ', '\t', ' \t ', '\n', ' \n', '\n ', '\r\n', '\r', ' \n\n ', '\n\n']
SEPS_LINE = [' ', '  ', '\t', ' \t', '\r ', '   ']


# ---------------------------------------------------------------------------------------------
# generators of structures
# ---------------------------------------------------------------------------------------------
def gen_text(rng, kind, allow_nl=True):
    """characters of one fragment. kind: 'N' naked, 'S' soft, 'H' hard, 'T' free text without new-line"""
    n = rng.weighted([(0, 1 if kind != 'N' else 0), (1, 5), (2, 4), (3, 2), (4, 1)])
    out = []
    for _ in range(n):
        r = rng.below(100)
        if r < 38:
            out.append(rng.choice(WORDS))
        elif r < 78:
            out.append(rng.choice(REFP))
        elif kind == 'N':
            out.append(rng.choice(WORDS))
        elif r < 88:
            out.append(rng.choice([' ', '  ', '\t', ' a ', ' @[X]@ ']))
        elif r < 94:
            out.append({'S': "'", 'H': '"', 'T': rng.choice(['"', "'"])}[kind])
        elif r < 97 and allow_nl and kind != 'T':
            out.append(rng.choice(['\n', '\n ', 'a\nb']))
        else:
            out.append(rng.choice(EXOTIC))
    s = ''.join(out)
    if kind == 'N':
        s = ''.join(c for c in s if not c.isspace() and c not in '\'"')
        if not s:
            s = rng.choice(WORDS)
    elif kind == 'S':
        s = s.replace('"', '')
    elif kind == 'H':
        s = s.replace("'", '')
    else:
        s = s.replace('\n', '')
    return s


def gen_token(rng, allow_nl=True):
    r = rng.below(100)
    if r < 6:
        return [('N', rng.choice(RESERVED))]
    if r < 10:
        return [('N', rng.choice(['-opt', '--', '-', '<<EOF', ':>', '\\', '#', '#x', '<<']))]
    if r < 14:
        # a QUOTED word is always literal text, also when it is spelled like an option of the grammar
        return [(rng.choice('SH'), rng.choice(option_words()))]
    n = rng.weighted([(1, 50), (2, 30), (3, 15), (4, 5)])
    return [(k, gen_text(rng, k, allow_nl)) for k in (rng.choice('NSH') for _ in range(n))]


RICH_SIGNIFICANT = ['<<', '<<EOF', '<<-', '<<E x', ':>', ':> x', '<:>', '<<@[X]@']


def split_variants(base, max_pieces=3):
    """every way of writing [base] as 1..max_pieces adjacent fragments, each fragment naked / soft / hard where that is possible"""
    out = []

    def kinds_of(piece):
        ks = []
        if not any(c.isspace() or c in '\'"' for c in piece):
            ks.append('N')
        if '"' not in piece:
            ks.append('S')
        if "'" not in piece:
            ks.append('H')
        return ks

    def rec(rest, acc):
        if not rest:
            out.append(list(acc))
            return
        if len(acc) == max_pieces:
            return
        for i in range(1, len(rest) + 1):
            if len(acc) == max_pieces - 1 and i != len(rest):
                continue
            for k in kinds_of(rest[:i]):
                acc.append((k, rest[:i]))
                rec(rest[i:], acc)
                acc.pop()

    rec(base, [])
    return out


def rich_significant_tokens():
    """strings that START with characters significant to the rich-string parser, in every split and quoting (seeded C09-m14)"""
    toks, seen = [], set()
    for base in RICH_SIGNIFICANT:
        for t in split_variants(base, 3 if len(base) <= 5 else 2):
            key = (render_tok(t), tuple(k for k, _ in t))
            merged = []
            for k, x in t:        # adjacent naked fragments are one naked fragment
                if merged and merged[-1][0] == 'N' and k == 'N':
                    merged[-1] = ('N', merged[-1][1] + x)
                else:
                    merged.append((k, x))
            key = repr(merged)
            if key not in seen:
                seen.add(key)
                toks.append(merged)
    return toks


def is_plain_for_rich(t):
    return not (render_tok(t).startswith('<<') or (t[0][0] == 'N' and chars_tok(t) == ':>'))


def gen_items(rng, nmin, nmax, seps=SEPS, last_empty_ok=True, allow_nl=True):
    n = rng.randint(nmin, nmax)
    items = []
    for i in range(n):
        sep = rng.choice(seps)
        if i == n - 1 and last_empty_ok and rng.chance(0.5):
            sep = ''
        items.append((gen_token(rng, allow_nl), sep))
    return items


def gen_unterm(rng):
    pre = [(k, gen_text(rng, k)) for k in (rng.choice('NSH') for _ in range(rng.below(3)))]
    q = rng.choice('\'"')
    cs = gen_text(rng, 'S' if q == '"' else 'H') + rng.choice(['', '\nnext line', ' x\n[assert]\n'])
    cs = cs.replace(q, '')
    return (pre, q, cs)


def gen_after(rng):
    r = rng.below(10)
    if r < 3:
        return None
    if r < 5:
        return ''
    return rng.choice(['next x\n', 'file g = y\n', '[assert]\n', "it's\n", 'a "b\nc" d\n', '\n\nz', ' ', '@[X]@\n',
                       rng.choice(EXOTIC) + '\n', 'EOF\n', "'q' w\n"])


MARKERS = ['EOF', 'E', '-', '_x', 'EOF2', 'eof-1', 'X']


def gen_heredoc(rng):
    marker = rng.choice(MARKERS)
    trail = rng.choice(['', '', ' ', '\t', '  '])
    pool = ['', ' ', marker + ' ', ' ' + marker, marker + '2', '<<' + marker, '[setup]', '# comment', '#', '@[X]@',
            "it's", '"', "'a' \"b\"", '@[Y]@ and @[S_1]@', '\\', marker.lower() if marker.lower() != marker else 'x', 'a  b', '\t',
            marker + marker, '@[', ']@', '@[a@[X]@', 'x ' + marker, ':>', '-' + marker, '\r']
    lines = []
    for _ in range(rng.weighted([(0, 2), (1, 4), (2, 4), (3, 3), (5, 1)])):
        r = rng.below(10)
        if r < 6:
            l = rng.choice(pool)
        elif r < 9:
            l = gen_text(rng, 'T')
        else:
            l = rng.choice(EXOTIC) * rng.randint(1, 2)
        if l != marker:
            lines.append(l)
    r = rng.below(10)
    if r < 7:
        end = ('end', gen_after(rng))
    elif r < 9:
        end = ('missing', None)
    else:
        l = rng.choice([x for x in pool if x]) if rng.chance(0.7) else gen_text(rng, 'T')
        end = ('missing', l if l and l != marker else 'zz')
    return ('here', marker, trail, lines, end)


def gen_rich(rng, kind):
    """kind 'string' -> plain only"""
    r = rng.below(100)
    if kind == 'string' or r < 40:
        items = gen_items(rng, 0 if rng.chance(0.06) else 1, 3)
        u = gen_unterm(rng) if rng.chance(0.12) else None
        if u is not None and items and not items[-1][1]:
            items[-1] = (items[-1][0], ' ')
        if kind != 'string' and items:
            t = items[0][0]
            if render_tok(t).startswith('<<') or (t[0][0] == 'N' and chars_tok(t) == ':>'):
                items[0] = ([('H', '')] + t, items[0][1])
        return ('plain', items, u)
    if r < 60:
        txt = gen_text(rng, 'T') if rng.chance(0.9) else ''
        gap = rng.choice(SEPS_LINE)
        if txt and rng.chance(0.3):
            txt = txt + rng.choice([' ', '\t ', '  '])
        if not txt and rng.chance(0.5):
            gap = ''
        return ('eol', gap, txt, gen_after(rng))
    return gen_heredoc(rng)


def gen_list(rng):
    n = rng.weighted([(0, 1), (1, 3), (2, 4), (3, 4), (4, 2), (6, 1)])
    items = []
    for _ in range(n):
        if rng.chance(0.15):
            items.append(('cont', rng.choice(['', ' ', '\t']), rng.choice(['', ' ', '  '])))
        else:
            t = gen_token(rng, allow_nl=rng.chance(0.15))
            if t[0][0] == 'N' and chars_tok(t) == ')':
                t = [('S', ')')]
            items.append(('tok', t, rng.choice(SEPS_LINE)))
    paren = rng.choice(['', ' x y', ' ', ' )']) if rng.chance(0.15) else None
    # separators / lone backslash at the end
    for i, it in enumerate(items):
        last = i == len(items) - 1
        if it[0] == 'tok' and last:
            t = it[1]
            if render_tok(t) == '\\':
                t = [('S', '\\')]
            sep = it[2] if (paren is not None or rng.chance(0.5)) else ''
            items[i] = ('tok', t, sep)
    return (items, paren, gen_after(rng))


def gen_soup(rng, nmax=14):
    alphabet = ['a', 'b', ' ', ' ', '\t', '\n', "'", '"', '@[', ']@', 'X', '#', '\\', '-', '(', ')', '<<', 'EOF', ':>', 'é',
                ' ', '\x0b', '\u3000', '\r', '=', '@[X]@', '_']
    return ''.join(rng.choice(alphabet) for _ in range(rng.randint(0, nmax)))


# ---------------------------------------------------------------------------------------------
# rendering (harness side; the Coq side renders the structure again and compares)
# ---------------------------------------------------------------------------------------------
def render_frag(f):
    k, s = f
    return s if k == 'N' else ('"' + s + '"' if k == 'S' else "'" + s + "'")


def render_tok(t):
    return ''.join(render_frag(f) for f in t)


def chars_tok(t):
    return ''.join(s for _, s in t)


def render_items(items):
    return ''.join(render_tok(t) + s for t, s in items)


def render_unterm(u):
    return '' if u is None else render_tok(u[0]) + u[1] + u[2]


def render_after(a):
    return '' if a is None else '\n' + a


def render_rich(r):
    if r[0] == 'plain':
        return render_items(r[1]) + render_unterm(r[2])
    if r[0] == 'eol':
        return ':>' + r[1] + r[2] + render_after(r[3])
    _, marker, trail, lines, end = r
    s = '<<' + marker + trail + '\n' + ''.join(l + '\n' for l in lines)
    if end[0] == 'end':
        return s + marker + render_after(end[1])
    return s + (end[1] or '')


def render_list(l):
    items, paren, after = l
    s = ''.join(render_tok(i[1]) + i[2] if i[0] == 'tok' else '\\' + i[1] + '\n' + i[2] for i in items)
    return s + ('' if paren is None else ')' + paren) + render_after(after)


# ---------------------------------------------------------------------------------------------
# Coq terms
# ---------------------------------------------------------------------------------------------
def c_frag(f):
    return '(%s %s)' % ({'N': 'Naked', 'S': 'Soft', 'H': 'Hard'}[f[0]], ctext(f[1]))


def c_list(xs, ty):
    return clist(xs) if xs else '(@nil %s)' % ty


def c_tok(t):
    return c_list([c_frag(f) for f in t], 'qfrag')


def c_items(items):
    return c_list(['(%s, %s)' % (c_tok(t), ctext(s)) for t, s in items], '(stoken * text)')


def c_unterm(u):
    return 'None' if u is None else '(Some (Unterm %s %s %s))' % (c_tok(u[0]), cN(ord(u[1])), ctext(u[2]))


def c_otext(a):
    return 'None' if a is None else '(Some %s)' % ctext(a)


def c_rich(r):
    if r[0] == 'plain':
        return '(RPlain %s %s)' % (c_items(r[1]), c_unterm(r[2]))
    if r[0] == 'eol':
        return '(REol %s %s %s)' % (ctext(r[1]), ctext(r[2]), c_otext(r[3]))
    _, marker, trail, lines, end = r
    e = '(HEnd %s)' % c_otext(end[1]) if end[0] == 'end' else '(HMissing %s)' % c_otext(end[1])
    return '(RHere %s %s %s %s)' % (ctext(marker), ctext(trail), c_list([ctext(l) for l in lines], 'text'), e)


def c_slist(l):
    items, paren, after = l
    its = ['(LTok %s %s)' % (c_tok(i[1]), ctext(i[2])) if i[0] == 'tok' else '(LCont %s %s)' % (ctext(i[1]), ctext(i[2]))
           for i in items]
    return '(SList %s %s %s)' % (c_list(its, 'litem'), c_otext(paren), c_otext(after))


def c_oracle(s):
    chars = sorted(set(s))
    return '(Oracle %s %s)' % (c_list([cN(ord(c)) for c in chars if c.isalnum()], 'N'),
                               c_list([cN(ord(c)) for c in chars if not c.isalnum()], 'N'))


def c_env(env):
    return clist(['(%s, %s)' % (ctext(k), ctext(v)) for k, v in env])


def c_lsyms():
    return clist(['(%s, %s)' % (ctext(k), c_list([ctext(x) for x in v], 'text')) for k, v in LISTS])


def env_chars(env):
    return ''.join(k + v for k, v in env)

EXN = {'TokenSyntaxError': 'ExTokenSyntax', 'IndexError': 'ExIndex', 'SingleInstructionInvalidArgumentException': 'ExInvalidArg',
       'HereDocumentContentsParsingException': 'ExInvalidArg'}


def c_exn(name):
    return EXN.get(name, 'ExOther')


def c_fragment(f):
    return '(%s %s)' % ('FSym' if f[0] == 'sym' else 'FConst', ctext(f[1]))


def c_fragments(frs):
    return c_list([c_fragment(f) for f in frs], 'fragment')


# ---------------------------------------------------------------------------------------------
# the implementation
# ---------------------------------------------------------------------------------------------
class Impl:
    def __init__(self):
        from exactly_lib.section_document.element_parsers.token_stream import TokenStream
        from exactly_lib.section_document.element_parsers.token_stream_parser import TokenParser
        from exactly_lib.impls.types.string_ import parse_string, parse_rich_string
        from exactly_lib.impls.types.list_ import parse_list
        from exactly_lib.symbol import symbol_syntax
        from exactly_lib.symbol.sdv_structure import SymbolContainer
        from exactly_lib.symbol.value_type import ValueType
        from exactly_lib.type_val_deps.types.string_ import string_sdvs
        from exactly_lib.util.symbol_table import SymbolTable
        self.TokenStream, self.TokenParser = TokenStream, TokenParser
        self.parse_string, self.rich, self.parse_list, self.symbol_syntax = parse_string, parse_rich_string, parse_list, symbol_syntax
        from exactly_lib.type_val_deps.types.list_ import list_sdvs
        from exactly_lib.impls.types.program.parse import parse_arguments
        self.parse_arguments = parse_arguments

        def mk(env):
            d = {k: SymbolContainer(string_sdvs.str_constant(v), ValueType.STRING, None) for k, v in env if k not in LISTS_D}
            d.update({k: SymbolContainer(list_sdvs.from_str_constants(v), ValueType.LIST, None) for k, v in LISTS})
            return SymbolTable(d)

        self.mk_symbols = mk
        self.rich_parser = parse_rich_string.RichStringParser()

    def tokens(self, src):
        """([(type, string, source_string, position, tell)], ('null'|'syntax', pos, tell) | ('raise', name))"""
        try:
            ts = self.TokenStream(src)
        except Exception as ex:
            return [], ('raise', type(ex).__name__)
        out = []
        for _ in range(len(src) + 2):
            h = ts.head
            if h is None:
                st = ts.look_ahead_state.name
                return out, ('syntax' if st == 'SYNTAX_ERROR' else 'null', ts.position, ts._source_io.tell())
            out.append((h.type.name, h.string, h.source_string, ts.position, ts._source_io.tell()))
            try:
                ts.consume()
            except Exception as ex:
                return out, ('raise', type(ex).__name__)
        raise RuntimeError('token stream does not end')

    @staticmethod
    def _frags(sdv):
        return [('const', f.string_constant) if f.is_string_constant else ('sym', f.references[0].name) for f in sdv.fragments]

    def parse(self, kind, src, env):
        """('ok', fragments, resolved, position) | ('raise', name)"""
        try:
            ts = self.TokenStream(src)
            if kind == 'string':
                sdv = self.parse_string.parse_string_sdv(ts)
            else:
                sdv = self.rich_parser.parse_from_token_parser(self.TokenParser(ts))
            resolved = sdv.resolve(self.mk_symbols(env)).value_when_no_dir_dependencies()
            return ('ok', self._frags(sdv), resolved, ts.position)
        except Exception as ex:
            return ('raise', type(ex).__name__)

    def list(self, src, env, is_args=False):
        """('ok', elements, resolved list, position) | ('raise', name)"""
        try:
            ts = self.TokenStream(src)
            if is_args:
                sdv = self.parse_arguments.parser().parse_from_token_parser(self.TokenParser(ts)).arguments_list
            else:
                sdv = self.parse_list.parse_list_from_token_parser(self.TokenParser(ts))
            els = []
            for e in sdv.elements:
                ref = e.symbol_reference_if_is_symbol_reference
                els.append(('sym', ref.name) if ref is not None else ('str', self._frags(e._string_sdv)))
            resolved = list(sdv.resolve(self.mk_symbols(env)).value_when_no_dir_dependencies())
            return ('ok', els, resolved, ts.position)
        except Exception as ex:
            return ('raise', type(ex).__name__)

    def script(self, src, ops, env):
        """a sequence of operations on ONE stream: ([('tok', head or None) | ('str', fragments, resolved)], exception name or None)"""
        obs = []
        self.sticky_at = None
        try:
            ts = self.TokenStream(src)
            tp = self.TokenParser(ts)
            symbols = self.mk_symbols(env)
            for k, op in enumerate(ops):
                if self.sticky_at is None and ts._lexer.state is None and ts.head is None and \
                        ts.look_ahead_state.name == 'NULL' and ts.remaining_source.strip(' \t\r\n'):
                    self.sticky_at = k      # (FIX-C09-3, repaired) the lexer is "past end of file" although unread source remains
                if op == 'tok':
                    h = ts.head
                    ts.consume()
                    obs.append(('tok', None if h is None else (h.type.name, h.string, h.source_string)))
                else:
                    sdv = self.parse_string.parse_string_sdv(ts) if op == 'string' else self.rich_parser.parse_from_token_parser(tp)
                    obs.append(('str', self._frags(sdv), sdv.resolve(symbols).value_when_no_dir_dependencies()))
            return obs, None
        except Exception as ex:
            return obs, type(ex).__name__

    def split(self, s):
        return [('sym', f.value) if f.is_symbol else ('const', f.value) for f in self.symbol_syntax.split(s)]


E2E_STR = [('X', 'xval'), ('Y', 'y v'), ('S_1', '@[X]@'), ('E', ''), ('X_', '<X_>')]
E2E_ENV = E2E_STR + [(k, ' '.join(v)) for k, v in LISTS]
E2E_NEXT = "file g.txt = 'mark'\n"
E2E_NEXT_ITEMS = [([('N', 'file')], ' '), ([('N', 'g.txt')], ' '), ([('N', '=')], ' '), ([('H', 'mark')], '\n')]
FILE_ARG_PREFIX = 'f.txt = '


class E2E:
    """`file f.txt = RICH-STRING` through the whole program (parse, validate, execute in a sandbox that is kept), the
    created file read back"""

    def __init__(self, root):
        self.root = root
        self.im = Impl()
        self.mp = impl.main_program(root)
        self.head = ('[setup]\n' + ''.join("def string %s = '%s'\n" % (k, v) for k, v in E2E_STR) +
                     ''.join('def list %s = %s\n' % (k, ' '.join("'%s'" % x for x in v)) for k, v in LISTS))
        self.line = 2 + len(E2E_ENV)
        self.probe = os.path.join(root, 'probe.py')
        with open(self.probe, 'w') as f:
            f.write('import sys, json\nsys.stdout.write(json.dumps(sys.argv[1:]))\n')

    def run_dir(self, dir_src, n_files):
        """`dir d = { file a0 = ... }` + a following instruction: contents of d/a0.. | syntax error | other"""
        d = tempfile.mkdtemp(prefix='case-', dir=self.root)
        with open(os.path.join(d, 't.case'), 'w', encoding='utf-8', newline='') as f:
            f.write(self.head + 'dir ' + dir_src)
        r = impl.run_main(self.mp, ['--keep', 't.case'], d, d)
        try:
            if r.exception is not None:
                return ('other', 'exception ' + type(r.exception).__name__)
            if r.exit_code == 0 and r.out.strip():
                sds = r.out.strip().splitlines()[0]
                try:
                    contents = []
                    for i in range(n_files):
                        with open(os.path.join(sds, 'act', 'd', 'a%d' % i), encoding='utf-8', newline='') as f:
                            contents.append(f.read())
                    extra = sorted(os.listdir(os.path.join(sds, 'act', 'd')))
                    gp = os.path.join(sds, 'act', 'g.txt')
                    g_ok = os.path.isfile(gp) and open(gp).read() == 'mark' and extra == sorted('a%d' % i for i in range(n_files))
                    return ('files', contents, g_ok)
                except OSError as ex:
                    return ('other', 'missing file: ' + str(ex)[-60:])
                finally:
                    if os.path.dirname(os.path.abspath(sds)) == os.path.abspath(self.root):
                        shutil.rmtree(sds, ignore_errors=True)
            first = (r.err.splitlines() or [''])[0]
            if first == 'SYNTAX_ERROR':
                return ('syntax', ('t.case, line %d\n' % self.line) in r.err)
            return ('other', first)
        finally:
            shutil.rmtree(d, ignore_errors=True)

    def run_args(self, args_src, via_list=False):
        """argv received by the probe program from `% python probe.py ARG...` in [act] | syntax error | other"""
        import json as _json
        d = tempfile.mkdtemp(prefix='case-', dir=self.root)
        with open(os.path.join(d, 't.case'), 'w', encoding='utf-8', newline='') as f:
            if via_list:
                f.write(self.head + 'def list Z =' + args_src + '\n[act]\n% /venv/bin/python ' + self.probe + ' @[Z]@\n')
            else:
                f.write(self.head + '[act]\n% /venv/bin/python ' + self.probe + args_src + '\n')
        r = impl.run_main(self.mp, ['--act', 't.case'], d, d)
        try:
            if r.exception is not None:
                return ('other', 'exception ' + type(r.exception).__name__)
            first = (r.err.splitlines() or [''])[0]
            if first == 'SYNTAX_ERROR':
                if via_list:
                    return ('syntax', ('t.case, line %d\n' % self.line) in r.err)
                # the act phase is parsed by the actor: the report names the phase and shows the source line, no line number
                return ('syntax', 'In [act]\n' in r.err and ('% /venv/bin/python ' + self.probe) in r.err)
            try:
                argv = _json.loads(r.out)
            except ValueError:
                return ('other', first or ('exit %s' % r.exit_code))
            if r.exit_code == 0 and isinstance(argv, list) and all(isinstance(x, str) for x in argv):
                return ('argv', argv)
            return ('other', first or ('exit %s' % r.exit_code))
        finally:
            shutil.rmtree(d, ignore_errors=True)

    def run(self, rich_src):
        d = tempfile.mkdtemp(prefix='case-', dir=self.root)
        with open(os.path.join(d, 't.case'), 'w', encoding='utf-8', newline='') as f:
            f.write(self.head + 'file ' + FILE_ARG_PREFIX + rich_src)
        r = impl.run_main(self.mp, ['--keep', 't.case'], d, d)
        try:
            if r.exception is not None:
                return ('other', 'exception ' + type(r.exception).__name__)
            if r.exit_code == 0 and r.out.strip():
                sds = r.out.strip().splitlines()[0]
                try:
                    with open(os.path.join(sds, 'act', 'f.txt'), encoding='utf-8', newline='') as f:
                        contents = f.read()
                    gp = os.path.join(sds, 'act', 'g.txt')
                    g_ok = os.path.isfile(gp) and open(gp).read() == 'mark'
                    return ('file', contents, g_ok)
                finally:
                    if os.path.dirname(os.path.abspath(sds)) == os.path.abspath(self.root):
                        shutil.rmtree(sds, ignore_errors=True)
            first = (r.err.splitlines() or [''])[0]
            if first == 'SYNTAX_ERROR':
                return ('syntax', ('t.case, line %d\n' % self.line) in r.err)
            return ('other', first)
        finally:
            shutil.rmtree(d, ignore_errors=True)


def gen_e2e(rng):
    """a rich string alone on the line of `file f.txt = ...`, followed by the instruction E2E_NEXT (unless it is meant to be
    unterminated); only the symbols of E2E_ENV may be referenced"""
    known = {k for k, _ in E2E_ENV}
    for _ in range(200):
        r = rng.below(100)
        if r < 45:
            t = gen_token(rng)
            if render_tok(t)[0] in '-(' or render_tok(t).startswith('<<') or (t[0][0] == 'N' and chars_tok(t) == ':>'):
                t = [('H', '')] + t
            if first_char_splice(t) is not None:
                # a bare reference to a LIST symbol is not a STRING-SOURCE ("a naked symbol reference (in most places)"): the
                # manual leaves this place out, the program answers VALIDATION_ERROR; written in soft quotes it is one string
                t = [('S', chars_tok(t))]
            st = ('plain', [(t, rng.choice(['', ' ', '\t']) + '\n')] + E2E_NEXT_ITEMS, None)
        elif r < 52:
            st = ('plain', [], gen_unterm(rng))
        elif r < 70:
            e = gen_rich(rng, 'rich')
            while e[0] != 'eol':
                e = gen_rich(rng, 'rich')
            st = ('eol', e[1], e[2], E2E_NEXT)
        else:
            h = gen_heredoc(rng)
            end = ('end', E2E_NEXT) if h[4][0] == 'end' else h[4]
            st = ('here', h[1], h[2], h[3], end)
        src = render_rich(st)
        if '\r' in src:  # a CR in a case FILE is translated to LF when the file is read (text mode), before any parsing
            continue
        texts = [src] + ([chars_tok(t) for t, _ in st[1]] if st[0] == 'plain' else [])
        if all(k in known for k, _ in env_for(texts) if k not in ENV_D or k in known) and \
                not any(k not in known for k, _ in env_for(texts)[len(ENV):]) and '@[é]@' not in ''.join(texts):
            return st
    return ('eol', ' ', 'a', E2E_NEXT)


def gen_args(rng, e2e=False):
    """program arguments: a list whose elements are ordinary strings (no here-document / :> / path option element)"""
    known = {k for k, _ in E2E_ENV}
    for _ in range(300):
        items, paren, after = gen_list(rng)
        if e2e:
            paren, after = None, None
            items = [i for i in items if i[0] == 'tok']
        fixed = []
        for i in items:
            if i[0] == 'tok':
                t = i[1]
                if render_tok(t).startswith('<<') or (t[0][0] == 'N' and chars_tok(t) in (':>', '-existing-file', '-existing-dir',
                                                                                           '-existing-path')):
                    t = [('H', '')] + t
                fixed.append(('tok', t, i[2]))
            else:
                fixed.append(i)
        if fixed and fixed[-1][0] == 'tok' and e2e:
            t = fixed[-1][1]
            fixed[-1] = ('tok', [('S', '\\')] if render_tok(t) == '\\' else t, '')
        l = (fixed, paren, after)
        src = render_list(l)
        if e2e:
            texts = [src] + [chars_tok(i[1]) for i in fixed if i[0] == 'tok']
            if '\n' in src or '\r' in src or any(k not in known for k, _ in env_for(texts)[len(ENV):]) or '@[é]@' in ''.join(texts):
                continue
        return l
    return ([('tok', [('N', 'a')], '')], None, None)


def args_e2e_case(e2e, l, ut=None, via_list=False):
    """argv of the probe program from `% probe ARGS` (via_list: from `def list Z = ARGS` + `% probe @[Z]@`)"""
    lead = ' '
    src = lead + render_list(l) + render_unterm(ut)
    obs = e2e.run_args(src, via_list)
    if obs[0] == 'argv':
        co = '(AObs %s)' % c_list([ctext(x) for x in obs[1]], 'text')
    elif obs[0] == 'syntax':
        co = '(ASyntax %s)' % cbool(obs[1])
    else:
        co = 'AOther'
    term = '(CArgs %s %s %s %s %s (%s, %s, %s) %s)' % (cbool(via_list), c_oracle(src + env_chars(E2E_ENV)), c_env(E2E_ENV), c_lsyms(),
                                                      ctext(src), ctext(lead), c_slist(l), c_unterm(ut), co)
    return term, {'kind': 'args-e2e', 'source': src, 'structure': (lead, l, ut), 'observed': obs, 'symbols': E2E_ENV,
                  'list_symbols': LISTS, 'via': 'def list Z = ... ; % probe @[Z]@' if via_list else '% probe ...'}


def e2e_case(e2e, st):
    rich_src = render_rich(st)
    obs = e2e.run(rich_src)
    if obs[0] == 'file':
        co = '(PFile %s %s)' % (ctext(obs[1]), cbool(obs[2]))
    elif obs[0] == 'syntax':
        co = '(PSyntax %s)' % cbool(obs[1])
    else:
        co = '(PExn ExOther)'
    src = FILE_ARG_PREFIX + rich_src
    term = '(CParse KFile %s %s %s (Some (%s, %s)) %s)' % (c_oracle(src + env_chars(E2E_ENV)), c_env(E2E_ENV), ctext(src),
                                                          ctext(FILE_ARG_PREFIX), c_rich(st), co)
    return term, {'kind': 'parse-file', 'source': src, 'structure': (FILE_ARG_PREFIX, st), 'observed': obs, 'symbols': E2E_ENV,
                  'case_file': e2e.head + 'file ' + src}


# ---------------------------------------------------------------------------------------------
# several strings in one stream: segments
# ---------------------------------------------------------------------------------------------
LONE_QUOTE_TEXTS = ["it's", "don't", '"x', "it's @[X]@ y", "'", 'a" b', "can't 'q", "o'clock @[L]@"]


def gen_raw_text(rng):
    """the TEXT after :> / a here-document line: often begins with a word that contains a lone quote"""
    if rng.chance(0.4):
        return rng.choice(LONE_QUOTE_TEXTS)
    return gen_text(rng, 'T')


def fix_string_token(t, as_rich):
    if render_tok(t) in RESERVED or (all(k == 'N' for k, _ in t) and chars_tok(t) in RESERVED):
        t = [('S', chars_tok(t))]
    if as_rich and (render_tok(t).startswith('<<') or (t[0][0] == 'N' and chars_tok(t) == ':>')):
        t = [('H', '')] + t
    return t


def gen_segs(rng):
    n = rng.randint(2, 6)
    segs = []
    for i in range(n):
        more = i < n - 1
        r = rng.below(100)
        sep = rng.choice(SEPS) if (more or rng.chance(0.5)) else ''
        if r < 30:
            segs.append(('tok', gen_token(rng, allow_nl=rng.chance(0.2)), sep))
        elif r < 55:
            as_rich = rng.chance(0.5)
            segs.append(('str', as_rich, fix_string_token(gen_token(rng, allow_nl=rng.chance(0.2)), as_rich), sep))
        elif r < 80:
            txt = gen_raw_text(rng) if rng.chance(0.9) else ''
            gap = rng.choice(SEPS_LINE) if (txt or rng.chance(0.5)) else ''
            nxt = rng.choice(['', ' ', '  ', '\t', '\n ']) if (more or rng.chance(0.5)) else None
            segs.append(('eol', gap, txt, nxt))
        else:
            marker = rng.choice(MARKERS)
            lines = [l for l in (gen_raw_text(rng) if rng.chance(0.7) else rng.choice(['', ' ', marker + ' ', '# c', '[setup]'])
                                 for _ in range(rng.randint(0, 3))) if l != marker]
            nxt = rng.choice(['', ' ', '  ', '\n']) if (more or rng.chance(0.5)) else None
            segs.append(('here', marker, rng.choice(['', ' ']), lines, nxt))
    ut = gen_unterm(rng) if rng.chance(0.1) else None
    if ut is not None:
        g = segs[-1]
        if g[0] in ('tok', 'str') and not g[-1]:
            segs[-1] = g[:-1] + (' ',)
        elif g[0] in ('eol', 'here') and g[-1] is None:
            segs[-1] = g[:-1] + (' ',)
    return segs, ut


def render_seg(g):
    if g[0] == 'tok':
        return render_tok(g[1]) + g[2]
    if g[0] == 'str':
        return render_tok(g[2]) + g[3]
    if g[0] == 'eol':
        return ':>' + g[1] + g[2] + render_after(g[3])
    return '<<' + g[1] + g[2] + '\n' + ''.join(l + '\n' for l in g[3]) + g[1] + render_after(g[4])


def render_segs(segs):
    return ''.join(render_seg(g) for g in segs)


def c_seg(g):
    if g[0] == 'tok':
        return '(GTok %s %s)' % (c_tok(g[1]), ctext(g[2]))
    if g[0] == 'str':
        return '(GStr %s %s %s)' % (cbool(g[1]), c_tok(g[2]), ctext(g[3]))
    if g[0] == 'eol':
        return '(GEol %s %s %s)' % (ctext(g[1]), ctext(g[2]), c_otext(g[3]))
    return '(GHere %s %s %s %s)' % (ctext(g[1]), ctext(g[2]), c_list([ctext(l) for l in g[3]], 'text'), c_otext(g[4]))


def seg_op(g):
    return 'tok' if g[0] == 'tok' else ('string' if (g[0] == 'str' and not g[1]) else 'rich')


def seg_texts(segs):
    out = []
    for g in segs:
        if g[0] == 'str':
            out.append(chars_tok(g[2]))
    return out


def c_core(h):
    return 'None' if h is None else '(Some (%s, %s, %s))' % (cbool(h[0] == 'QUOTED'), ctext(h[1]), ctext(h[2]))


def script_case(im, lead, segs, ut):
    src = lead + render_segs(segs) + render_unterm(ut)
    env = env_for([src] + seg_texts(segs))
    obs, exn = im.script(src, [seg_op(g) for g in segs] + (['string'] if ut is not None else []), env)
    sticky_at = im.sticky_at
    co = c_list(['(SoTok %s)' % c_core(o[1]) if o[0] == 'tok' else '(SoStr %s %s)' % (c_fragments(o[1]), ctext(o[2])) for o in obs], 'sobs')
    ce = 'None' if exn is None else '(Some %s)' % c_exn(exn)
    term = '(CScript %s %s %s (%s, %s, %s) %s %s)' % (c_oracle(src + env_chars(env)), c_env(env), ctext(src), ctext(lead),
                                                     c_list([c_seg(g) for g in segs], 'sseg'), c_unterm(ut), co, ce)
    return term, {'kind': 'script', 'source': src, 'structure': (lead, segs, ut), 'observed': (obs, exn), 'symbols': env,
                  'lexer_past_eof_before_op': sticky_at}


def gen_dir(rng):
    """dir d = { file a0 = RICH NL file a1 = RICH NL ... } NL file g.txt = 'mark' NL   (or an unterminated quote in the last entry)"""
    known = {k for k, _ in E2E_ENV}
    for _ in range(300):
        segs = [('tok', [('N', 'd')], ' '), ('tok', [('N', '=')], ' '), ('tok', [('N', '{')], rng.choice(['\n', '\n  ', ' \n\t']))]
        n = rng.randint(1, 4)
        ut = gen_unterm(rng) if rng.chance(0.1) else None
        for i in range(n):
            segs += [('tok', [('N', 'file')], ' '), ('str', False, [('N', 'a%d' % i)], ' '), ('tok', [('N', '=')], ' ')]
            last_ut = ut is not None and i == n - 1
            if last_ut:
                break
            r = rng.below(100)
            ind = '\n' + rng.choice(['', ' ', '  '])
            if r < 35:
                t = gen_token(rng, allow_nl=False)
                if render_tok(t)[0] in '-(':
                    t = [('H', '')] + t
                t = fix_string_token(t, True)
                if first_char_splice(t) is not None:
                    t = [('S', chars_tok(t))]
                segs.append(('str', True, t, rng.choice(['', ' ']) + ind))
            elif r < 70:
                txt = gen_raw_text(rng)
                segs.append(('eol', rng.choice(SEPS_LINE), txt, ind[1:]))
            else:
                marker = rng.choice(MARKERS)
                lines = [l for l in (gen_raw_text(rng) for _ in range(rng.randint(0, 3))) if l != marker]
                segs.append(('here', marker, rng.choice(['', ' ']), lines, ind[1:]))
        if ut is None:
            segs += [('tok', [('N', '}')], '\n')] + [('tok', t, sp) for t, sp in E2E_NEXT_ITEMS]
        src = render_segs(segs) + render_unterm(ut)
        if '\r' in src:
            continue
        texts = [src] + seg_texts(segs)
        if any(k not in known for k, _ in env_for(texts)[len(ENV):]) or '@[é]@' in ''.join(texts):
            continue
        return segs, ut
    return [('tok', [('N', 'd')], ' '), ('tok', [('N', '=')], ' '), ('tok', [('N', '{')], '\n'), ('tok', [('N', '}')], '')], None


def dir_e2e_case(e2e, segs, ut):
    src = render_segs(segs) + render_unterm(ut)
    n_files = sum(1 for g in segs if g[0] == 'str' and not g[1]) - (1 if ut is not None else 0)
    obs = e2e.run_dir(src, n_files)
    if obs[0] == 'files':
        co = '(EFiles %s %s)' % (c_list([ctext(x) for x in obs[1]], 'text'), cbool(obs[2]))
    elif obs[0] == 'syntax':
        co = '(ESyntax %s)' % cbool(obs[1])
    else:
        co = 'EOther'
    term = '(CScriptE2E %s %s %s (%s, %s, %s) %s)' % (c_oracle(src + env_chars(E2E_ENV)), c_env(E2E_ENV), ctext(src), ctext(''),
                                                     c_list([c_seg(g) for g in segs], 'sseg'), c_unterm(ut), co)
    info = {'kind': 'dir-e2e', 'source': 'dir ' + src, 'structure': ('', segs, ut), 'observed': obs, 'symbols': E2E_ENV}
    if obs[0] != 'files':
        # the same text through the parsers on one stream, to see WHERE it deviates (used for known-finding predicates only)
        im = e2e.im
        pobs, pexn = im.script(src, [seg_op(g) for g in segs] + (['string'] if ut is not None else []), E2E_ENV)
        info['parser_level'] = (pobs, pexn)
        info['lexer_past_eof_before_op'] = im.sticky_at
    return term, info


# ---------------------------------------------------------------------------------------------
# known findings: predicates on the INPUT
# ---------------------------------------------------------------------------------------------
def py_subst(s, env_d):
    """substitution of @[NAME]@ in s, leftmost first (harness-side reference, only used to decide whether a failure is
    the known finding)"""
    out, i = [], 0
    while i < len(s):
        if s.startswith('@[', i):
            j = i + 2
            while j < len(s) and (s[j].isalnum() or s[j] == '_'):
                j += 1
            if j > i + 2 and s.startswith(']@', j) and s[i + 2:j] in env_d:
                out.append(env_d[s[i + 2:j]])
                i = j + 2
                continue
        out.append(s[i])
        i += 1
    return ''.join(out)


def first_char_rule(t, env_d):
    """what the known defect gives for a token: the quoting of the FIRST fragment decides for the whole token"""
    return chars_tok(t) if t[0][0] == 'H' else py_subst(chars_tok(t), env_d)


def is_mixed(t):
    """fragments of at least two different quoting kinds"""
    return len({k for k, _ in t}) >= 2


def first_char_splice(t):
    """the known defect, for list elements: a token that BEGINS naked and whose characters are one reference to a list
    symbol is treated as a bare reference (spliced) although quoted fragments are part of it"""
    s = chars_tok(t)
    if t[0][0] == 'N' and s.startswith('@[') and s.endswith(']@') and s[2:-2] in LISTS_D and all(is_ident(c) for c in s[2:-2]):
        return LISTS_D[s[2:-2]]
    return None


def splice_of(t):
    """the list a written element is replaced by: a naked token that is exactly one reference to a list symbol"""
    s = chars_tok(t)
    if all(k == 'N' for k, _ in t) and s.startswith('@[') and s.endswith(']@') and s[2:-2] in LISTS_D \
            and all(is_ident(c) for c in s[2:-2]):
        return LISTS_D[s[2:-2]]
    return None


def doc_value(t, env_d):
    """harness-side copy of the documented value of a string token (reading A: hard-quoted characters literal, the rest
    joined across fragments and substituted); used ONLY to decide whether a failure is fully explained by the known finding"""
    out, cur = [], ''
    for k, x in t:
        if k == 'H':
            out.append(py_subst(cur, env_d))
            cur = ''
            out.append(x)
        else:
            cur += x
    out.append(py_subst(cur, env_d))
    return ''.join(out)


def kf1_applies(tokens, resolved, env):
    """KF-C09-1 explains the failure: every written token has its documented value, except tokens with fragments of at least
    two quoting kinds whose observed value is exactly what the first-character rule gives (at least one such token); elements
    are aligned with the written tokens (a wholly naked reference to a list symbol takes the list's elements)"""
    hit = False
    env_d = dict(env)
    i = 0
    for t in tokens:
        sp = splice_of(t)
        if sp is not None:
            if resolved[i:i + len(sp)] != sp:
                return False
            i += len(sp)
            continue
        fs = first_char_splice(t) if is_mixed(t) else None
        if fs is not None and resolved[i:i + len(fs)] == fs and not (len(fs) == 1 and fs[0] == doc_value(t, env_d)):
            hit = True
            i += len(fs)
            continue
        if i >= len(resolved):
            return False
        if resolved[i] == doc_value(t, env_d):
            pass
        elif is_mixed(t) and resolved[i] == first_char_rule(t, env_d):
            hit = True
        else:
            return False
        i += 1
    return hit and i == len(resolved)


# ---------------------------------------------------------------------------------------------
# tables regenerated from the running code (T)
# ---------------------------------------------------------------------------------------------
def gen_tables(ctx):
    common.source_tie('C09')  # small pure functions translated from the source and proved equal to the model (DESIGN 12.8)
    import sys
    from exactly_lib.definitions.test_case import reserved_words
    from exactly_lib.type_val_deps.types.list_ import defs as list_defs
    from exactly_lib.impls.types.string_ import syntax_elements as se
    from exactly_lib.definitions.primitives import string as string_defs
    from exactly_lib.symbol import symbol_syntax
    from exactly_lib.util.parse import token as token_mod
    from exactly_lib.util.cli_syntax import option_syntax
    from exactly_lib.impls.types.program import syntax_elements as pse
    spaces = [c for c in range(sys.maxunicode + 1) if chr(c).isspace()]
    stripped = [c for c in range(sys.maxunicode + 1) if chr(c).strip() == '']
    assert spaces == stripped
    facts = [not ch.isalnum() for ch in '@[]']
    txt = ('(* GENERATED on every run by harness/c09.py from the running code under /repo/src and the running Python. '
           'Do not edit. *)\nFrom Coq Require Import NArith List Bool.\nFrom Exactly Require Import Model.Tok Spec.C09.\n'
           'Import ListNotations.\nLocal Open Scope N_scope.\n\n'
           'Definition gen_py_space_chars : list N := %s.\n'
           'Definition gen_reserved_tokens : list text := %s.\n'
           'Definition gen_continuation_token : text := %s.\n'
           'Definition gen_stop_at : text := %s.\n'
           'Definition gen_text_until_eol_marker : text := %s.\n'
           'Definition gen_here_doc_prefix : text := %s.\n'
           'Definition gen_here_doc_re : list N := %s.\n'
           'Definition gen_sym_ref_delims : text * text := (%s, %s).\n'
           'Definition gen_quote_chars : N * N := (%s, %s).\n'
           'Definition gen_alnum_of_delims : list bool := %s.  (* str.isalnum of @ [ ] *)\n'
           'Definition gen_arg_path_options : list text := %s.\n\n'
           % (clist([cN(c) for c in spaces]), clist([ctext(w) for w in reserved_words.RESERVED_TOKENS]),
              ctext(list_defs.CONTINUATION_TOKEN), ctext(list_defs.STOP_AT_CHAR), ctext(se.TEXT_UNTIL_EOL_MARKER),
              ctext(string_defs.HERE_DOCUMENT_MARKER_PREFIX), ctext(string_defs.HERE_DOCUMENT_TOKEN_RE.pattern),
              ctext(symbol_syntax.SYMBOL_REFERENCE_BEGIN), ctext(symbol_syntax.SYMBOL_REFERENCE_END),
              cN(ord(token_mod.SOFT_QUOTE_CHAR)), cN(ord(token_mod.HARD_QUOTE_CHAR)),
              clist([cbool(ch.isalnum()) for ch in '@[]']),
              clist([ctext(option_syntax.long_option_syntax(o.long)) for o in (pse.EXISTING_FILE_OPTION_NAME, pse.EXISTING_DIR_OPTION_NAME,
                                                                              pse.EXISTING_PATH_OPTION_NAME)])))
    txt += ('Lemma gen_py_space_matches_model : gen_py_space_chars = py_space_chars.\nProof. vm_compute. reflexivity. Qed.\n'
            'Lemma gen_reserved_matches_model : gen_reserved_tokens = reserved_tokens.\nProof. vm_compute. reflexivity. Qed.\n'
            'Lemma gen_reserved_matches_manual : gen_reserved_tokens = spec_reserved.\nProof. vm_compute. reflexivity. Qed.\n'
            'Lemma gen_arg_options_match : gen_arg_path_options = existing_path_options /\\ gen_arg_path_options = arg_option_like.\n'
            'Proof. vm_compute. split; reflexivity. Qed.\n'
            'Lemma gen_constants_match_model :\n'
            '  gen_continuation_token = [BSL] /\\ gen_stop_at = [41] /\\ gen_text_until_eol_marker = [58; 62] /\\\n'
            '  gen_here_doc_prefix = [60; 60] /\\ gen_sym_ref_delims = ([AT; LBR], [RBR; AT]) /\\ gen_quote_chars = (DQ, SQ) /\\\n'
            '  gen_here_doc_re = [40;60;60;41;40;91;48;45;57;97;45;122;65;45;90;95;45;93;43;41] /\\\n'
            '  gen_alnum_of_delims = [false; false; false].\n'
            'Proof. vm_compute. repeat split; reflexivity. Qed.\n')
    common.write_if_changed(os.path.join(common.COQ, 'Gen', 'C09_tables.v'), txt)


# ---------------------------------------------------------------------------------------------
# cases
# ---------------------------------------------------------------------------------------------
def tok_case(im, src, st):
    toks, fin = im.tokens(src)
    ct = c_list(['(TokObs %s %s %s %s %s)' % (ty, ctext(s), ctext(ss), cnat(p), cnat(t)) for ty, s, ss, p, t in toks], 'tokobs')
    if fin[0] == 'raise':
        cf = '(EndRaise %s)' % c_exn(fin[1])
    else:
        cf = '(%s %s %s)' % ('EndNull' if fin[0] == 'null' else 'EndSyntaxError', cnat(fin[1]), cnat(fin[2]))
    cs = 'None' if st is None else '(Some (%s, %s, %s))' % (ctext(st[0]), c_items(st[1]), c_unterm(st[2]))
    term = '(CTokens %s %s %s %s)' % (ctext(src), cs, ct, cf)
    return term, {'kind': 'tokens', 'source': src, 'structure': st, 'tokens': toks, 'end': fin}


def texts_of_rich(src, st):
    if st is None:
        return [src]
    r = st[1]
    if r[0] == 'plain':
        return [src] + [chars_tok(t) for t, _ in r[1]]
    return [src]


def parse_case(im, kind, src, st):
    env = env_for(texts_of_rich(src, st))
    obs = im.parse(kind, src, env)
    if obs[0] == 'ok':
        co = '(PObs %s %s %s)' % (c_fragments(obs[1]), ctext(obs[2]), cnat(obs[3]))
    else:
        co = '(PExn %s)' % c_exn(obs[1])
    cs = 'None' if st is None else '(Some (%s, %s))' % (ctext(st[0]), c_rich(st[1]))
    term = '(CParse %s %s %s %s %s %s)' % ('KString' if kind == 'string' else 'KRich', c_oracle(src + env_chars(env)), c_env(env),
                                           ctext(src), cs, co)
    return term, {'kind': 'parse-' + kind, 'source': src, 'structure': st, 'observed': obs, 'symbols': env}


def with_unterm(rng, l, p=0.1):
    """(list structure, unterminated quote after it or None): an unterminated quote can only follow a list that is not
    stopped by a parenthesis and not followed by a new-line"""
    if not rng.chance(p):
        return l, None
    items = list(l[0])
    if items and items[-1][0] == 'tok' and not items[-1][2]:
        items[-1] = ('tok', items[-1][1], ' ')
    return (items, None, None), gen_unterm(rng)


def list_case(im, src, st, is_args=False):
    if st is not None and len(st) == 2:
        st = (st[0], st[1], None)
    env = env_for([src] + ([chars_tok(i[1]) for i in st[1][0] if i[0] == 'tok'] if st is not None else []))
    obs = im.list(src, env, is_args)
    if obs[0] == 'ok':
        els = ['(ESym %s)' % ctext(e[1]) if e[0] == 'sym' else '(EStr %s)' % c_fragments(e[1]) for e in obs[1]]
        co = '(LObs %s %s %s)' % (c_list(els, 'element'), c_list([ctext(x) for x in obs[2]], 'text'), cnat(obs[3]))
    else:
        co = '(LExn %s)' % c_exn(obs[1])
    cs = 'None' if st is None else '(Some (%s, %s, %s))' % (ctext(st[0]), c_slist(st[1]), c_unterm(st[2]))
    term = '(CList %s %s %s %s %s %s %s)' % (cbool(is_args), c_oracle(src + env_chars(env)), c_env(env), c_lsyms(), ctext(src), cs, co)
    return term, {'kind': 'args' if is_args else 'list', 'source': src, 'structure': st, 'observed': obs, 'symbols': env,
                  'list_symbols': LISTS}


def split_case(im, s):
    frs = im.split(s)
    return '(CSplit %s %s %s)' % (c_oracle(s), ctext(s), c_fragments(frs)), {'kind': 'split', 'text': s, 'observed': frs}


def finding_of(info):
    """id of the known finding whose predicate the failing input satisfies, or None"""
    k = info['kind']
    obs = info.get('observed')
    if k == 'tokens' or (obs is not None and obs[0] == 'raise'):
        return None
    st = info.get('structure')
    if st is None or obs is None:
        return None
    if k in ('parse-string', 'parse-rich') and st[1][0] == 'plain' and st[1][1]:
        return KF1 if kf1_applies([st[1][1][0][0]], [obs[2]], info['symbols']) else None
    if k == 'parse-file' and st[1][0] == 'plain' and st[1][1] and obs[0] == 'file' and obs[2]:
        return KF1 if kf1_applies([st[1][1][0][0]], [obs[1]], info['symbols']) else None
    if k in ('list', 'args'):
        toks = [i[1] for i in st[1][0] if i[0] == 'tok']
        return KF1 if kf1_applies(toks, obs[2], info['symbols']) else None
    if k in ('script', 'dir-e2e') and obs is not None:
        segs, ut = st[1], st[2]
        env_d = dict(info['symbols'])
        if k == 'script':
            pobs, pexn = obs
        elif obs[0] == 'files':
            if not obs[2]:
                return None
            rich = [g for g in segs if g[0] in ('eol', 'here') or (g[0] == 'str' and g[1])]
            if ut is not None or len(rich) != len(obs[1]):
                return None
            for g, v in zip(rich, obs[1]):
                if g[0] == 'eol' and v != py_subst(g[2].strip(), env_d):
                    return None
                if g[0] == 'here' and v != py_subst(''.join(l + '\n' for l in g[3]), env_d):
                    return None
            strs = [(g[2], v) for g, v in zip(rich, obs[1]) if g[0] == 'str']
            return KF1 if strs and kf1_applies([t for t, _ in strs], [v for _, v in strs], info['symbols']) else None
        elif obs[0] == 'syntax' and 'parser_level' in info:
            pobs, pexn = info['parser_level']
        else:
            return None

        def doc_ok(g, o, allow_kf1):
            if g[0] == 'tok':
                return o[0] == 'tok' and o[1] is not None and (o[1][1], o[1][2]) == (chars_tok(g[1]), render_tok(g[1]))
            if o[0] != 'str':
                return False
            if g[0] == 'eol':
                return o[2] == py_subst(g[2].strip(), env_d)
            if g[0] == 'here':
                return o[2] == py_subst(''.join(l + '\n' for l in g[3]), env_d)
            return o[2] == doc_value(g[2], env_d) or (allow_kf1 and is_mixed(g[2]) and o[2] == first_char_rule(g[2], env_d))

        if k == 'script' and ut is None and pexn is None and len(pobs) == len(segs) and all(doc_ok(g, o, True) for g, o in zip(segs, pobs)):
            return KF1 if any(not doc_ok(g, o, False) for g, o in zip(segs, pobs)) else None
        if k == 'script' and ut is not None and pexn is not None and len(pobs) == len(segs) and all(doc_ok(g, o, True) for g, o in zip(segs, pobs)):
            return KF1 if any(not doc_ok(g, o, False) for g, o in zip(segs, pobs)) else None
        return None
    if k == 'args-e2e':
        toks = [i[1] for i in st[1][0] if i[0] == 'tok']
        return KF1 if obs[0] == 'argv' and kf1_applies(toks, obs[1], info['symbols']) else None
    return None


CORPUS_TOK = [
    ('', [([('N', 'a#b')], ' '), ([('N', 'c')], '')], None),            # FIX-C09-1: '#' no longer starts a comment
    ('', [([('N', 'a')], ' '), ([('N', '#b')], ' '), ([('N', 'c')], '\n'), ([('N', 'd')], '')], None),
    ('', [([('N', 'a'), ('S', 'b c'), ('N', 'd')], ' '), ([('N', 'e')], '')], None),
    ('', [([('S', 'a')], '\n'), ([('N', 'b')], '')], None),
    (' ', [([('N', 'a')], ' ')], ([], "'", 'b')),
]
CORPUS_PARSE = [
    ('rich', '', ('plain', [([('N', 'a#b')], '')], None)),
    ('rich', '', ('plain', [([('S', 'A'), ('H', '@[X]@')], '')], None)),      # KF-C09-1 (Appendix A5)
    ('rich', '', ('plain', [([('H', 'A'), ('S', '@[X]@')], '')], None)),      # KF-C09-1, the other direction
    ('rich', '', ('plain', [([('N', '@['), ('H', 'X'), ('N', ']@')], '')], None)),
    ('string', '', ('plain', [([('N', '@[@[X]@')], ' '), ([('N', 'b')], '')], None)),
    ('rich', ' ', ('here', 'EOF', '', ['abc', '\xa0'], ('end', ''))),     # FIX-C09-2 (repaired)
    ('rich', '', ('here', 'EOF', '', ['[setup]', '# c', 'EOF ', ' EOF', '<<EOF', "it's"], ('end', 'next\n'))),
    ('rich', '', ('here', 'EOF', ' ', ['a'], ('missing', None))),
    ('rich', '', ('eol', ' ', " it's @[X]@ 'q' ", 'next\n')),
]
CORPUS_LIST = [
    ('', ([('tok', [('N', 'a')], ' '), ('tok', [('N', '\\')], ' '), ('tok', [('N', 'b')], ' '), ('tok', [('H', 'c d')], '')], None, 'next\n')),
    ('', ([('tok', [('N', 'x')], ' '), ('cont', '', ''), ('tok', [('N', 'y')], '')], None, None)),
    (' ', ([('tok', [('N', '@[X]@')], ' '), ('tok', [('S', '@[X]@')], ' ')], ' rest', 'z')),
]


def _arg(kind, text, sep=' '):
    return ('tok', [(kind, text)], sep)


CORPUS_ARGS = [
    # a soft-quoted reference is ONE string whatever it references; a naked reference to a list is spliced (seeded C09-m4)
    ([_arg('N', 'first'), _arg('S', '@[L]@'), _arg('N', 'last', '')], None, None),
    ([_arg('N', '@[L]@'), _arg('S', 'a @[L]@ b'), _arg('H', '@[L]@'), _arg('S', '@[X]@'), _arg('N', '@[X]@'), _arg('N', 'x@[L]@'),
      _arg('S', '@[NIL]@'), _arg('N', '@[NIL]@'), _arg('S', '@[ONE]@'), _arg('S', '', '')], None, None),
    ([_arg('N', 'a'), _arg('N', '\\'), _arg('N', 'b'), _arg('H', 'c d', '')], None, None),
    ([_arg('N', 'a#b'), _arg('N', '#'), _arg('N', '-x', '')], None, None),
]
def _t(kind, text):
    return [(kind, text)]


# an unterminated quote where tokens are consumed in a loop (seeded C09-m5)
CORPUS_ARGS_UT = [
    (([_arg('N', 'a')], None, None), ([], "'", 'b')),
    (([], None, None), ([], '"', 'a b')),
    (([_arg('N', 'a'), _arg('N', 'b')], None, None), ([('N', 'x')], "'", '')),
]
_D_OPEN = [('tok', _t('N', 'd'), ' '), ('tok', _t('N', '='), ' '), ('tok', _t('N', '{'), '\n  ')]
_D_CLOSE = [('tok', _t('N', '}'), '\n')] + [('tok', t, sp) for t, sp in E2E_NEXT_ITEMS]


def _entry(i, g):
    return [('tok', _t('N', 'file'), ' '), ('str', False, _t('N', 'a%d' % i), ' '), ('tok', _t('N', '='), ' '), g]


# tokens AFTER raw text with a lone quote in its first word, in the same stream (seeded C09-m6)
CORPUS_DIR = [
    (_D_OPEN + _entry(0, ('eol', ' ', '\xa0', '  ')) + _entry(1, ('str', True, _t('N', 'x'), '\n')) + _D_CLOSE, None),     # FIX-C09-4 repro k4
    (_D_OPEN + _entry(0, ('eol', ' ', "it's", '  ')) + _entry(1, ('str', True, _t('N', 'hello'), '\n')) + _D_CLOSE, None),
    (_D_OPEN + _entry(0, ('here', 'EOF', '', ["it's", 'don"t'], '  ')) + _entry(1, ('eol', ' ', 'x @[X]@', '')) + _D_CLOSE, None),
    (_D_OPEN + _entry(0, ('str', True, _t('S', '@[L]@'), '\n  ')) + _entry(1, None)[:3], ([], "'", 'abc')),
]
CORPUS_SCRIPT = [
    # FIX-C09-3 (repaired a75c6db): the quote of a here-document line is closed by the LAST character of the source
    ('', [('here', 'E', '', ["'"], ''), ('tok', _t('N', 'b'), '\n'), ('eol', ' ', "y'", None)], None),
    ('', [('eol', ' ', "it's", ''), ('str', True, _t('N', 'b'), ' '), ('tok', _t('N', 'x'), ' '), ('eol', ' ', "done'", None)], None),
    # FIX-C09-4 (repaired fbeae85): a :> text that is blank for Python but is a word for the lexer
    ('', [('eol', ' ', '\xa0', ''), ('tok', _t('N', 'file'), ' '), ('str', True, _t('N', 'x'), '')], None),
    ('', [('eol', ' ', '\x0b\x0c', ' '), ('str', False, _t('N', 'b'), '')], None),
    ('', [('tok', _t('N', 'file'), ' '), ('str', False, _t('N', 'a'), ' '), ('tok', _t('N', '='), ' '), ('eol', ' ', "it's", '  '),
          ('tok', _t('N', 'file'), ' '), ('str', False, _t('N', 'b'), ' '), ('tok', _t('N', '='), ' '), ('str', True, _t('N', 'hello'), '\n'),
          ('tok', _t('N', '}'), '')], None),
    ('', [('here', 'EOF', '', ["don't", '"'], ' '), ('tok', _t('N', '-stdin'), ' '), ('eol', ' ', "'", ''), ('str', True, _t('S', 'a b'), '')], None),
    (' ', [('tok', _t('N', 'a'), ' '), ('eol', ' ', 'x', '')], ([], "'", 'b')),
]
CORPUS_E2E = [
    ('plain', [([('S', '@[L]@')], '\n')] + E2E_NEXT_ITEMS, None),                                  # seeded C09-m4: one string
    ('plain', [([('S', 'a @[L]@ b@[NIL]@')], '\n')] + E2E_NEXT_ITEMS, None),
    ('plain', [([('N', 'a#b')], '\n')] + E2E_NEXT_ITEMS, None),                                   # Appendix A4 (repaired)
    ('plain', [([('S', 'A'), ('H', '@[X]@')], '\n')] + E2E_NEXT_ITEMS, None),                      # Appendix A5: KF-C09-1
    ('here', 'EOF', '', ['abc', '\xa0'], ('end', E2E_NEXT)),                                     # FIX-C09-2 repro t1
    ('here', 'EOF', '', ['[setup]', '# c', 'EOF ', ' EOF', '<<EOF', "it's", '@[X]@'], ('end', E2E_NEXT)),
    ('here', 'EOF', '', ['a'], ('missing', None)),
    ('plain', [], ([], "'", 'abc')),
    ('eol', ' ', "it's @[Y]@ #x ", E2E_NEXT),
]


def run(ctx, res):
    rng = ctx.rng
    q = ctx.quick
    n_tok, n_soup, n_str, n_rich, n_list, n_split, n_psoup, n_e2e, n_script = (
        (1500, 800, 800, 2000, 1200, 800, 500, 200, 1200) if q else (15000, 8000, 8000, 20000, 12000, 8000, 5000, 2500, 12000))
    im = Impl()
    cases = []  # (term, info, nontrivial-key or None)

    def add(term_info, key):
        cases.append((term_info[0], term_info[1], key))
        res.count(term_info[1]['kind'])

    # token streams
    for j in range(len(CORPUS_TOK) + n_tok):
        if j < len(CORPUS_TOK):
            lead, items, u = CORPUS_TOK[j]
        else:
            lead = rng.choice(['', '', ' ', '\n', ' \t'])
            items = gen_items(rng, 0, 5)
            u = gen_unterm(rng) if rng.chance(0.12) else None
            if u is not None and items and not items[-1][1]:
                items[-1] = (items[-1][0], rng.choice(SEPS))
        src = lead + render_items(items) + render_unterm(u)
        nt = any(len(t) >= 2 and len({k for k, _ in t}) >= 2 for t, _ in items) or u is not None
        add(tok_case(im, src, (lead, items, u)), ('tok', src) if nt else None)
        if u is not None:
            res.count('tokens: unterminated quote')
    for _ in range(n_soup):
        src = gen_soup(rng)
        add(tok_case(im, src, None), None)
    # strings / rich strings
    for j in range(len(CORPUS_PARSE) + n_str + n_rich):
        if j < len(CORPUS_PARSE):
            kind, lead, r = CORPUS_PARSE[j]
        else:
            kind = 'string' if j < len(CORPUS_PARSE) + n_str else 'rich'
            lead = rng.choice(['', '', ' ', '\n', ' \t']) if kind == 'string' else rng.choice(['', '', ' ', '  ', '\t'])
            r = gen_rich(rng, kind)
        src = lead + render_rich(r)
        nt = r[0] != 'plain' or (r[1] and len(r[1][0][0]) >= 2) or '@[' in src
        add(parse_case(im, kind, src, (lead, r)), (kind, src) if nt else None)
        res.count('rich form: ' + r[0])
    for _ in range(n_psoup):
        src = gen_soup(rng)
        if rng.chance(0.5):
            src = rng.choice(['<<EOF', '<<E', ':>', '<<', '<<E.F']) + src + rng.choice(['', '\nEOF', '\nE\n', '\nEOF\n'])
        add(parse_case(im, rng.choice(['string', 'rich']), src, None), None)
    # lists
    for j in range(len(CORPUS_LIST) + n_list):
        if j < len(CORPUS_LIST):
            lead, l = CORPUS_LIST[j]
            ut = None
        else:
            lead = rng.choice(['', '', ' ', '\t '])
            l, ut = with_unterm(rng, gen_list(rng))
        src = lead + render_list(l) + render_unterm(ut)
        nt = len(l[0]) >= 2 or ut is not None
        add(list_case(im, src, (lead, l, ut)), ('list', src) if nt else None)
        if ut is not None:
            res.count('list: unterminated quote')
    for _ in range(n_psoup // 2):
        add(list_case(im, gen_soup(rng), None), None)
    # program arguments at parser level
    for j in range(len(CORPUS_ARGS) + n_list // 2):
        if j < len(CORPUS_ARGS):
            lead, l, ut = ' ', CORPUS_ARGS[j], None
        elif j < len(CORPUS_ARGS) + len(CORPUS_ARGS_UT):
            lead, (l, ut) = ' ', CORPUS_ARGS_UT[j - len(CORPUS_ARGS)]
        else:
            lead = rng.choice(['', ' ', '\t '])
            l, ut = with_unterm(rng, gen_args(rng))
        src = lead + render_list(l) + render_unterm(ut)
        add(list_case(im, src, (lead, l, ut), is_args=True), ('args', src) if (len(l[0]) >= 2 or ut is not None) else None)
    # a fully quoted word that is spelled like an option of the grammar is literal text: every option word of the running
    # program, hard- and soft-quoted, at every string / list-element / program-argument position (seeded C09-m12)
    for w in option_words():
        for q in 'HS':
            t = [(q, w)]
            l = ([_arg('N', 'a'), ('tok', t, ' '), _arg('N', 'b', '')], None, None)
            add(list_case(im, ' ' + render_list(l), (' ', l, None), is_args=True), ('args', q, w))
            add(list_case(im, render_list(l), ('', l, None)), ('list', q, w))
            add(parse_case(im, 'rich', render_tok(t) + ' b', ('', ('plain', [(t, ' '), ([('N', 'b')], '')], None))), ('rich', q, w))
            add(parse_case(im, 'string', render_tok(t), ('', ('plain', [(t, '')], None))), ('string', q, w))
            add(script_case(im, '', [('tok', t, ' '), ('str', True, t, ' '), ('str', False, t, '')], None), ('script', q, w))
            res.count('quoted option word')
    # values that begin with << or :> written as adjacent fragments in every split / quoting: one string whatever the split,
    # and the lines that follow are not swallowed (seeded C09-m14)
    follow = [([('N', 'line')], '\n'), ([('N', 'EOF')], '\n'), ([('N', 'E')], '\n'), ([('N', 'next')], '\n')]
    for t in rich_significant_tokens():
        src_t = render_tok(t)
        add(parse_case(im, 'string', src_t + '\n' + render_items(follow), ('', ('plain', [(t, '\n')] + follow, None))), ('string', src_t))
        l = ([_arg('N', 'a'), ('tok', t, ' '), _arg('N', 'c', '')], None, 'EOF\nnext\n')
        if not (t[0][0] == 'N' and chars_tok(t) == ')'):
            add(list_case(im, render_list(l), ('', l, None)), ('list', src_t))
        if is_plain_for_rich(t):
            add(parse_case(im, 'rich', src_t + '\n' + render_items(follow), ('', ('plain', [(t, '\n')] + follow, None))), ('rich', src_t))
            add(list_case(im, ' ' + render_list(l), (' ', l, None), is_args=True), ('args', src_t))
            add(script_case(im, '', [('str', True, t, '\n'), ('tok', [('N', 'line')], '\n'), ('tok', [('N', 'EOF')], '\n'),
                                     ('str', True, t, ' '), ('tok', [('N', 'c')], '')], None), ('script', src_t))
        res.count('value beginning with << or :> in fragments')
    # several strings / tokens in one stream
    for j in range(len(CORPUS_SCRIPT) + n_script):
        if j < len(CORPUS_SCRIPT):
            lead, segs, ut = CORPUS_SCRIPT[j]
        else:
            lead = rng.choice(['', ' ', '\n'])
            segs, ut = gen_segs(rng)
        add(script_case(im, lead, segs, ut), ('script', lead + render_segs(segs) + render_unterm(ut)))
        res.count('script: segments %d' % len(segs))
    # split
    for _ in range(n_split):
        s = ''.join(rng.choice(REFP if rng.chance(0.6) else WORDS + [' ']) for _ in range(rng.randint(0, 6)))
        add(split_case(im, s), ('split', s) if s.count('@[') >= 2 else None)

    # end to end
    root = tempfile.mkdtemp(prefix='e2e-', dir=ctx.work)
    try:
        e2e = E2E(root)
        for st in CORPUS_E2E + [gen_e2e(rng) for _ in range(n_e2e)]:
            add(e2e_case(e2e, st), ('e2e', render_rich(st)))
            res.count('end to end: ' + st[0])
        arg_lists = [(l, None) for l in CORPUS_ARGS] + CORPUS_ARGS_UT + [(gen_args(rng, e2e=True), None) for _ in range(n_e2e)]
        for j, (l, ut) in enumerate(arg_lists):
            if any(i[0] != 'tok' for i in l[0]) or l[1] is not None or l[2] is not None:
                l = ([i for i in l[0] if i[0] == 'tok'], None, None)
            if j >= len(CORPUS_ARGS) + len(CORPUS_ARGS_UT) and rng.chance(0.12):
                l, ut = with_unterm(rng, l, 1.0)
                ut = (ut[0], ut[1], ut[2].replace('\n', ' ').replace('\r', ' '))
                if '\n' in render_unterm(ut) or '\r' in render_unterm(ut) or '@[' in render_unterm(ut):
                    ut = ([], "'", 'b c')
            via_list = j % 3 == 2
            add(args_e2e_case(e2e, l, ut, via_list), ('args-e2e', via_list, render_list(l) + render_unterm(ut)))
            res.count('end to end: ' + ('def list + argv' if via_list else 'argv') + (' (unterminated quote)' if ut is not None else ''))
        for j, w in enumerate(option_words()):
            q = 'HS'[j % 2]
            add(e2e_case(e2e, ('plain', [([(q, w)], '\n')] + E2E_NEXT_ITEMS, None)), ('e2e', q, w))
            add(args_e2e_case(e2e, ([_arg('N', 'a'), ('tok', [('SH'[j % 2], w)], ' '), _arg('N', 'b', '')], None, None)),
                ('args-e2e', w))
            res.count('end to end: quoted option word')
        sig = [t for t in rich_significant_tokens() if is_plain_for_rich(t) and len(t) >= 2 and '@[' not in chars_tok(t)
               and render_tok(t)[0] not in '-(']
        for j, t in enumerate(sig):
            if j % 3 == 0:
                add(e2e_case(e2e, ('plain', [(t, '\n')] + E2E_NEXT_ITEMS, None)), ('e2e', render_tok(t)))
            elif j % 3 == 1 and ' ' not in chars_tok(t):
                add(args_e2e_case(e2e, ([_arg('N', 'a'), ('tok', t, ' '), _arg('N', 'c', '')], None, None)), ('args-e2e', render_tok(t)))
        for j in range(len(CORPUS_DIR) + n_e2e // 2):
            segs, ut = CORPUS_DIR[j] if j < len(CORPUS_DIR) else gen_dir(rng)
            add(dir_e2e_case(e2e, segs, ut), ('dir-e2e', render_segs(segs) + render_unterm(ut)))
            res.count('end to end: dir FILE-LIST' + (' (unterminated quote)' if ut is not None else ''))
    finally:
        shutil.rmtree(root, ignore_errors=True)

    res.evaluations = len(cases)
    res.rule = ('structures (1-4 fragments per token, naked/soft/hard in every order; separators space, tab, CR, LF; reserved words, '
                'option-like words, #, backslash, <<, :>, non-ASCII incl. alphanumeric non-ASCII and Unicode white space; '
                'symbol-reference pieces @[ ]@ @[X]@ and near-misses; unterminated quotes; here-documents whose lines resemble '
                'markers, headers, comments; lists and program arguments with continuation lines and a stopping parenthesis; string AND '
                'list symbols referenced naked, soft-quoted alone / with surrounding text, hard-quoted; every option word of the running '
                'program fully quoted (hard / soft) at every string, list-element and argument position; end to end: contents of '
                '`file f = ...` and argv of a probe program) rendered to text, plus '
                'unstructured character soup. non-trivial := token with >= 2 differently quoted fragments / unterminated quote '
                '/ symbol-reference syntax present / :> or here-document form / list with >= 2 items / text with >= 2 "@["; '
                'distinct := distinct source text per parser')
    for _, info, key in cases:
        if key is not None:
            res.nontrivial.add(key)
    res.samples = [{k: v for k, v in cases[i][1].items() if k in ('kind', 'source', 'observed', 'tokens', 'end')}
                   for i in (len(CORPUS_TOK) + 3, len(CORPUS_TOK) + n_tok + n_soup + 2,
                             len(CORPUS_TOK) + n_tok + n_soup + len(CORPUS_PARSE) + n_str + 5) if i < len(cases)]
    evaluate(cases, res)


def evaluate(cases, res, tag='cases'):
    cb, pb, errs = common.run_shards('C09', ['Model.Tok', 'Spec.C09'], 'check_case', [c[0] for c in cases], tag=tag)
    res.errors += errs
    for i in pb:
        info = cases[i][1]
        res.prop_failures.append(Failure('property', info,
                                         'the observed tokens / value / elements / position differ from what the documented syntax '
                                         'gives for the structure the source was written from', finding=finding_of(info)))
    for i in cb:
        info = cases[i][1]
        res.disagreements.append(Failure('correspondence', info, 'model (Model/Tok.v) differs from the implementation, or the '
                                                                 'harness rendering differs from the Coq rendering / is not well-formed'))


def _tokens_of(info):
    st = info.get('structure')
    if not st:
        return []
    k = info['kind']
    if k == 'tokens':
        return [t for t, _ in st[1]]
    if k in ('list', 'args', 'args-e2e'):
        return [i[1] for i in st[1][0] if i[0] == 'tok']
    if k.startswith('parse-') and st[1][0] == 'plain':
        return [t for t, _ in st[1][1]]
    return []


def _variants(t):
    """the token, the token with its references redirected to list / string symbols, its fragments alone in every quoting"""
    import re
    out = [t]
    for name in ('L', 'ONE', 'NIL', 'X'):
        out.append([(k, re.sub(r'@\[[^\]@\s\'"]*\]@', '@[%s]@' % name, x)) for k, x in t])
    for k, x in t:
        for k2 in 'NSH':
            y = x
            if k2 == 'N':
                y = ''.join(c for c in x if not c.isspace() and c not in '\'"')
                if not y:
                    continue
            elif k2 == 'S':
                y = x.replace('"', '')
            else:
                y = x.replace("'", '')
            out.append([(k2, y)])
    seen, res_ = set(), []
    for v in out:
        key = repr(v)
        if key not in seen and render_tok(v):
            seen.add(key)
            res_.append(v)
    return res_


def search(ctx, res):
    """failing-input search (a proof obligation or the correspondence broke, no property failure seen yet).
    1. concentrated: the tokens of the disagreeing inputs and their variants, put through every parser and both
       end-to-end forms (file contents, argv of a probe program);  2. the thorough generator with a fresh stream."""
    im = Impl()
    toks = []
    for f in res.disagreements[:60]:
        for t in _tokens_of(f.case):
            toks += _variants(t)
    toks = toks[:400]
    cases = []
    if toks:
        root = tempfile.mkdtemp(prefix='search-', dir=ctx.work)
        try:
            e2e = E2E(root)
            known = {k for k, _ in E2E_ENV}
            for t in toks:
                src = render_tok(t)
                plain_ok = not (src.startswith('<<') or (t[0][0] == 'N' and chars_tok(t) in (':>', '-existing-file', '-existing-dir',
                                                                                          '-existing-path')))
                single = ([('tok', [('S', '\\')] if src == '\\' else ([('S', ')')] if (t[0][0] == 'N' and chars_tok(t) == ')') else t), '')],
                          None, None)
                cases.append(list_case(im, ' ' + render_list(single), (' ', single)) + (None,))
                cases.append(parse_case(im, 'string', src, ('', ('plain', [(t, '')], None))) + (None,))
                if plain_ok:
                    cases.append(list_case(im, ' ' + render_list(single), (' ', single), is_args=True) + (None,))
                    cases.append(parse_case(im, 'rich', src, ('', ('plain', [(t, '')], None))) + (None,))
                    names_ok = not any(k not in known for k, _ in env_for([src, chars_tok(t)])[len(ENV):]) and '@[é]@' not in chars_tok(t)
                    if names_ok and '\n' not in src and '\r' not in src:
                        cases.append(args_e2e_case(e2e, single) + (None,))
                        if src[0] not in '-(' and first_char_splice(t) is None:
                            cases.append(e2e_case(e2e, ('plain', [(t, '\n')] + E2E_NEXT_ITEMS, None)) + (None,))
        finally:
            shutil.rmtree(root, ignore_errors=True)
    r1 = common.Result()
    if cases:
        evaluate(cases, r1, tag='search')
    res.extra['failing_input_search'] = {'concentrated_cases': len(cases), 'concentrated_property_failures': len(r1.prop_failures)}
    open_ids = {f['id'] for f in common.load_known_findings('C09') if f.get('status') == 'open'}
    if any(f.finding not in open_ids for f in r1.prop_failures):
        return r1.prop_failures
    ctx2 = common.Ctx(ctx.prop, 'thorough', ctx.seed + 1)
    r2 = common.Result()
    run(ctx2, r2)
    res.extra['failing_input_search'].update({'thorough_evaluations': r2.evaluations, 'thorough_property_failures': len(r2.prop_failures)})
    return r1.prop_failures + r2.prop_failures


def replay(ctx, payload):
    case = payload.get('case') or (payload.get('correspondence_disagreements') or [{}])[0].get('case')
    print(json.dumps(case, indent=1, default=str))
    if case and 'source' in case:
        im = Impl()
        k = case['kind']
        src = case['source']
        print('implementation now:', im.tokens(src) if k == 'tokens' else im.list(src, case.get('symbols', ENV), k == 'args') if k in ('list', 'args')
              else ('end to end: run the case_file with exactly' if k in ('parse-file', 'args-e2e') else im.parse(k.split('-')[1], src, case.get('symbols', ENV))))
    return 0
