"""C16 — suite run.  (T) tabulates both suite reporters over the 13 kinds of case result (one-case suites, stub case
processor); (D) generates suite hierarchies on disk (plain names, globs, directories with default suite file, repeated and
cyclic references, missing files, syntax errors), assigns every case an outcome by construction, runs
`exactly suite [--reporter junit]` in process and compares with Model/Suite.v."""
import io
import os
import pathlib
import re
import shutil
import tempfile
import types
import xml.etree.ElementTree as ET

import common
from common import Failure, cZ, cN, cnat, cbool, clist, copt
import impl
import c02

TRUSTED_EXTRA = ['harness/py2coq.py (Python->Gallina translator for the small pure functions named in DESIGN 12.8) and coq/Lib/PyVal.v: trusted by the SrcTie theorems only']
EXPLANATION = ('Theorems over the Gallina model of the suite reader / enumerator / executor / two reporters; tables of both '
               'reporters regenerated from the running code; end-to-end correspondence on generated hierarchies.')
ASSUMPTIONS = ['file-system lookups of references (stat, pathlib.glob) are evaluated by the harness to build the model input',
               'suite references are generated in normal form (no .. or symlinks), so path.resolve() is the identity on them']

CHILD = {None: 'JNone', 'failure': 'JFailure', 'error': 'JError'}


def gen_tables(ctx):
    common.source_tie('C16')
    from exactly_lib.test_suite import processing, structure
    from exactly_lib.test_suite.reporters import junit, simple_progress_reporter
    from exactly_lib.processing import test_case_processing as tcp
    from exactly_lib.common.process_result_reporter import Environment, StdOutputFilePrinters
    from exactly_lib.util.file_utils.std import StdOutputFiles
    mk_result = c02.result_maker()
    rows = []
    root = pathlib.Path('/SUITE-ROOT/root.suite')
    conf = types.SimpleNamespace(test_case_definition=None, os_services=None, mem_buff_size=1024, is_keep_sandbox=False,
                                 sandbox_root_dir_resolver=None)
    for r in [('executed', s, False, None) for s in c02.FULL] + [('access', a) for a in c02.ACCESS] + [('internal',)]:
        res = mk_result(r)

        class Stub(tcp.Processor):
            def apply(self, test_case):
                return res

        obs = {}
        for name, rep in (('progress', simple_progress_reporter.SimpleProgressRootSuiteProcessingReporter()),
                          ('junit', junit.JUnitRootSuiteProcessingReporter())):
            out, err = io.StringIO(), io.StringIO()
            files = StdOutputFiles(out, err)
            suite = structure.TestSuiteHierarchy(root, [], None, [], [tcp.test_case_reference_of_source_file(root.parent / 'c.case')])
            ex = processing.SuitesExecutor(rep.execution_reporter(suite, Environment(files, StdOutputFilePrinters.new_plain(files)), root),
                                           conf, lambda c: Stub())
            code = ex.execute_and_report([suite])
            obs[name] = (code, out.getvalue())
        pcode, pout = obs['progress']
        final = pout.strip().splitlines()[-1]
        assert final in ('OK', 'ERROR'), final
        jcode, jout = obs['junit']
        x = ET.fromstring(jout)
        assert x.tag == 'testsuite' and jcode == 0 and x.get('tests') == '1'
        tcs = x.findall('testcase')
        kids = [k.tag for k in tcs[0] if k.tag in ('failure', 'error')]
        assert len(tcs) == 1 and len(kids) <= 1
        rows.append('(%s, (%s, %s, (%s, %s, %s)))' % (c02.c_result(r), cZ(pcode), cbool(final == 'OK'),
                                                      cnat(int(x.get('failures'))), cnat(int(x.get('errors'))),
                                                      CHILD[kids[0] if kids else None]))
    txt = ('(* GENERATED on every run by harness/c16.py from the running code under /repo/src. Do not edit. *)\n'
           'From Coq Require Import ZArith List Bool.\nFrom Exactly Require Import Model.Outcome Model.Suite.\n'
           'Import ListNotations.\n\n'
           'Definition gen_suite_reporters : list (proc_result * (Z * bool * (nat * nat * junit_child))) :=\n  %s.\n' % clist(rows))
    common.write_if_changed(os.path.join(common.COQ, 'Gen', 'C16_tables.v'), txt)


# ---------------------------------------------------------------------------------------------
# case outcomes by construction
# ---------------------------------------------------------------------------------------------
def case_text(kind, marker_cmd):
    m = '[setup]\n%s\n' % marker_cmd
    act = '[act]\n$ true\n'
    t = {
        'PASS': (m + act + '[assert]\nexit-code == 0\n', ('executed', 'PASS', True, 0)),
        'FAIL': (m + act + '[assert]\nexit-code == 1\n', ('executed', 'FAIL', True, 0)),
        'XFAIL': ('[conf]\nstatus = FAIL\n' + m + act + '[assert]\nexit-code == 1\n', ('executed', 'XFAIL', True, 0)),
        'XPASS': ('[conf]\nstatus = FAIL\n' + m + act + '[assert]\nexit-code == 0\n', ('executed', 'XPASS', True, 0)),
        'SKIPPED': ('[conf]\nstatus = SKIP\n' + m + act, ('executed', 'SKIPPED', False, None)),
        'SYNTAX_ERROR(file)': (m + act + '[assert]\nno-such-instruction\n', ('access', 'SYNTAX_ERROR')),
        'SYNTAX_ERROR(act)': (m + '[act]\n"unterminated\n', ('executed', 'SYNTAX_ERROR', False, None)),
        'VALIDATION_ERROR': (m + act + '[cleanup]\nfile f.txt = @[UNDEFINED]@\n', ('executed', 'VALIDATION_ERROR', False, None)),
        'HARD_ERROR': (m + '$ exit 1\n' + act, ('executed', 'HARD_ERROR', True, None)),
        'FILE_ACCESS_ERROR': (m + act + '[assert]\nincluding no-such-file.xly\n', ('access', 'FILE_ACCESS_ERROR')),
    }
    return t[kind]


KINDS = ['PASS', 'PASS', 'PASS', 'FAIL', 'XFAIL', 'XPASS', 'SKIPPED', 'SYNTAX_ERROR(file)', 'SYNTAX_ERROR(act)',
         'VALIDATION_ERROR', 'HARD_ERROR', 'FILE_ACCESS_ERROR']
GOOD_KINDS = ['PASS', 'SKIPPED', 'XFAIL']


class Hier:
    """A generated hierarchy on disk."""

    def __init__(self, rng, root_dir, log, all_good, only_bad=None):
        self.rng, self.root_dir, self.log = rng, pathlib.Path(root_dir), log
        self.suites = {}  # path -> {'suites': [instr], 'cases': [instr], 'bad': bool}   instr = text line
        self.cases = {}  # path -> (kind, result)
        self.n = 0
        self.all_good = all_good
        self.only_bad = only_bad
        self.globbed = []  # groups of suite paths matched by one glob
        self.defect = None
        self.root = self.root_dir / 'root.suite'
        self._mk_suite(self.root, depth=0)
        if rng.chance(0.4):
            self._inject_defect()
        self._write()

    def _new_case(self, d, name):
        p = d / name
        if self.all_good:
            kind = self.rng.choice(GOOD_KINDS)
        elif self.only_bad is not None:
            kind = self.only_bad if self.rng.chance(0.4) else self.rng.choice(GOOD_KINDS)
        else:
            kind = self.rng.choice(KINDS)
        self.cases[p] = kind
        return p

    def _mk_suite(self, path, depth):
        rng = self.rng
        d = path.parent
        s = {'suites': [], 'cases': [], 'bad': False}
        self.suites[path] = s
        # cases
        names = ['c%d_%d.case' % (len(self.suites), i) for i in range(rng.randint(0, 3))]
        rng.shuffle(names)
        for nm in names:
            self._new_case(d, nm)
        style = rng.below(4)
        if names:
            if style == 0:
                s['cases'] = ['*.case']
            elif style == 1:
                s['cases'] = list(names)
            elif style == 2:
                s['cases'] = [names[0], '*.case']  # listed twice
            else:
                s['cases'] = ["'%s'" % names[-1]] + names[:-1]
        if style in (1, 3) and rng.chance(0.3):
            # a QUOTED name containing glob characters is a literal file name, not a pattern: the file with exactly that
            # name is listed; a decoy that the pattern would match exists beside it and is NOT listed
            lit, decoy = rng.choice([('q[1]_%d.case', 'q1_%d.case'), ('w?_%d.case', 'wX_%d.case'), ('s*_%d.case', 'sab_%d.case')])
            k = len(self.suites)
            self._new_case(d, lit % k)
            self._new_case(d, decoy % k)
            s['cases'].insert(rng.below(len(s['cases']) + 1), "'%s'" % (lit % k))
        if rng.chance(0.25):
            # a file name containing '#' (an ordinary character inside a name: regression of FIX-C16-2); a decoy named by the
            # part before the '#' exists beside it and is NOT listed
            k = len(self.suites)
            self._new_case(d, 'h%d#x.case' % k)
            self._new_case(d, 'h%d' % k)
            s['cases'].insert(rng.below(len(s['cases']) + 1), rng.choice(['h%d#x.case', "'h%d#x.case'"]) % k)
        if rng.chance(0.25):
            # a glob whose matches span several directories: the matches are sorted BY PATH, and the file names alone are
            # ordered differently from the paths (grp_a/z, grp_a/m, grp_b/a ...)
            k = len(self.suites)
            layout = rng.choice([[('a', 'z'), ('a', 'm'), ('b', 'a'), ('b', 'n')], [('x', 'b'), ('y', 'a')],
                                 [('p', 'c'), ('q', 'b'), ('r', 'a')]])
            for (g, n) in layout:
                self._new_case(d / ('grp%d_%s' % (k, g)), '%s.case' % n)
            s['cases'].insert(rng.below(len(s['cases']) + 1), 'grp%d_?/*.case' % k)
        # sub suites
        if depth < 2:
            k = rng.randint(0, 3 if depth == 0 else 2)
            if k and rng.chance(0.2):
                # a glob that matches DIRECTORIES, each with a default suite file (a directory listed in [suites] stands for
                # its exactly.suite, also when it is a glob that names it)
                n0 = len(self.suites)
                subs = [d / ('gd%d_%s' % (n0, x)) / 'exactly.suite' for x in rng.sample(['a', 'b', 'c', 'd'], k)]
                s['suites'].append('gd%d_?' % n0)
                self.globbed.append(sorted(subs))
                for sp in subs:
                    self._mk_suite(sp, depth + 1)
            elif k and rng.chance(0.35):
                # a glob over a group of sub-suites in one directory
                gd = d / ('g%d' % len(self.suites))
                subs = [gd / ('%s.suite' % x) for x in rng.sample(['a', 'b', 'c', 'd'], k)]
                s['suites'].append('%s/*.suite' % gd.name)
                self.globbed.append(sorted(subs))
                for sp in subs:
                    self._mk_suite(sp, depth + 1)
            else:
                for i in range(k):
                    sd = d / ('s%d' % len(self.suites))
                    if rng.chance(0.3):
                        sp = sd / 'exactly.suite'
                        s['suites'].append(sd.name)  # directory with default suite file
                    else:
                        sp = sd / ('sub%d.suite' % len(self.suites))
                        s['suites'].append('%s/%s' % (sd.name, sp.name))
                    self._mk_suite(sp, depth + 1)

    def _inject_defect(self):
        rng = self.rng
        paths = list(self.suites)
        kind = rng.choice(['double', 'cycle', 'missing-suite', 'missing-case', 'syntax', 'self', 'case-is-dir', 'double-glob',
                           'double-glob', 'missing-quoted-glob-name'])
        target = rng.choice(paths)
        if kind == 'double-glob':
            groups = [g for g in self.globbed if len(g) >= 2]
            if not groups:
                kind = 'double'
            else:
                g = rng.choice(groups)
                victim = rng.choice(g[:-1]) if rng.chance(0.7) else g[-1]
                target = rng.choice([p for p in paths if p != victim])
                s = self.suites[target]
                s['suites'].insert(rng.below(len(s['suites']) + 1), os.path.relpath(str(victim), str(target.parent)))
                self.defect = 'double-glob'
                return
        s = self.suites[target]
        rel = lambda p: os.path.relpath(str(p), str(target.parent))
        pos = rng.below(len(s['suites']) + 1)
        if kind == 'double' and len(paths) > 1:
            other = rng.choice([p for p in paths if p != self.root])
            s['suites'].insert(pos, rel(other))
        elif kind == 'cycle':
            s['suites'].insert(pos, rel(self.root))
        elif kind == 'self':
            s['suites'].insert(pos, target.name)
        elif kind == 'missing-suite':
            s['suites'].insert(pos, 'no-such.suite')
        elif kind == 'missing-case':
            s['cases'].insert(rng.below(len(s['cases']) + 1), 'no-such.case')
        elif kind == 'missing-quoted-glob-name':
            # quoted, so a literal name: it does not exist although a file matching it as a pattern does
            k = len(self.suites)
            self._new_case(target.parent, 'gone_X_%d.case' % k)
            s['cases'].insert(rng.below(len(s['cases']) + 1), "'gone_?_%d.case'" % k)
        elif kind == 'case-is-dir':
            s['cases'].insert(rng.below(len(s['cases']) + 1), '.')
        elif kind == 'syntax':
            s['bad'] = True
        else:
            return
        self.defect = kind

    def _write(self):
        for p, s in self.suites.items():
            p.parent.mkdir(parents=True, exist_ok=True)
            txt = ''
            layout = self.rng.below(4)
            cs, ss = s['cases'], s['suites']
            if layout == 0 or (len(cs) < 2 and len(ss) < 2):
                if ss:
                    txt += '[suites]\n' + '\n'.join(ss) + '\n'
                if cs:
                    txt += '[cases]\n' + '\n'.join(cs) + '\n'
            elif layout == 1:
                # a section may be entered several times: its parts are merged, in file order
                h = max(1, len(cs) // 2)
                txt += '[cases]\n' + '\n'.join(cs[:h]) + '\n'
                if ss:
                    txt += '[suites]\n' + '\n'.join(ss) + '\n'
                if cs[h:]:
                    txt += '[cases]\n' + '\n'.join(cs[h:]) + '\n'
            elif layout == 2:
                # cases before any header (the default section is [cases]), then the sections again
                h = max(1, len(cs) // 2) if cs else 0
                if cs:
                    txt += '\n'.join(cs[:h]) + '\n'
                g = max(1, len(ss) // 2) if ss else 0
                if ss:
                    txt += '[suites]\n' + '\n'.join(ss[:g]) + '\n'
                if cs[h:]:
                    txt += '[cases]\n# a comment\n\n' + '\n'.join(cs[h:]) + '\n'
                if ss[g:]:
                    txt += '[suites]\n' + '\n'.join(ss[g:]) + '\n'
            else:
                if cs:
                    txt += '[cases]\n' + '\n'.join(cs) + '\n'
                if ss:
                    txt += '[suites]\n' + '\n'.join(ss) + '\n'
            if s['bad']:
                txt += "[suites]\n'unterminated quoted name\n" if self.rng.chance(0.5) else '[no-such-section]\nx\n'
            p.write_text(txt)
        self.results = {}
        for p, kind in self.cases.items():
            p.parent.mkdir(parents=True, exist_ok=True)
            text, result = case_text(kind, "$ echo '%s' >> %s" % (p, self.log))
            p.write_text(text)
            self.results[p] = result

    # --- model input: evaluate references against the file system (stat / glob are the oracle) ---
    def model_input(self):
        files = sorted(set(self.suites) | set(self.cases))
        ids = {p: i + 1 for i, p in enumerate(files)}
        self.ids = ids

        def resolve(d, line, is_suite):
            quoted = line.startswith("'")
            name = line.strip("'")
            if not quoted and any(ch in name for ch in '*?['):
                ms = list(d.glob(name))
                if is_suite:
                    ms = [(m / 'exactly.suite') if m.is_dir() else m for m in ms]
                return 'RGlob', [ids[m] for m in ms]
            p = pathlib.Path(os.path.normpath(str(d / name)))
            if p.is_file():
                return 'RPlain', ids.get(p)
            if is_suite and p.is_dir() and (p / 'exactly.suite').is_file():
                return 'RPlain', ids.get(p / 'exactly.suite')
            return 'RPlain', None

        def c_instr(k, v):
            if k == 'RGlob':
                return '(RGlob %s)' % (clist([cN(x) for x in v]) if v else '(@nil N)')
            return '(RPlain %s)' % copt(v, cN)

        entries = []
        for p, s in self.suites.items():
            if s['bad']:
                entries.append('(%s, SBad)' % cN(ids[p]))
            else:
                ss = [c_instr(*resolve(p.parent, l, True)) for l in s['suites']]
                cs = [c_instr(*resolve(p.parent, l, False)) for l in s['cases']]
                entries.append('(%s, SGood %s %s)' % (cN(ids[p]), clist(ss) if ss else '(@nil ref_instr)',
                                                      clist(cs) if cs else '(@nil ref_instr)'))
        outcomes = ['(%s, %s)' % (cN(ids[p]), c02.c_result(r)) for p, r in self.results.items()]
        return clist(entries), cN(ids[self.root]), clist(outcomes) if outcomes else '(@nil (fname * proc_result))'


_CASE_LINE = re.compile(r'^case  (.*): \([0-9.]+s\) ([A-Z_]+)$')


def observe(h, reporter, pr):
    """classify the output of the real program"""
    prog_text = pr.out if reporter == 'Progress' else pr.err
    processed, cur = [], None
    for line in prog_text.splitlines():
        if line.startswith('suite ') and line.endswith(': begin'):
            cur = pathlib.Path(os.path.normpath(str(h.root.parent / line[len('suite '):-len(': begin')])))
        m = _CASE_LINE.match(line)
        if m:
            processed.append((cur, pathlib.Path(os.path.normpath(str(h.root.parent / m.group(1)))), m.group(2)))
    final_ok = None
    invalid = False
    junit = None
    if reporter == 'Progress':
        lines = pr.out.strip().splitlines()
        last = lines[-1] if lines else ''
        invalid = last == 'INVALID_SUITE'
        final_ok = True if last == 'OK' else False if last == 'ERROR' else None
    else:
        if pr.out.strip():
            x = ET.fromstring(pr.out)
            suites = [x] if x.tag == 'testsuite' else x.findall('testsuite')
            t = sum(int(s.get('tests')) for s in suites)
            f = sum(int(s.get('failures')) for s in suites)
            e = sum(int(s.get('errors')) for s in suites)
            ch = []
            for s in suites:
                for tc in s.findall('testcase'):
                    kids = [k.tag for k in tc if k.tag in ('failure', 'error')]
                    ch.append(CHILD[kids[0]] if len(kids) == 1 else 'JNone' if not kids else 'JError')
            junit = (t, f, e, ch)
        else:
            invalid = True
    executed = []
    if os.path.exists(h.log):
        executed = [pathlib.Path(l) for l in open(h.log).read().split('\n') if l]
    return processed, final_ok, invalid, junit, executed


def run(ctx, res):
    rng = ctx.rng
    n = 260 if ctx.quick else 3000
    root = tempfile.mkdtemp(prefix='c16-', dir=ctx.work)
    sbx = os.path.join(root, 'sandboxes')
    os.makedirs(sbx)
    mp = impl.main_program(sbx)
    res.rule = ('random suite hierarchies (depth <= 2, width <= 3; plain names, quoted names, glob patterns for suites and cases, '
                'directories with default suite file, a case listed twice; 40%: one injected defect among repeated reference, '
                'cycle, self reference, missing suite, missing case, directory as case, syntax error / unknown section) x '
                'outcome per case from {PASS, FAIL, XFAIL, XPASS, SKIPPED, file-level and act-phase SYNTAX_ERROR, '
                'VALIDATION_ERROR, HARD_ERROR, FILE_ACCESS_ERROR} (25%: only successful outcomes; 35%: successful ones plus one kind of unsuccessful outcome) x both reporters. '
                'non-trivial := >= 2 suite files or a defect; distinct := distinct (hierarchy text, outcomes, reporter)')
    terms, meta = [], []
    for i in range(n):
        d = os.path.join(root, 'h%d' % i)
        os.makedirs(d)
        log = os.path.join(d, 'LOG')
        mode = rng.below(100)
        h = Hier(rng, os.path.join(d, 'suite'), log, all_good=mode < 25,
                 only_bad=rng.choice([k for k in KINDS if k not in GOOD_KINDS]) if 25 <= mode < 60 else None)
        fs_t, root_t, out_t = h.model_input()
        desc = {str(p.relative_to(h.root_dir)): open(p).read() for p in h.suites}
        for reporter, args in (('Progress', []), ('JUnit', ['--reporter', 'junit'])):
            if os.path.exists(log):
                os.remove(log)
            pr = impl.run_main(mp, ['suite'] + args + [str(h.root)], d, d)
            info = {'reporter': reporter, 'suite_files': desc, 'defect': h.defect,
                    'case_outcomes': {str(p.relative_to(h.root_dir)): k for p, k in h.cases.items()},
                    'observed': {'exit': pr.exit_code, 'stdout': pr.out[-1500:], 'stderr': pr.err[-800:]}}
            if pr.exception is not None:
                res.prop_failures.append(Failure('property', info, 'exception escaped MainProgram.execute: %r' % pr.exception))
                continue
            try:
                processed, final_ok, invalid, junit, executed = observe(h, reporter, pr)
                ids = h.ids
                t = '(C16Case %s %s %s %s %s %s %s %s %s %s)' % (
                    reporter, fs_t, root_t, out_t, cZ(pr.exit_code), cbool(invalid), copt(final_ok, cbool),
                    clist(['(%s, %s)' % (cN(ids[s]), cN(ids[c])) for s, c, _ in processed]) if processed else '(@nil (fname * fname))',
                    clist([cN(ids[p]) for p in executed]) if executed else '(@nil fname)',
                    'None' if junit is None else '(Some (%s, %s, %s, %s))' % (
                        cnat(junit[0]), cnat(junit[1]), cnat(junit[2]), clist(junit[3]) if junit[3] else '(@nil junit_child)'))
            except Exception as ex:
                res.errors.append('cannot classify output: %r %s' % (ex, info))
                continue
            terms.append(t)
            meta.append(info)
            res.count('reporter ' + reporter)
            res.count('defect: %s' % h.defect)
            res.count('suite files: %d' % len(h.suites))
            if len(h.suites) >= 2 or h.defect:
                res.nontrivial.add((repr(sorted(desc.items())), repr(sorted(info['case_outcomes'].items())), reporter))
        shutil.rmtree(d, ignore_errors=True)
    shutil.rmtree(root, ignore_errors=True)
    res.evaluations = len(terms)
    res.samples = [meta[0], meta[len(meta) // 2]] if meta else []
    cb, pb, errs = common.run_shards('C16', ['Model.Outcome', 'Model.Suite', 'Spec.C16'], 'check_c16', terms, shard_size=60)
    res.errors += errs
    for i in pb:
        res.prop_failures.append(Failure('property', meta[i], 'suite run violates C16 (cases not processed in the declarative order — sub-suites first, listing order, glob matches sorted by path —, invalid suite with processed cases, wrong final '
                                                              'verdict / exit code, or JUnit counters / elements inconsistent with the verdicts)'))
    for i in cb:
        res.disagreements.append(Failure('correspondence', meta[i], 'model run_suite differs from the real program'))


def replay(ctx, payload):
    import json
    print(json.dumps(payload.get('case'), indent=1, default=str))
    return 0
