"""C17 — cases are independent; suite contents apply alike standalone and in a suite run.

Experiment 1 (suite contents; real program, real instructions): generated suite hierarchies (root suite, sub-suites to
depth 2) whose suite files supply contents for random subsets of conf (status, actor, preprocessor) / setup / act /
before-assert / assert / cleanup, and cases with own contents in random subsets; marker instructions append to a log,
some fail.  Every hierarchy is run with `exactly suite ROOT` (the markers written during each case are cut out of the
log at the moments the progress reporter announces begin and end of the case), every case is run alone with
`--suite S` for the suite S that lists it, alone beside `exactly.suite`, and (when there is no exactly.suite beside it)
plainly alone.  Model: Model/Cases.v (handling setup, merge) + Model/Suite.v (reader) + Model/Exec.v (full_execute);
property on the observations: Spec/C17.v `check_suite_case`.

Experiment 2 (histories; real program, real instructions): families of cases that change settings (env [-of act|!act]
[unset], timeout, cd, def, file in act/ and tmp/; 35%: the case ENDS with its current directory removed, in [before-assert]
or at the end of [cleanup]) and of cases that observe (shell probes printing environment, current
directory, listings of act/ and tmp/ at the start of [setup], in the act program and in [cleanup]; references to / definitions
of the symbols), run in every order as a suite and as consecutive standalone runs of ONE MainProgram object; half of the
families with [setup] contents supplied by the suite, most of these also with suite-supplied [before-assert] / [assert] /
[cleanup] instructions that look at state the CASES set differently (a symbol every case defines with a value of its own,
referred to inside a string and a here-document; environment, current directory, files): the instruction OBJECTS parsed from
the suite file are shared by all its cases; the baseline of every case is its run alone in a FRESH PROCESS.  Model:
`run_cases real_policy` of Model/Cases.v with `sem_of_script` (Spec/C17.v `check_hist_case`).

Experiment 3 (histories; stub instructions through the public executor of processors.py, one executor for the whole history,
as `SuitesExecutor` does, on a shared environment dictionary and shared predefined symbols): the stubs mutate everything they
are handed (InstructionSettings, SetupSettingsBuilder, symbol tables, cwd, sandbox files) and record everything they can
see.  Same model, same check.
"""
import io
import json
import multiprocessing
import os
import re
import shutil
import subprocess
import sys
import tempfile

import common
from common import Failure, cZ, cN, cnat, cbool, clist, copt
import impl

EXPLANATION = ('Theorems over the Gallina model of what is shared between cases (first-order store: references to the environment '
               'dictionary and the predefined symbols, the copies made per case, cwd / sandbox restoration) and of what a suite adds '
               'to its cases (handling setup, merge order, three ways of running a case); correspondence and the property itself '
               'on real suites / cases run in every order, standalone, with --suite and beside exactly.suite, and on stub '
               'instructions that mutate everything they are handed.')
ASSUMPTIONS = ['PARTIAL: that no process-global state other than the modelled one (environment dictionary, predefined symbols, timeout, '
               'cwd, sandbox) survives a case is established by the differential runs only',
               'a preprocessor is an external program: the result of read + preprocess + parse of a case file enters the model as a '
               'table computed by the harness from the text it generated',
               'the observation of a case never includes the name of its sandbox directory']
TRUSTED_EXTRA = ['cutting the marker log of a suite run into per-case segments at the moments the progress reporter writes its '
                 '"case ..." begin text and the identifier line (a file object passed as stdout records the log size at every write)']

PHASES = ['setup', 'act', 'before-assert', 'assert', 'cleanup']
COQ_PHASE = {'conf': 'Conf', 'setup': 'Setup', 'act': 'Act', 'before-assert': 'BeforeAssert', 'assert': 'Assert', 'cleanup': 'Cleanup'}
PREPROC_TAG = {0: 'Z', 1: 'Y', 2: 'X'}
PREPROC_CMD = {1: 'sed s/QZ/QY/g', 2: 'sed s/QZ/QX/g'}
ACTOR_TEXT = {'ADefault': None, 'ACommand': 'actor = command', 'ASh': 'actor = source % sh', 'ANull': 'actor = null'}
FAMILY = {'ADefault': 'cmd', 'ACommand': 'cmd', 'ASh': 'sh', 'ANull': 'null'}
FULL = ['SYNTAX_ERROR', 'PASS', 'VALIDATION_ERROR', 'FAIL', 'SKIPPED', 'XFAIL', 'XPASS', 'HARD_ERROR', 'INTERNAL_ERROR']


# ---------------------------------------------------------------------------------------------------------
# running the real program, observing per case
# ---------------------------------------------------------------------------------------------------------
class RecordingOut(io.StringIO):
    """stdout of a suite run: remembers the size of the log file at every write"""

    def __init__(self, log_path):
        super().__init__()
        self.log_path = log_path
        self.events = []

    def _size(self):
        try:
            return os.path.getsize(self.log_path)
        except OSError:
            return 0

    def write(self, s):
        self.events.append((s, self._size()))
        return super().write(s)


_CASE_BEGIN = re.compile(r'case  (.*): $')
_CASE_END = re.compile(r'^([A-Z_]+)$')


def run_suite(mp, suite_path, cwd, log_path):
    """-> (exit code, [(suite rel path, case rel path, identifier, text written to the log during the case)], stdout)"""
    from exactly_lib.util.file_utils.std import StdOutputFiles
    out, err = RecordingOut(log_path), io.StringIO()
    old = os.getcwd()
    try:
        os.chdir(cwd)
        code = mp.execute(['suite', suite_path], StdOutputFiles(out, err))
    finally:
        os.chdir(old)
    try:
        log = open(log_path, 'rb').read()
    except OSError:
        log = b''
    cases, cur_suite, cur = [], None, None
    pending = ''
    for text, pos in out.events:
        pending += text
        while '\n' in pending or _CASE_BEGIN.search(pending):
            m = _CASE_BEGIN.search(pending) if '\n' not in pending else None
            if m and cur is None:
                cur = (m.group(1), pos)
                pending = ''
                break
            line, _, pending = pending.partition('\n')
            if line.startswith('suite ') and line.endswith(': begin'):
                cur_suite = line[len('suite '):-len(': begin')]
            elif cur is not None:
                ident = line.split(') ')[-1].strip()
                cases.append((cur_suite, cur[0], ident, log[cur[1]:pos].decode('utf-8', 'replace')))
                cur = None
    return code, cases, out.getvalue()


def run_alone(mp, args, cwd, scratch, log_path):
    """`exactly ARGS` -> (identifier, log text)"""
    if os.path.exists(log_path):
        os.remove(log_path)
    pr = impl.run_main(mp, args, cwd, scratch)
    if pr.exception is not None:
        return 'EXCEPTION %r' % (pr.exception,), ''
    ident = (pr.out.strip().splitlines() or ['?'])[0]
    try:
        log = open(log_path).read()
    except OSError:
        log = ''
    return ident, log


def c_ident(s):
    if s in FULL:
        return '(IdFull %s)' % s
    if s in ('FILE_ACCESS_ERROR', 'PRE_PROCESS_ERROR'):
        return '(IdAccess %s)' % s
    raise ValueError('unexpected identifier %r' % s)


# ---------------------------------------------------------------------------------------------------------
# Experiment 1: suite contents
# ---------------------------------------------------------------------------------------------------------
class Labels:
    def __init__(self):
        self.n = 0

    def new(self):
        self.n += 1
        return self.n


def gen_contents(rng, labels, is_suite, family, fail_budget):
    """phase contents of one file: {phase: [element]}; element = ('mark', l, fails) | ('act', l)"""
    d = {}
    style = rng.below(10)
    for p in PHASES:
        if style == 0:
            want = False  # no contents at all
        elif style == 1:
            want = True  # contents in every phase
        else:
            want = rng.chance(0.45)
        if not want:
            d[p] = []
            continue
        n = 1 if rng.chance(0.7) else 2
        els = []
        for _ in range(n):
            if p == 'act':
                els.append(('act', labels.new()))
                if family == 'cmd':
                    break  # more than one line per file is a syntax error of its own; two files already give two lines
            else:
                fails = fail_budget[0] > 0 and rng.chance(0.12)
                if fails:
                    fail_budget[0] -= 1
                els.append(('mark', labels.new(), fails))
        d[p] = els
    return d


def gen_suite_instance(rng):
    """a hierarchy: root suite (+ cases) with 0..2 sub-suites, one of which may have a sub-suite of its own"""
    labels = Labels()
    fail_budget = [1 if rng.chance(0.35) else 0]
    files = {}
    dir_labels = {}
    counter = [0]

    def dlabel(d):
        d = os.path.normpath(d)
        if d not in dir_labels:
            dir_labels[d] = labels.new()
        return dir_labels[d]

    def mk_suite(rel_dir, depth, name):
        path = os.path.join(rel_dir, name)
        conf = []
        actor = 'ADefault'
        if rng.chance(0.4):
            actor = rng.choice(['ASh', 'ASh', 'ANull', 'ACommand'])
            conf.append(('actor', actor))
        if rng.chance(0.3):
            conf.insert(rng.below(len(conf) + 1), ('pre', rng.choice([1, 1, 2])))
            if rng.chance(0.25):
                conf.insert(rng.below(len(conf) + 1), ('pre', rng.choice([1, 2])))
        if rng.chance(0.12):
            conf.insert(rng.below(len(conf) + 1), ('status', rng.choice(['SKIP', 'FAIL', 'PASS'])))
        fam = FAMILY[actor]
        s = {'kind': 'suite', 'conf': conf, 'suites': [], 'cases': [], 'family': fam}
        s.update(gen_contents(rng, labels, True, fam, fail_budget))
        files[path] = s
        for i in range(rng.randint(1, 2) if depth == 0 else rng.randint(0, 2)):
            cname = '%s%d.case' % ('abc'[depth], i)
            cconf = []
            cactor = actor
            if rng.chance(0.25):
                # a case may choose another actor of the same syntax family, or the null actor
                cactor = rng.choice([a for a in FAMILY if FAMILY[a] == fam and a != 'ADefault'] + ['ANull'])
                cconf.append(('actor', cactor))
            if rng.chance(0.12):
                cconf.insert(rng.below(len(cconf) + 1), ('status', rng.choice(['SKIP', 'FAIL', 'PASS'])))
            c = {'kind': 'case', 'conf': cconf}
            c.update(gen_contents(rng, labels, False, fam, fail_budget))
            is_link = rng.chance(0.3)
            if is_link:
                # the case file as listed is a symbolic link to a file kept in ANOTHER directory (which has a home marker of its
                # own and, mostly, an exactly.suite of its own): the case is the file as listed - its home directory and the
                # exactly.suite beside it are those of the directory it is listed in, however it is run
                counter[0] += 1
                shared = 'shared%d' % counter[0]
                c['link_target'] = os.path.join(shared, 'real.case')
                dlabel(shared)
                if rng.chance(0.7):
                    dconf = [('actor', rng.choice([a for a in FAMILY if FAMILY[a] == fam and a != 'ADefault'] + ['ANull']))] \
                        if fam != 'cmd' else []
                    dec = {'kind': 'suite', 'conf': dconf, 'suites': [], 'cases': [], 'family': fam, 'decoy': True}
                    dec.update(gen_contents(rng, labels, True, fam, fail_budget))
                    files[os.path.join(shared, 'exactly.suite')] = dec
            if is_link or rng.chance(0.4):
                # an instruction whose outcome depends on the home directory: it writes the marker kept in a file there
                c['setup'].insert(rng.below(len(c['setup']) + 1), ('home', dlabel(rel_dir)))
            files[os.path.join(rel_dir, cname)] = c
            s['cases'].append(cname)
        if rng.chance(0.15) and s['cases']:
            s['cases'].append(s['cases'][0])  # listed twice
        if name != 'exactly.suite' and rng.chance(0.35):
            # a decoy: an exactly.suite beside the cases that does NOT list them: it must be ignored by the suite run and by
            # --suite, and used by the plain run
            dconf = []
            if fam != 'cmd' or rng.chance(0.4):
                # (the act phases of the cases are written in the syntax of the listing suite's actor: the decoy keeps to it)
                dconf.append(('actor', rng.choice([a for a in FAMILY if FAMILY[a] == fam and a != 'ADefault'] + ['ANull'])))
            if rng.chance(0.3):
                dconf.append(('pre', rng.choice([1, 2])))
            dec = {'kind': 'suite', 'conf': dconf, 'suites': [], 'cases': [], 'family': fam, 'decoy': True}
            dec.update(gen_contents(rng, labels, True, fam, fail_budget))
            files[os.path.join(rel_dir, 'exactly.suite')] = dec
        if depth < 2:
            k = rng.choice([0, 1, 1, 2]) if depth == 0 else rng.choice([0, 0, 1])
            for i in range(k):
                sub_dir = os.path.join(rel_dir, 's%d%d' % (depth, i))
                sub_name = 'exactly.suite' if rng.chance(0.6) else 'sub.suite'
                if sub_name == 'exactly.suite' and rng.chance(0.5):
                    s['suites'].append(os.path.relpath(sub_dir, rel_dir))  # a directory: its default suite file
                else:
                    s['suites'].append(os.path.relpath(os.path.join(sub_dir, sub_name), rel_dir))
                mk_suite(sub_dir, depth + 1, sub_name)
                if rng.chance(0.2):
                    # the suite file as listed is a symbolic link to a file in another directory: its cases are those beside
                    # the link
                    counter[0] += 1
                    files[os.path.join(sub_dir, sub_name)]['link_target'] = os.path.join('sharedsuite%d' % counter[0], 'real.suite')
        return path

    root_name = 'exactly.suite' if rng.chance(0.6) else 'root.suite'
    root = mk_suite('.', 0, root_name)
    files = {os.path.normpath(k): v for k, v in files.items()}
    top_dirs = sorted({k.split(os.sep)[0] for k in files if os.sep in k and k.startswith('s0')})
    return {'files': files, 'root': os.path.normpath(root), 'dir_labels': dir_labels,
            # control: a whole sub-directory reached through a symbolic link to a directory
            'dir_link': rng.choice(top_dirs) if top_dirs and rng.chance(0.25) else None,
            # the standalone runs name case and suite by absolute paths
            'abs_paths': rng.chance(0.5)}


def mark_text(tag, el, log, family):
    if el[0] == 'act':
        word = 'Q%s%d' % (tag, el[1])
        return {'cmd': '$ echo %s >> %s' % (word, log), 'sh': 'echo %s >> %s' % (word, log), 'null': 'ignored %s' % word}[family]
    if el[0] == 'home':
        return '$ cat @[EXACTLY_HOME]@/homemark >> %s' % log
    _, l, fails = el
    return '$ echo Q%s%d >> %s%s' % (tag, l, log, '; false' if fails else '')


def conf_text(el):
    if el[0] == 'actor':
        return ACTOR_TEXT[el[1]]
    if el[0] == 'status':
        return 'status = ' + el[1]
    if el[0] == 'pre':
        return 'preprocessor = ' + PREPROC_CMD[el[1]]
    raise ValueError(el)


def file_text(f, log, family):
    tag = 'S' if f['kind'] == 'suite' else 'Z'
    out = []
    if f['conf']:
        out.append('[conf]')
        out += [conf_text(e) for e in f['conf']]
    if f['kind'] == 'suite':
        if f['suites']:
            out.append('[suites]')
            out += f['suites']
        if f['cases']:
            out.append('[cases]')
            out += f['cases']
    for p in PHASES:
        if f[p]:
            out.append('[%s]' % p)
            out += [mark_text(tag, e, log, family) for e in f[p]]
    return '\n'.join(out) + '\n'


def materialise_suite_instance(inst, d, log):
    fam_of = {}
    for rel, f in inst['files'].items():
        if f['kind'] == 'suite':
            fam_of[os.path.dirname(rel)] = f['family']
    dl = inst.get('dir_link')

    def phys(rel):
        # where a path is kept on disk: the directory [dl] is a symbolic link to real_[dl]
        parts = os.path.normpath(rel).split(os.sep)
        if dl and parts[0] == dl:
            parts[0] = 'real_' + dl
        return os.path.join(d, *parts)

    for rel, f in inst['files'].items():
        p = phys(rel)
        os.makedirs(os.path.dirname(p), exist_ok=True)
        text = file_text(f, log, fam_of[os.path.dirname(rel)])
        if f.get('link_target'):
            t = phys(f['link_target'])
            os.makedirs(os.path.dirname(t), exist_ok=True)
            with open(t, 'w') as fh:
                fh.write(text)
            os.symlink(os.path.relpath(t, os.path.dirname(p)), p)
        else:
            with open(p, 'w') as fh:
                fh.write(text)
    for dr, l in inst.get('dir_labels', {}).items():
        os.makedirs(phys(dr), exist_ok=True)
        with open(os.path.join(phys(dr), 'homemark'), 'w') as fh:
            fh.write('QS%d\n' % l)
    if dl:
        os.symlink('real_' + dl, os.path.join(d, dl))


_LABEL = re.compile(r'^Q([SZYX])(\d+)$')


def parse_log(text):
    """-> list of labels (numbers); an unexpected line is a label nobody owns"""
    out = []
    for line in text.split('\n'):
        if not line:
            continue
        m = _LABEL.match(line.strip())
        if not m:
            out.append(999999)
            continue
        n = int(m.group(2))
        out.append(n + {'S': 0, 'Z': 0, 'Y': 100000, 'X': 200000}[m.group(1)])
    return out


def observe_suite_instance(inst, d, sbx):
    """run the hierarchy and every case alone; -> observations (plain data)"""
    log = os.path.join(d, 'LOG')
    materialise_suite_instance(inst, d, log)
    mp = impl.main_program(sbx)
    if os.path.exists(log):
        os.remove(log)
    code, cases, out = run_suite(mp, inst['root'], d, log)
    obs = {'suite_exit': code, 'suite': [], 'alone': [], 'suite_stdout': out[-2000:]}
    for s, c, ident, text in cases:
        obs['suite'].append((os.path.normpath(s), os.path.normpath(c), ident, parse_log(text)))
    scratch = os.path.join(d, 'scratch')
    os.makedirs(scratch, exist_ok=True)
    done = set()
    for rel, f in inst['files'].items():
        if f['kind'] != 'suite':
            continue
        for cname in f['cases']:
            crel = os.path.normpath(os.path.join(os.path.dirname(rel), cname))
            if (rel, crel) in done:
                continue
            done.add((rel, crel))
            ap = (lambda x: os.path.join(d, x)) if inst.get('abs_paths') else (lambda x: x)
            ident, text = run_alone(mp, ['--suite', ap(rel), ap(crel)], d, scratch, log)
            obs['alone'].append((crel, rel, ident, parse_log(text)))
            beside = os.path.normpath(os.path.join(os.path.dirname(crel), 'exactly.suite'))
            if beside in inst['files'] or f['family'] == 'cmd' or not inst['files'][crel]['act']:
                # plain: beside exactly.suite; or no suite at all (only when the act phase of the case is written in the
                # syntax of the default actor: what an unrelated actor makes of it is not this property's business)
                ident, text = run_alone(mp, [ap(crel)], d, scratch, log)
                obs['alone'].append((crel, None, ident, parse_log(text)))
    return obs


def c_cinstr(el, phase, shift=0):
    if el[0] == 'mark':
        b = 'BOk' if not el[2] else ('BFail' if phase == 'assert' else 'BHardRet')
        return '(IMark %s %s)' % (cN(el[1] + shift), b)
    if el[0] == 'act':
        return '(IAct %s)' % cN(el[1] + shift)
    if el[0] == 'home':
        return '(IMark %s BOk)' % cN(el[1])  # the marker of the home directory: not part of the case file's text
    if el[0] == 'actor':
        return '(IActor %s)' % el[1]
    if el[0] == 'status':
        return '(IStatus %s)' % {'PASS': 'TPass', 'SKIP': 'TSkip', 'FAIL': 'TFail'}[el[1]]
    raise ValueError(el)


def c_list(items, ty):
    return clist(items) if items else '(@nil %s)' % ty


def suite_instance_term(inst, obs):
    files = inst['files']
    ids = {rel: i + 1 for i, rel in enumerate(sorted(files))}
    fs, contents, sources, beside = [], [], [], []
    pre_used = {0}
    for rel, f in files.items():
        if f['kind'] == 'suite':
            pre_used |= {e[1] for e in f['conf'] if e[0] == 'pre'}
    for rel in sorted(files):
        f = files[rel]
        d = os.path.dirname(rel)
        if f['kind'] == 'suite':
            subs = []
            for ref in f['suites']:
                t = os.path.normpath(os.path.join(d, ref))
                if t not in files:
                    t = os.path.normpath(os.path.join(t, 'exactly.suite'))
                subs.append('(RPlain (Some %s))' % cN(ids[t]))
            cs = ['(RPlain (Some %s))' % cN(ids[os.path.normpath(os.path.join(d, c))]) for c in f['cases']]
            fs.append('(%s, SGood %s %s)' % (cN(ids[rel]), c_list(subs, 'ref_instr'), c_list(cs, 'ref_instr')))
            conf = []
            for e in f['conf']:
                conf.append('(CESuite %s)' % cN(e[1]) if e[0] == 'pre' else '(CECase %s)' % c_cinstr(e, 'conf'))
            contents.append('(%s, RS %s %s)' % (cN(ids[rel]), c_list(conf, '(conf_elem cinstr)'),
                                                ' '.join(c_list([c_cinstr(e, p) for e in f[p]], 'cinstr') for p in PHASES)))
        else:
            for pid in sorted(pre_used):
                shift = {0: 0, 1: 100000, 2: 200000}[pid]
                sources.append('(%s, %s, CD %s %s)' % (cN(pid), cN(ids[rel]), c_list([c_cinstr(e, 'conf') for e in f['conf']], 'cinstr'),
                                                       ' '.join(c_list([c_cinstr(e, p, shift) for e in f[p]], 'cinstr') for p in PHASES)))
            b = os.path.normpath(os.path.join(d, 'exactly.suite'))
            if b in files:
                beside.append('(%s, %s)' % (cN(ids[rel]), cN(ids[b])))

    def c_idlog(ident, labels):
        return '(%s, %s)' % (c_ident(ident), c_list([cN(x) for x in labels], 'N'))

    o_suite = ['(%s, %s, %s)' % (cN(ids[s]), cN(ids[c]), c_idlog(i, l)) for s, c, i, l in obs['suite']]
    o_alone = ['(%s, %s, %s)' % (cN(ids[c]), copt(s, lambda x: cN(ids[x])), c_idlog(i, l)) for c, s, i, l in obs['alone']]
    return '(KSuite (SuiteCase %s %s %s %s %s %s %s))' % (
        c_list(fs, '(fname * sfile)'), cN(ids[inst['root']]), c_list(contents, '(fname * raw_suite cinstr)'),
        c_list(sources, '(preproc * fname * casedoc cinstr)'), c_list(beside, '(fname * fname)'),
        c_list(o_suite, '(fname * fname * (ident * list N))'), c_list(o_alone, '(fname * option fname * (ident * list N))'))


def describe_suite_instance(inst, obs):
    fam_of = {os.path.dirname(rel): f['family'] for rel, f in inst['files'].items() if f['kind'] == 'suite'}
    return {'experiment': 'suite contents', 'root': inst['root'],
            'symbolic links': {rel: f['link_target'] for rel, f in inst['files'].items() if f.get('link_target')},
            'directory that is a symbolic link': inst.get('dir_link'), 'standalone runs by absolute paths': inst.get('abs_paths'),
            'home markers (file homemark in each directory)': {k: 'QS%d' % v for k, v in inst.get('dir_labels', {}).items()},
            'files': {rel: file_text(f, 'LOG', fam_of[os.path.dirname(rel)]) for rel, f in inst['files'].items()},
            'observed_in_suite_run': [list(x) for x in obs['suite']],
            'observed_alone (case, --suite or None, identifier, markers)': [list(x) for x in obs['alone']]}


# ---------------------------------------------------------------------------------------------------------
# Experiments 2 and 3: histories.  A script = {'usages': [('def', n) | ('ref', n)], 'm1': [mutation], 'm2': [mutation]}
# mutation = ('env', k, v) | ('unenv', k) | ('actenv', k, v) | ('unactenv', k) | ('timeout', t) | ('sym', n)
#          | ('cd', 'act' | 'tmp' | ('other', n)) | ('file', 'act' | 'tmp', n)
# ---------------------------------------------------------------------------------------------------------
KEYS = [1, 2, 3, 4, 9]
AREA = {'act': 'DAct', 'tmp': 'DTmp'}


def c_mut(m):
    k = m[0]
    if k == 'env':
        return '(MEnvSet %s %s)' % (cnat(m[1]), cnat(m[2]))
    if k == 'unenv':
        return '(MEnvUnset %s)' % cnat(m[1])
    if k == 'actenv':
        return '(MActEnvSet %s %s)' % (cnat(m[1]), cnat(m[2]))
    if k == 'unactenv':
        return '(MActEnvUnset %s)' % cnat(m[1])
    if k == 'timeout':
        return '(MTimeout %s)' % copt(m[1], cZ)
    if k == 'sym':
        return '(MSymPut %s 0%%nat)' % cnat(m[1])
    if k == 'cd':
        return '(MChdir %s)' % ('(CCur (Some %s))' % AREA[m[1]] if isinstance(m[1], str) else '(COther %s)' % cnat(m[1][1]))
    if k == 'file':
        return '(MFile %s %s)' % (AREA[m[1]], cnat(m[2]))
    raise ValueError(m)


def c_script(sc):
    us = ['(UDef %s %s)' % (cnat(u[1]), cnat(u[2] if len(u) > 2 else 0)) if u[0] == 'def' else '(URef %s)' % cnat(u[1])
          for u in sc['usages']]
    return '(SC %s %s %s)' % (c_list(us, 'usage'), c_list([c_mut(m) for m in sc['m1']], 'mutation'),
                              c_list([c_mut(m) for m in sc['m2']], 'mutation'))


def c_env(e):
    return c_list(['(%s, %s)' % (cnat(k), cnat(v)) for k, v in e], '(nat * nat)')


def c_vdir(d):
    if d in ('act', 'tmp', 'result', 'internal'):
        return '(VCur (Some %s))' % {'act': 'DAct', 'tmp': 'DTmp', 'result': 'DResult', 'internal': 'DInternal'}[d]
    if d == 'root':
        return '(VCur None)'
    return '(VAbs (DOther %s))' % cnat(d)


def c_oview(v):
    if v is None:
        return 'None'
    return '(Some %s)' % c_oview_plain(v)


def c_oview_plain(v):
    return '(OV %s %s %s %s %s %s %s)' % (
        copt(v.get('env'), c_env), copt(v.get('act_env'), c_env),
        'None' if 'timeout' not in v else '(Some %s)' % copt(v['timeout'], cZ),
        copt(v.get('syms'), lambda l: c_list([cnat(x) for x in l], 'nat')),
        copt(v.get('sym_vals'), c_env),
        copt(v.get('cwd'), c_vdir),
        copt(v.get('files'), lambda l: c_list(['(%s, %s)' % (AREA[a], cnat(n)) for a, n in l], '(sds_dir * nat)')))


def c_ocase(o):
    if o['result'] not in FULL:
        raise ValueError('unexpected identifier %r' % (o['result'],))
    return '(OC %s %s %s %s %s)' % (o['result'], c_oview(o.get('end1')), c_oview(o.get('view2')), c_oview(o.get('end2')),
                                    c_list([c_oview_plain(v) for v in o.get('more', [])], 'oview'))


def hist_term(h):
    return '(KHist (HistCase %s %s %s %s %s %s %s %s %s))' % (
        c_env(h['osenv']), copt(h['environ'], c_env), c_list([cnat(x) for x in h['syms']], 'nat'), copt(h['timeout'], cZ),
        c_list([c_script(x) for x in h['scripts']], 'script'), c_list([c_ocase(o) for o in h['obs']], 'ocase'),
        c_list([c_ocase(o) for o in h['alone']], 'ocase'),
        'None' if h['final'] is None else '(Some (%s, %s))' % (copt(h['final'][0], c_env), c_list([cnat(x) for x in h['final'][1]], 'nat')),
        cbool(h['proc_ok']))


# ----- experiment 3: stub instructions through the public executor ---------------------------------------
def gen_stub_script(rng, observer):
    us, m1, m2 = [], [], []
    if observer:
        if rng.chance(0.6):
            us.append(('ref', rng.choice([1, 2, 3])))
        return {'usages': us, 'm1': m1, 'm2': m2}
    for _ in range(rng.choice([0, 1, 1, 2])):
        n = rng.choice([2, 3, 4])
        us.append(('def', n))
        if rng.chance(0.3):
            us.append(('ref', n))
    if rng.chance(0.3):
        us.append(('ref', 1))  # predefined
    if rng.chance(0.3):
        m1.append(('cd', ('other', rng.choice([1, 2]))))
    if rng.chance(0.3):
        m1.append(('sym', rng.choice([2, 3, 5])))
    for _ in range(rng.randint(1, 5)):
        k = rng.choice(['env', 'env', 'actenv', 'unenv', 'unactenv', 'timeout', 'sym', 'cd', 'file'])
        if k in ('env', 'actenv'):
            m2.append((k, rng.choice([1, 2, 3, 9]), rng.randint(1, 5)))
        elif k in ('unenv', 'unactenv'):
            m2.append((k, rng.choice([1, 9])))
        elif k == 'timeout':
            m2.append((k, rng.choice([None, 1, 7])))
        elif k == 'sym':
            m2.append((k, rng.choice([2, 3, 5])))
        elif k == 'cd':
            m2.append((k, rng.choice(['tmp', 'act', ('other', 1), ('other', 2)])))
        else:
            f = (k, rng.choice(['act', 'tmp']), rng.randint(1, 3))
            if f not in m2:  # a file is created once
                m2.append(f)
    return {'usages': us, 'm1': m1, 'm2': m2}


def gen_stub_history(rng):
    n_act = rng.randint(1, 3)
    scripts = [gen_stub_script(rng, False) for _ in range(n_act)] + [gen_stub_script(rng, True) for _ in range(rng.randint(1, 2))]
    rng.shuffle(scripts)
    if rng.chance(0.3):
        scripts.append(scripts[0])  # the same case again
    environ = None if rng.chance(0.5) else [(1, 1), (2, 2)][:rng.randint(0, 2)]
    return {'osenv': [(9, 1)], 'environ': environ, 'syms': [1], 'timeout': rng.choice([60, 60, None, 5]), 'scripts': scripts}


class StubRunner:
    """Runs scripts as stub test cases through ONE executor (as the suite runner does) on shared objects."""

    def __init__(self, root, hist):
        from exactly_lib.execution.configuration import ExecutionConfiguration
        from exactly_lib.execution.predefined_properties import os_environ_getter
        from exactly_lib.impls.os_services import os_services_access
        from exactly_lib.processing import processors
        from exactly_lib.processing.act_phase import ActPhaseSetup
        from exactly_lib.symbol.sdv_structure import container_of_builtin
        from exactly_lib.symbol.value_type import ValueType
        from exactly_lib.type_val_deps.types.string_ import string_sdvs
        from exactly_lib.util.symbol_table import SymbolTable
        self.root = root
        self.home = os.path.join(root, 'home')
        self.sbx = os.path.join(root, 'sbx')
        self.others = {n: os.path.join(root, 'other%d' % n) for n in (1, 2)}
        for d in [self.home, self.sbx] + list(self.others.values()):
            os.makedirs(d, exist_ok=True)
        self.container = container_of_builtin(ValueType.STRING, string_sdvs.str_constant('x'))
        self.symbols = SymbolTable({'C17S_%d' % n: self.container for n in hist['syms']})
        self.environ = None if hist['environ'] is None else {'C17K_%d' % k: str(v) for k, v in hist['environ']}
        self.cur = None

        def mk_sds_dir():
            return tempfile.mkdtemp(prefix='sds-', dir=self.sbx)

        conf = ExecutionConfiguration(os_environ_getter, self.environ, hist['timeout'], os_services_access.new_for_current_os(),
                                      mk_sds_dir, 2 ** 10, self.symbols, None)
        self.executor = processors.new_executor_that_may_pollute_current_processes2(conf, ActPhaseSetup('stub actor', self._actor()), False)

    # --- observation helpers
    @staticmethod
    def _env(mapping):
        src = os.environ if mapping is None else mapping
        return [(int(k[5:]), int(v)) for k, v in src.items() if k.startswith('C17K_')]

    @staticmethod
    def _syms(table):
        return sorted(int(n[5:]) for n in table.names_set if n.startswith('C17S_'))

    def _cwd(self, sds_root):
        cwd = os.path.realpath(os.getcwd())
        if sds_root is not None:
            r = os.path.realpath(sds_root)
            if cwd == r:
                return 'root'
            if os.path.dirname(cwd) == r:
                return os.path.basename(cwd)
        if cwd == os.path.realpath(self.home):
            return 0
        for n, d in self.others.items():
            if cwd == os.path.realpath(d):
                return n
        return 99

    @staticmethod
    def _files(sds):
        out = []
        for area, d in (('act', sds.act_dir), ('tmp', sds.user_tmp_dir)):
            for name in sorted(os.listdir(str(d))):
                m = re.match(r'^f(\d+)$', name)
                out.append((area, int(m.group(1)) if m else 999))
        return out

    def _mutate(self, m, environment, settings, settings_builder):
        k = m[0]
        if k in ('env', 'unenv'):
            if settings.environ() is None:  # what the real env instruction does
                settings.set_environ(settings.default_environ_getter())
            if k == 'env':
                settings.environ()['C17K_%d' % m[1]] = str(m[2])
            else:
                settings.environ().pop('C17K_%d' % m[1], None)
        elif k in ('actenv', 'unactenv'):
            if settings_builder.environ is None:
                settings_builder.environ = settings.default_environ_getter()
            if k == 'actenv':
                settings_builder.environ['C17K_%d' % m[1]] = str(m[2])
            else:
                settings_builder.environ.pop('C17K_%d' % m[1], None)
        elif k == 'timeout':
            settings.set_timeout(m[1])
        elif k == 'sym':
            environment.symbols.put('C17S_%d' % m[1], self.container)
        elif k == 'cd':
            if isinstance(m[1], str):
                if hasattr(environment, 'sds'):
                    os.chdir(str(environment.sds.act_dir if m[1] == 'act' else environment.sds.user_tmp_dir))
            else:
                os.chdir(self.others[m[1][1]])
        elif k == 'file':
            d = environment.sds.act_dir if m[1] == 'act' else environment.sds.user_tmp_dir
            (d / ('f%d' % m[2])).write_text('x')
        else:
            raise ValueError(m)

    def _actor(self):
        from exactly_lib.test_case.phases.act.actor import Actor, ActionToCheck
        from exactly_lib.test_case.result import svh, sh, eh
        runner = self

        class Atc(ActionToCheck):
            def symbol_usages(self):
                return []

            def validate_pre_sds(self, environment):
                return svh.new_svh_success()

            def validate_post_setup(self, environment):
                return svh.new_svh_success()

            def prepare(self, environment, os_services):
                return sh.new_sh_success()

            def execute(self, environment, os_services, atc_input, output):
                runner.cur['act_env'] = runner._env(atc_input.environ)
                return eh.new_eh_exit_code(0)

        class TheActor(Actor):
            def parse(self, instructions):
                return Atc()

        return TheActor()

    def _test_case(self, script):
        from exactly_lib.section_document.element_builder import SectionContentElementBuilder
        from exactly_lib.section_document.model import SectionContents
        from exactly_lib.section_document.source_location import FileLocationInfo
        from exactly_lib.symbol.sdv_structure import SymbolDefinition, SymbolReference
        from exactly_lib.test_case import test_case_doc
        from exactly_lib.test_case.phases.cleanup import CleanupPhaseInstruction
        from exactly_lib.test_case.phases.setup.instruction import SetupPhaseInstruction
        from exactly_lib.test_case.result import svh, sh
        from exactly_lib.type_val_deps.sym_ref.w_str_rend_restrictions import reference_restrictions
        from exactly_lib.util.line_source import LineSequence
        import pathlib
        runner = self
        rec = self.cur

        class S(SetupPhaseInstruction):
            def symbol_usages(self):
                return [SymbolDefinition('C17S_%d' % n, runner.container) if k == 'def'
                        else SymbolReference('C17S_%d' % n, reference_restrictions.is_any_type_w_str_rendering())
                        for k, n in script['usages']]

            def validate_pre_sds(self, environment):
                for m in script['m1']:
                    runner._mutate(m, environment, None, None)
                ps = environment.proc_exe_settings
                rec['end1'] = {'env': runner._env(ps.environ), 'timeout': ps.timeout_in_seconds,
                               'syms': runner._syms(environment.symbols), 'cwd': runner._cwd(None), 'files': []}
                return svh.new_svh_success()

            def main(self, environment, settings, os_services, settings_builder):
                root = str(environment.sds.root_dir)
                rec['view2'] = {'env': runner._env(settings.environ()), 'act_env': runner._env(settings_builder.environ),
                                'timeout': settings.timeout_in_seconds(), 'syms': runner._syms(environment.symbols),
                                'cwd': runner._cwd(root), 'files': runner._files(environment.sds)}
                for k, n in script['usages']:
                    if k == 'def':
                        environment.symbols.put('C17S_%d' % n, runner.container)
                for m in script['m2']:
                    runner._mutate(m, environment, settings, settings_builder)
                return sh.new_sh_success()

        class C(CleanupPhaseInstruction):
            def main(self, environment, settings, os_services, previous_phase):
                root = str(environment.sds.root_dir)
                rec['end2'] = {'env': runner._env(settings.environ()), 'timeout': settings.timeout_in_seconds(),
                               'syms': runner._syms(environment.symbols), 'cwd': runner._cwd(root),
                               'files': runner._files(environment.sds)}
                return sh.new_sh_success()

        def section(instr):
            b = SectionContentElementBuilder(FileLocationInfo(pathlib.Path(self.home)))
            return SectionContents((b.new_instruction(LineSequence(1, ('stub',)), instr),))

        empty = SectionContents(())
        return test_case_doc.TestCase(empty, section(S()), empty, empty, empty, section(C()))

    def run(self, script):
        import pathlib
        self.cur = {}
        tc = self._test_case(script)
        res = self.executor.apply(pathlib.Path(self.home) / 'x.case', tc)
        o = {'result': res.status.name, 'end1': self.cur.get('end1'), 'view2': self.cur.get('view2'), 'end2': self.cur.get('end2')}
        if o['end2'] is not None and 'act_env' in self.cur:
            o['end2']['act_env'] = self.cur['act_env']
        return o

    def final(self):
        return (None if self.environ is None else [(int(k[5:]), int(v)) for k, v in self.environ.items() if k.startswith('C17K_')],
                self._syms(self.symbols))


def observe_stub_history(hist, d):
    os.environ['C17K_9'] = '1'
    old = os.getcwd()
    env0 = dict(os.environ)
    try:
        seq = StubRunner(os.path.join(d, 'seq'), hist)
        os.chdir(seq.home)
        obs = [seq.run(sc) for sc in hist['scripts']]
        # (whether the sandbox directory is removed is C04's business, not looked at here)
        proc_ok = os.path.realpath(os.getcwd()) == os.path.realpath(seq.home) and dict(os.environ) == env0
        final = seq.final()
        alone = []
        for i, sc in enumerate(hist['scripts']):
            os.environ.clear()
            os.environ.update(env0)
            r = StubRunner(os.path.join(d, 'alone%d' % i), hist)
            os.chdir(r.home)
            alone.append(r.run(sc))
    finally:
        os.chdir(old)
        os.environ.clear()
        os.environ.update(env0)
    return dict(hist, obs=obs, alone=alone, final=final, proc_ok=proc_ok)


# ----- experiment 2: real cases, real instructions ---------------------------------------------------------
REAL_OPS = {
    'env_both': lambda k, v: [('env', k, v), ('actenv', k, v)],
    'env_act': lambda k, v: [('actenv', k, v)],
    'env_nonact': lambda k, v: [('env', k, v)],
    'unset_both': lambda k: [('unenv', k), ('unactenv', k)],
    'unset_act': lambda k: [('unactenv', k)],
    'unset_nonact': lambda k: [('unenv', k)],
    'timeout': lambda t: [('timeout', t)],
    'timeout_last': lambda t: [('timeout', t)],  # as the last instruction of [cleanup]: no probe of the case itself runs under it
    'cd': lambda a: [('cd', a)],
    'file': lambda a, n: [('file', a, n)],
    'sleep': lambda secs: [],
    # the case ENDS with its current directory removed: it makes a scratch directory, goes there and removes it -
    # as the last instructions of [cleanup] (after its last probe: nothing of it is observed) ...
    'rmcwd_end': lambda area: [],
    # ... or in [before-assert]: its later probes run in a directory that is gone ('other 77' stands for it)
    'rmcwd_ba': lambda: [('cd', ('other', 77))],
}


def real_op_text(op):
    k = op[0]
    if k.startswith('env_'):
        return 'env %sC17K_%d = %d' % ({'both': '', 'act': '-of act ', 'nonact': '-of !act '}[k[4:]], op[1], op[2])
    if k.startswith('unset_'):
        return 'env %sunset C17K_%d' % ({'both': '', 'act': '-of act ', 'nonact': '-of !act '}[k[6:]], op[1])
    if k == 'timeout':
        return 'timeout = %d' % op[1]
    if k == 'cd':
        return 'cd -rel-%s .' % op[1]
    if k == 'file':
        return 'file -rel-%s f%d = "x"' % (op[1], op[2])
    raise ValueError(op)


def real_script_model(sc):
    m2 = []
    for op in sc['ops']:
        m2 += REAL_OPS[op[0]](*op[1:])
    return {'usages': sc['usages'], 'm1': [], 'm2': m2}


W = 8  # the symbol that the cases of a family define with different values and that suite-supplied instructions look at


def probe(tag, log, with_dirs, syms=(), seen_file=False):
    """a shell instruction printing what it sees; `@[C17S_n]@` inside the double-quoted string is a symbol reference in a
    string: it is resolved by the instruction object"""
    s = '%s;' % tag + ''.join('%d=${C17K_%d-U};' % (k, k) for k in KEYS)
    if with_dirs:
        s += "cwd=$(pwd);act=$(ls -A @[EXACTLY_ACT]@ | tr '\\n' ,);tmp=$(ls -A @[EXACTLY_TMP]@ | tr '\\n' ,);"
    s += ''.join('S%d=@[C17S_%d]@;' % (n, n) for n in syms)
    if seen_file:
        s += 'F%d=$(cat @[EXACTLY_TMP]@/f9);' % W
    return '$ echo "%s" >> %s' % (s, log)


def real_suite_text(fam, log, cases):
    """the suite of a family: lists the cases; 50% of the families: [setup] contents of its own (the first probe, then
    definitions / settings), 80% of these also before-assert / assert / cleanup contents that look at what the case did -
    the SAME parsed instruction objects are then part of every case of the suite"""
    out = ['[cases]'] + list(cases)
    sc = fam.get('suite')
    if sc is not None:
        out += ['[setup]', probe('P0', log, True)]
        out += usage_texts(sc['usages'])
        out += [real_op_text(op) for op in sc['ops']]
        if sc.get('observes'):
            # instructions of the suite that look at what the CASE defined / changed: the symbol W that every case defines with
            # a value of its own (in a string, in a here-document), its environment, current directory and files
            out += ['[before-assert]',
                    'file -rel-tmp f9 = "@[C17S_%d]@"' % W,
                    probe('SB', log, True, syms=[W], seen_file=True),
                    '[assert]',
                    probe('SA', log, True, syms=[W], seen_file=True),
                    'stdout equals <<EOF', '@[C17S_%d]@' % W, 'EOF',
                    '[cleanup]',
                    probe('SC', log, True, syms=[W], seen_file=True)]
    return '\n'.join(out) + '\n'


def usage_texts(usages):
    out = []
    for u in usages:
        if u[0] == 'def':
            out.append('def string C17S_%d = %s' % (u[1], u[2] if len(u) > 2 else 0))
        else:
            out.append('$ true @[C17S_%d]@' % u[1])
    return out


def real_case_text(sc, log, own_p0=True):
    out = ['[setup]'] + ([probe('P0', log, True)] if own_p0 else [])
    out += usage_texts(sc['usages'])
    wval = [u[2] for u in sc['usages'] if u[0] == 'def' and u[1] == W]
    sleeps = [op for op in sc['ops'] if op[0] == 'sleep']
    out += [real_op_text(op) for op in sc['ops'] if op[0] not in ('sleep', 'timeout_last', 'rmcwd_end', 'rmcwd_ba')]
    out += ['[act]', probe('A', log, False) + ('; echo %d' % wval[0] if wval else '')]
    if any(op[0] == 'rmcwd_ba' for op in sc['ops']):
        out += ['[before-assert]', 'dir scratch', 'cd scratch', '$ rmdir "$(pwd)"']
    if sleeps:
        out += ['[assert]'] + ['$ sleep %s' % op[1] for op in sleeps]
    out += ['[cleanup]', probe('P1', log, True, syms=[W] if wval else [])]
    for op in sc['ops']:
        if op[0] == 'rmcwd_end':
            out += ['dir -rel-%s scratch' % op[1], 'cd -rel-%s scratch' % op[1], '$ rmdir "$(pwd)"']
    out += ['timeout = %d' % op[1] for op in sc['ops'] if op[0] == 'timeout_last']
    return '\n'.join(out) + '\n'


def gen_real_script(rng, observer):
    us, ops = [], []
    if observer:
        if rng.chance(0.5):
            us.append(('ref', rng.choice([2, 3])))
        elif rng.chance(0.3):
            us.append(('def', rng.choice([2, 3])))  # defining what another case defined is fine only if nothing leaks
        return {'usages': us, 'ops': ops}
    for _ in range(rng.choice([0, 1, 1, 2])):
        n = rng.choice([2, 3])
        if ('def', n) not in us:
            us.append(('def', n))
            if rng.chance(0.3):
                us.append(('ref', n))
    for _ in range(rng.randint(1, 5)):
        k = rng.choice(['env_both', 'env_both', 'env_act', 'env_nonact', 'unset_both', 'unset_act', 'unset_nonact', 'timeout', 'cd',
                        'file', 'file'])
        if k.startswith('env_'):
            ops.append((k, rng.choice([1, 2, 3, 9]), rng.randint(1, 5)))
        elif k.startswith('unset_'):
            ops.append((k, rng.choice([1, 9])))
        elif k == 'timeout':
            ops.append((k, rng.randint(30, 50)))  # never so short that a probe of the case itself could run into it on a loaded machine
        elif k == 'cd':
            ops.append((k, rng.choice(['tmp', 'act'])))
        else:
            f = (k, rng.choice(['act', 'tmp']), rng.randint(1, 3))
            if f not in ops:
                ops.append(f)
    return {'usages': us, 'ops': ops}


def permutations(xs):
    if len(xs) <= 1:
        return [list(xs)]
    return [[x] + p for i, x in enumerate(xs) for p in permutations(xs[:i] + xs[i + 1:])]


def gen_real_family(rng, quick, timeout_family=False):
    if timeout_family:
        scripts = [{'usages': [], 'ops': [('timeout_last', 1)]}, {'usages': [], 'ops': [('sleep', '1.4')]}]
        return {'scripts': scripts, 'orders': [[0, 1], [1, 0, 1]]}
    n_act = rng.randint(1, 2)
    scripts = [gen_real_script(rng, False) for _ in range(n_act)] + [gen_real_script(rng, True) for _ in range(rng.randint(1, 2))]
    orders = permutations(list(range(len(scripts))))
    if len(orders) > 6 and quick:
        orders = rng.sample(orders, 6)
    rep = list(range(len(scripts)))
    rng.shuffle(rep)
    orders.append(rep + [rep[0]])  # a case run twice
    fam = {'scripts': scripts, 'orders': orders}
    if rng.chance(0.5):
        sc = gen_real_script(rng, False)
        # symbols / files of the suite's own, so that the cases' own definitions do not collide with them by construction
        sc['usages'] = [(k, n + 4) for k, n in sc['usages']]
        sc['ops'] = [(op[0], op[1], op[2] + 5) if op[0] == 'file' else op for op in sc['ops']]
        if rng.chance(0.8):
            # the suite's before-assert / assert / cleanup look at the symbol W; (nearly) every case defines it, each with a
            # value of its own
            sc['observes'] = True
            for i, c in enumerate(scripts):
                if rng.chance(0.88):
                    c['usages'].insert(rng.below(len(c['usages']) + 1), ('def', W, i + 1))
        fam['suite'] = sc
    for c in scripts[:n_act]:
        # (not under a suite with probes of its own in before-assert / cleanup: they would see the case half-way)
        if rng.chance(0.4) and not fam.get('suite', {}).get('observes'):
            if rng.chance(0.5):
                c['ops'].append(('rmcwd_end', rng.choice(['tmp', 'act'])))
            else:
                c['ops'].append(('rmcwd_ba',))
    fam['abs_suite'] = rng.chance(0.5)  # `exactly suite` is given the suite by its absolute path
    return fam


_PROBE = re.compile(r'^(P0|A|P1|SB|SA|SC);(.*)$')


def parse_probes(text, sbx_roots):
    """log text of one case -> {'P0': view, 'A': view, 'P1': view}"""
    out = {}
    for line in text.split('\n'):
        m = _PROBE.match(line)
        if not m:
            if line.strip():
                out.setdefault('junk', []).append(line)
            continue
        v = {'env': []}
        for field in m.group(2).split(';'):
            if not field:
                continue
            k, _, val = field.partition('=')
            if k.isdigit():
                if val != 'U':
                    v['env'].append((int(k), int(val) if val.isdigit() else 9999))
            elif re.match(r'^[SF]\d+$', k):
                # the value a symbol reference was resolved to (S), or that was written into a file through one (F)
                v.setdefault('sym_vals', []).append((int(k[1:]), int(val) if val.isdigit() else 9999))
            elif k == 'cwd':
                real = os.path.realpath(val)
                cls = 77 if val == '' else 99  # pwd prints nothing in a directory that has been removed
                if any(os.path.dirname(os.path.dirname(real)) == os.path.realpath(r) for r in sbx_roots) and \
                        os.path.basename(real) in ('act', 'tmp', 'result', 'internal'):
                    cls = os.path.basename(real)
                v['cwd'] = cls
            elif k in ('act', 'tmp'):
                for name in val.split(','):
                    if name:
                        mm = re.match(r'^f(\d+)(\.txt)?$', name)
                        v.setdefault('files', []).append((k, int(mm.group(1)) if mm else 999))
                v.setdefault('files', [])
        out[m.group(1)] = v
    return out


def ocase_of_probes(ident, pr):
    o = {'result': ident, 'end1': None, 'view2': None, 'end2': None}
    if 'junk' in pr:
        o['result'] = 'JUNK ' + repr(pr['junk'])[:200]
    if 'P0' in pr:
        o['view2'] = pr['P0']
    if 'P1' in pr:
        o['end2'] = dict(pr['P1'])
        if 'A' in pr:
            o['end2']['act_env'] = pr['A']['env']
    o['more'] = [pr[t] for t in ('SB', 'SA', 'SC') if t in pr]
    return o


def exec_main(mp, args, cwd, log):
    """MainProgram.execute in directory cwd -> (stdout text, cwd restored?, os.environ untouched?, exception)"""
    from exactly_lib.util.file_utils.std import StdOutputFiles
    out, err = RecordingOut(log), io.StringIO()
    env0 = dict(os.environ)
    os.chdir(cwd)
    exc = None
    try:
        mp.execute(list(args), StdOutputFiles(out, err))
    except BaseException as ex:
        if isinstance(ex, KeyboardInterrupt):
            raise
        exc = ex
    try:
        cwd_ok = os.path.realpath(os.getcwd()) == os.path.realpath(cwd)
    except OSError:  # the process was left in a directory that no longer exists
        cwd_ok = False
    env_ok = dict(os.environ) == env0
    if not env_ok:
        os.environ.clear()
        os.environ.update(env0)
    return out, cwd_ok, env_ok, exc


def observe_real_family(fam, d, sbx):
    os.environ['C17K_9'] = '1'
    log = os.path.join(d, 'LOG')
    n = len(fam['scripts'])
    has_suite = fam.get('suite') is not None
    for i, sc in enumerate(fam['scripts']):
        with open(os.path.join(d, 'c%d.case' % i), 'w') as f:
            f.write(real_case_text(sc, log, own_p0=not has_suite))
    # every case alone, each in a process of its own
    procs = []
    runner = os.path.join(common.REPO, 'src', 'default-main-program-runner.py')
    for i, sc in enumerate(fam['scripts']):
        ad = os.path.join(d, 'alone%d' % i)
        os.makedirs(os.path.join(ad, 'tmp'))
        with open(os.path.join(ad, 'c.case'), 'w') as f:
            f.write(real_case_text(sc, os.path.join(ad, 'LOG'), own_p0=not has_suite))
        args = ['c.case']
        if has_suite:
            with open(os.path.join(ad, 'only.suite'), 'w') as f:
                f.write(real_suite_text(fam, os.path.join(ad, 'LOG'), []))
            args = ['--suite', 'only.suite', 'c.case']
        env = dict(os.environ, PYTHONPATH=os.path.join(common.REPO, 'src'), PYTHONWARNINGS='ignore', TMPDIR=os.path.join(ad, 'tmp'), C17K_9='1')
        procs.append((ad, subprocess.Popen([sys.executable, runner] + args, cwd=ad, env=env, stdout=subprocess.PIPE,
                                           stderr=subprocess.DEVNULL, text=True)))
    alone = []
    for ad, p in procs:
        out, _ = p.communicate(timeout=120)
        ident = (out.strip().splitlines() or ['?'])[0]
        try:
            text = open(os.path.join(ad, 'LOG')).read()
        except OSError:
            text = ''
        alone.append(ocase_of_probes(ident, parse_probes(text, [os.path.join(ad, 'tmp')])))
    mp = impl.main_program(sbx)
    hists = []
    old = os.getcwd()
    try:
        for k, order in enumerate(fam['orders']):
            def merged(sc):
                m = real_script_model(sc)
                if has_suite:  # suite contents first
                    sm = real_script_model(fam['suite'])
                    m = {'usages': sm['usages'] + m['usages'], 'm1': [], 'm2': sm['m2'] + m['m2']}
                    if fam['suite'].get('observes'):  # ... and, in the phases after [setup], after the case's
                        m = {'usages': m['usages'] + [('ref', W)], 'm1': [], 'm2': m['m2'] + [('file', 'tmp', 9)]}
                return m

            base = {'osenv': [(9, 1)], 'environ': None, 'syms': [], 'timeout': 60,
                    'scripts': [merged(fam['scripts'][i]) for i in order], 'alone': [alone[i] for i in order], 'final': None,
                    'order': order}
            # (a) as a suite
            with open(os.path.join(d, 'o%d.suite' % k), 'w') as f:
                f.write(real_suite_text(fam, log, ['c%d.case' % i for i in order]))
            if os.path.exists(log):
                os.remove(log)
            out, cwd_ok, env_ok, exc = exec_main(mp, ['suite', os.path.join(d, 'o%d.suite' % k) if fam.get('abs_suite') else 'o%d.suite' % k],
                                                 d, log)
            os.chdir(old)
            try:
                logb = open(log, 'rb').read()
            except OSError:
                logb = b''
            obs, cur, pending = [], None, ''
            for text, pos in out.events:
                pending += text
                while True:
                    m = _CASE_BEGIN.search(pending) if '\n' not in pending else None
                    if m and cur is None:
                        cur = pos
                        pending = ''
                        break
                    if '\n' not in pending:
                        break
                    line, _, pending = pending.partition('\n')
                    if cur is not None:
                        ident = line.split(') ')[-1].strip()
                        obs.append(ocase_of_probes(ident, parse_probes(logb[cur:pos].decode('utf-8', 'replace'), [sbx])))
                        cur = None
            hists.append(dict(base, mode='suite', obs=obs, proc_ok=cwd_ok and env_ok and exc is None,
                              note=repr(exc) if exc else ''))
            # (b) one after the other, standalone, with the same MainProgram object
            obs, ok = [], True
            for i in order:
                if os.path.exists(log):
                    os.remove(log)
                out, cwd_ok, env_ok, exc = exec_main(mp, (['--suite', 'o%d.suite' % k] if has_suite else []) + ['c%d.case' % i], d, log)
                os.chdir(old)
                ok = ok and cwd_ok and env_ok and exc is None
                ident = (out.getvalue().strip().splitlines() or ['?'])[0]
                try:
                    text = open(log).read()
                except OSError:
                    text = ''
                obs.append(ocase_of_probes(ident, parse_probes(text, [sbx])))
            hists.append(dict(base, mode='standalone, one after the other', obs=obs, proc_ok=ok, note=''))
    finally:
        os.chdir(old)
    files = {'c%d.case' % i: real_case_text(sc, 'LOG', own_p0=not has_suite) for i, sc in enumerate(fam['scripts'])}
    if has_suite:
        files['SUITE (cases listed in the given order)'] = real_suite_text(fam, 'LOG', [])
    return {'case_files': files, 'hists': hists}


# ---------------------------------------------------------------------------------------------------------
# Experiment 4: a catalog of suite-supplied instructions (every instruction family of before-assert / assert / cleanup, a
# symbol reference in every syntactic position) over cases that define the symbols differently - also not at all, or with a
# wrong type - and that set their own [conf].  Purely differential: in the suite run / in consecutive --suite runs of one
# process vs alone in a fresh process.
# Entry: (id, {phase: suite lines}, {symbol: ([valid definitions, different values], [invalid definitions; None = undefined])})
# (suite [setup] instructions cannot refer to symbols of the case: the suite's setup comes before the case's.)
# ---------------------------------------------------------------------------------------------------------
LOG = '>> "$C17_LOG"'
CATALOG = [
 ('int-expr', {'assert': ['stdout num-lines == @[N]@']},
  {'N': (['def string N = 3', 'def string N = 2', 'def string N = 1+2'], [None, 'def list N = 3', 'def string N = abc'])}),
 ('heredoc', {'assert': ['stdout equals <<EOF', '@[L1]@', 'beta', 'gamma', 'EOF']},
  {'L1': (['def string L1 = alpha', 'def string L1 = other'], [None, 'def path L1 = -rel-result x'])}),
 ('string-arg', {'assert': ['stderr any line : contents equals "@[E]@"']},
  {'E': (['def string E = oops', 'def string E = nope'], [None])}),
 ('regex', {'assert': ['stdout any line : contents matches @[RE]@']},
  {'RE': (['def string RE = ^be', 'def string RE = ^zz'], [None, 'def string RE = (', 'def list RE = a b'])}),
 ('regex-full', {'assert': ['stdout every line : contents matches -full "@[RE2]@"']},
  {'RE2': (['def string RE2 = [a-z]+', 'def string RE2 = [a-c]+'], [None])}),
 ('line-nums', {'assert': ['stdout -transformed-by filter -line-nums @[R]@', '  equals <<EOF', '@[X]@', 'EOF']},
  {'R': (['def string R = 2', 'def string R = 1', 'def string R = 3'], [None, 'def string R = x']),
   'X': (['def string X = beta', 'def string X = alpha', 'def string X = gamma'], [None])}),
 ('tt-def-use', {'before-assert': ['def text-transformer T = filter -line-nums @[N2]@'],
                 'assert': ['stdout -transformed-by T equals @[EXPECTED]@']},
  {'N2': (['def string N2 = 2', 'def string N2 = 3', 'def string N2 = 1'], [None]),
   'EXPECTED': (['def string EXPECTED = <<EOF\nbeta\nEOF', 'def string EXPECTED = <<EOF\ngamma\nEOF', 'def string EXPECTED = <<EOF\nalpha\nEOF'], [None])}),
 ('tt-sym', {'assert': ['stdout -transformed-by TT num-lines == 1']},
  {'TT': (['def text-transformer TT = filter contents matches alpha', 'def text-transformer TT = identity',
           'def text-transformer TT = filter -line-nums 2'], [None, 'def string TT = identity'])}),
 ('tm-sym', {'assert': ['stdout TM']},
  {'TM': (['def text-matcher TM = num-lines == 3', 'def text-matcher TM = is-empty'], [None, 'def string TM = is-empty'])}),
 ('im-sym', {'assert': ['exit-code IM']},
  {'IM': (['def integer-matcher IM = == 0', 'def integer-matcher IM = > 0'], [None, 'def text-matcher IM = is-empty'])}),
 ('exit-int', {'assert': ['exit-code == @[EC]@']},
  {'EC': (['def string EC = 0', 'def string EC = 1'], [None, 'def string EC = zero'])}),
 ('contents-path', {'assert': ['contents @[P]@ : num-lines == 3']},
  {'P': (['def string P = data.txt', 'def string P = d/x.txt'], [None])}),
 ('path-sym', {'assert': ['contents @[PS]@ : ! is-empty']},
  {'PS': (['def path PS = data.txt', 'def path PS = -rel-act d/y.log', 'def path PS = -rel-tmp none.txt'], [None, 'def text-matcher PS = is-empty'])}),
 ('rel-sym', {'assert': ['exists -rel DS x.txt : type file']},
  {'DS': (['def path DS = -rel-act d', 'def path DS = -rel-act .'], [None, 'def string DS = d'])}),
 ('fm-sym', {'assert': ['exists data.txt : FM']},
  {'FM': (['def file-matcher FM = type file', 'def file-matcher FM = type dir'], [None, 'def string FM = x'])}),
 ('glob', {'assert': ['dir-contents d : -selection name @[GLOB]@ num-files == 1']},
  {'GLOB': (['def string GLOB = *.txt', 'def string GLOB = *.none', 'def string GLOB = *'], [None])}),
 ('fsm-sym', {'assert': ['dir-contents d : FSM']},
  {'FSM': (['def files-matcher FSM = num-files == 2', 'def files-matcher FSM = is-empty'], [None, 'def file-matcher FSM = type dir'])}),
 ('files-cond', {'assert': ['dir-contents d : matches { @[F1]@ : type file', 'y.log }']},
  {'F1': (['def string F1 = x.txt', 'def string F1 = z.txt'], [None])}),
 ('pgm-sym', {'assert': ['run @ PGM']},
  {'PGM': (['def program PGM = % true', 'def program PGM = % false'], [None, 'def string PGM = true'])}),
 ('pgm-arg', {'assert': ['% grep -q @[A]@ data.txt']},
  {'A': (['def string A = alpha', 'def string A = beta'], [None])}),
 ('list-arg', {'before-assert': ['% sh -c \'echo "list $#: $*" ' + LOG + '\' sh @[LST]@']},
  {'LST': (['def list LST = a b', 'def list LST = c', 'def string LST = e'], [None])}),
 ('shell-str', {'assert': ['$ test "@[S]@" = "v1"']},
  {'S': (['def string S = v1', 'def string S = v2'], [None])}),
 ('stdin', {'assert': ['run % grep -q needle', '  -stdin @[IN]@']},
  {'IN': (['def string IN = "a needle"', 'def string IN = hay'], [None])}),
 ('def-derived', {'before-assert': ['def string DERIVED = "@[BASE]@-x"', '$ echo "derived @[DERIVED]@" ' + LOG]},
  {'BASE': (['def string BASE = b1', 'def string BASE = b2'], [None])}),
 ('file-str', {'cleanup': ['file -rel-tmp out.txt = "@[FS]@"', '$ echo "file $(cat @[EXACTLY_TMP]@/out.txt)" ' + LOG]},
  {'FS': (['def string FS = f1', 'def string FS = f2'], [None])}),
 ('file-contents-of', {'before-assert': ['file -rel-tmp copy.txt = -contents-of @[SRC]@', '$ echo "copy $(cat @[EXACTLY_TMP]@/copy.txt | tr \'\\n\' ,)" ' + LOG]},
  {'SRC': (['def path SRC = -rel-act data.txt', 'def path SRC = -rel-act d/x.txt'], [None, 'def string SRC = data.txt'])}),
 ('file-stdout-from', {'before-assert': ['file -rel-tmp po.txt = -stdout-from @ PG2', '$ echo "po $(cat @[EXACTLY_TMP]@/po.txt)" ' + LOG]},
  {'PG2': (['def program PG2 = % echo one', 'def program PG2 = % echo two'], [None])}),
 ('dir-name', {'cleanup': ['dir -rel-tmp @[DN]@', '$ echo "dirs $(ls @[EXACTLY_TMP]@ | tr \'\\n\' ,)" ' + LOG]},
  {'DN': (['def string DN = n1', 'def string DN = n2'], [None])}),
 ('env-val', {'before-assert': ['env C17_VAL = @[EV]@', '$ echo "env $C17_VAL" ' + LOG]},
  {'EV': (['def string EV = e1', 'def string EV = e2'], [None])}),
 ('cd-dir', {'cleanup': ['cd @[CD]@', '$ echo "cwd $(basename $(pwd))" ' + LOG]},
  {'CD': (['def string CD = d', 'def string CD = .'], [None])}),
 ('timeout-int', {'before-assert': ['timeout = @[TMO]@', '$ echo timeout-ok ' + LOG]},
  {'TMO': (['def string TMO = 40', 'def string TMO = 30+5'], [None, 'def string TMO = soon'])}),
 ('lm-sym', {'assert': ['stdout any line : LM']},
  {'LM': (['def line-matcher LM = contents equals beta', 'def line-matcher LM = line-num == 9'], [None, 'def string LM = x'])}),
 ('replace', {'assert': ['stdout -transformed-by replace @[FROM]@ @[TO]@ any line : contents equals ZZta']},
  {'FROM': (['def string FROM = be', 'def string FROM = al'], [None]),
   'TO': (['def string TO = ZZ', 'def string TO = YY'], [None])}),
 ('stdout-from', {'assert': ['stdout -from @ PG3', '  equals <<EOF', '@[OUT3]@', 'EOF']},
  {'PG3': (['def program PG3 = % echo one', 'def program PG3 = % echo two'], [None, 'def string PG3 = echo']),
   'OUT3': (['def string OUT3 = one', 'def string OUT3 = two'], [None])}),
 ('pgm-transformed', {'assert': ['stdout -from % cat data.txt', '  -transformed-by TT4', '  num-lines == @[N4]@']},
  {'TT4': (['def text-transformer TT4 = filter contents matches ^a', 'def text-transformer TT4 = identity'], [None]),
   'N4': (['def string N4 = 1', 'def string N4 = 3'], [None])}),
 ('text-source', {'before-assert': ['file -rel-tmp ts.txt = @[TS]@', '$ echo "ts $(cat @[EXACTLY_TMP]@/ts.txt)" ' + LOG]},
  {'TS': (['def text-source TS = "t1"', 'def text-source TS = -contents-of -rel-act data.txt', 'def string TS = t3'], [None, 'def path TS = data.txt'])}),
 ('files-source', {'cleanup': ['dir -rel-tmp made = { file @[FN]@ = "c" }', '$ echo "made $(ls @[EXACTLY_TMP]@/made | tr \'\\n\' ,)" ' + LOG]},
  {'FN': (['def string FN = m1', 'def string FN = m2'], [None])}),
 ('copy', {'before-assert': ['copy @[CSRC]@ copied', '$ echo "copied $(test -d copied && echo dir || echo file)" ' + LOG]},
  {'CSRC': (['def path CSRC = -rel-act data.txt', 'def path CSRC = -rel-act d'], [None])}),

 # compound expressions over case-defined matcher / transformer symbols
 ('tm-and', {'assert': ['stdout TM5 && constant true']},
  {'TM5': (['def text-matcher TM5 = num-lines == 3', 'def text-matcher TM5 = is-empty'], [None, 'def line-matcher TM5 = line-num == 1'])}),
 ('tm-or-not', {'assert': ['contents data.txt : constant false || ! TM6']},
  {'TM6': (['def text-matcher TM6 = is-empty', 'def text-matcher TM6 = ! is-empty'], [None])}),
 ('lm-and', {'assert': ['stdout any line : ( LM2 && contents matches a )']},
  {'LM2': (['def line-matcher LM2 = line-num >= 2', 'def line-matcher LM2 = line-num > 5'], [None, 'def text-matcher LM2 = is-empty'])}),
 ('lm-or-filter', {'assert': ['stdout -transformed-by filter ( constant false || LM3 )', '  num-lines == 1']},
  {'LM3': (['def line-matcher LM3 = contents equals beta', 'def line-matcher LM3 = constant true'], [None])}),
 ('fm-and', {'assert': ['exists data.txt : FM2 && ! type dir']},
  {'FM2': (['def file-matcher FM2 = type file', 'def file-matcher FM2 = name *.log'], [None, 'def string FM2 = x'])}),
 ('fm-or-selection', {'assert': ['dir-contents d : -selection ( constant false || FM3 ) num-files == 1']},
  {'FM3': (['def file-matcher FM3 = name *.txt', 'def file-matcher FM3 = type file'], [None])}),
 ('fsm-and', {'assert': ['dir-contents d : FSM2 && ! is-empty']},
  {'FSM2': (['def files-matcher FSM2 = num-files == 2', 'def files-matcher FSM2 = num-files > 2'], [None])}),
 ('im-or', {'assert': ['exit-code ( IM2 || < 0 )']},
  {'IM2': (['def integer-matcher IM2 = == 0', 'def integer-matcher IM2 = == 7'], [None, 'def string IM2 = 0'])}),
 ('im-and-numlines', {'assert': ['stdout num-lines ( IM3 && > 0 )']},
  {'IM3': (['def integer-matcher IM3 = <= 3', 'def integer-matcher IM3 = <= 2'], [None])}),
 ('tt-seq', {'assert': ['stdout -transformed-by ( TT5 | filter contents matches a )', '  num-lines == @[N5]@']},
  {'TT5': (['def text-transformer TT5 = filter -line-nums 1:2', 'def text-transformer TT5 = identity'], [None, 'def string TT5 = identity']),
   'N5': (['def string N5 = 2', 'def string N5 = 3'], [None])}),
 ('two-matchers', {'assert': ['stdout TM7 && TM8']},
  {'TM7': (['def text-matcher TM7 = ! is-empty', 'def text-matcher TM7 = is-empty'], [None]),
   'TM8': (['def text-matcher TM8 = num-lines >= 3', 'def text-matcher TM8 = num-lines < 3'], [None, 'def integer-matcher TM8 = > 1'])}),
 # two or more symbol-referencing arguments; wrong RELATIVITY of a definition
 ('copy-dst-rel', {'before-assert': ['copy @[CS2]@ -rel CD2 dst', '$ echo "dst $(ls @[EXACTLY_TMP]@/dst* d/dst* 2>/dev/null | wc -l)" ' + LOG]},
  {'CS2': (['def path CS2 = -rel-act data.txt', 'def path CS2 = -rel-act d/x.txt'], [None, 'def path CS2 = -rel-result stdout']),
   'CD2': (['def path CD2 = -rel-tmp .', 'def path CD2 = -rel-act d'], [None, 'def path CD2 = -rel-home .', 'def path CD2 = -rel-result .', 'def string CD2 = d'])}),
 ('copy-dst-prefix', {'cleanup': ['copy -rel-act data.txt @[CD3]@/dst3', '$ echo "dst3 $(cat @[EXACTLY_TMP]@/dst3 d/dst3 2>/dev/null | wc -l)" ' + LOG]},
  {'CD3': (['def path CD3 = -rel-tmp .', 'def path CD3 = -rel-act d'], [None, 'def path CD3 = -rel-home .', 'def path CD3 = -rel-act-home .'])}),
 ('file-rel-two', {'before-assert': ['file -rel FD nf.txt = "@[FV]@"', '$ echo "nf $(cat @[EXACTLY_TMP]@/nf.txt d/nf.txt 2>/dev/null)" ' + LOG]},
  {'FD': (['def path FD = -rel-tmp .', 'def path FD = -rel-act d'], [None, 'def path FD = -rel-home .', 'def path FD = -rel-result .']),
   'FV': (['def string FV = w1', 'def string FV = w2'], [None])}),
 ('dir-rel', {'cleanup': ['dir -rel DD nd', '$ echo "nd $(ls -d @[EXACTLY_TMP]@/nd d/nd 2>/dev/null | wc -l)" ' + LOG]},
  {'DD': (['def path DD = -rel-tmp .', 'def path DD = -rel-act d'], [None, 'def path DD = -rel-home .'])}),
 ('contents-rel-two', {'assert': ['contents -rel CR @[CF]@ : num-lines == @[CN]@']},
  {'CR': (['def path CR = -rel-act .', 'def path CR = -rel-act d'], [None, 'def string CR = d']),
   'CF': (['def string CF = data.txt', 'def string CF = x.txt'], [None]),
   'CN': (['def string CN = 3', 'def string CN = 1'], [None, 'def string CN = many'])}),
 ('cd-rel', {'cleanup': ['cd -rel CDR .', '$ echo "cdr $(basename $(pwd))" ' + LOG]},
  {'CDR': (['def path CDR = -rel-tmp .', 'def path CDR = -rel-act d'], [None, 'def path CDR = -rel-home .', 'def path CDR = -rel-result .'])}),
 ('run-path-args', {'assert': ['run % test -f @[RP1]@ -a -d @[RP2]@']},
  {'RP1': (['def path RP1 = -rel-act data.txt', 'def path RP1 = -rel-act nothing'], [None]),
   'RP2': (['def path RP2 = -rel-act d', 'def path RP2 = -rel-act data.txt'], [None, 'def list RP2 = d e'])}),
]

CAT_FIXED_SETUP = ['file data.txt = <<EOF', 'alpha', 'beta', 'PPTOKEN', 'EOF', 'dir d', 'file d/x.txt = "x"', 'file d/y.log = "y"']
CAT_ACT = "printf 'alpha\\nbeta\\ngamma\\n'; printf 'oops\\n' >&2"
CAT_CONF = [['status = SKIP'], ['status = FAIL'], ['actor = null'], ['actor = source % sh'], ['home = hd'], ['act-home = hd'],
            ['actor = source % sh', 'home = hd'], ['status = FAIL', 'act-home = hd']]


def gen_cat_family(rng, main):
    """-> a self-contained family around one catalog entry [main]: suite phase contents, 4 cases, orders.
    The cases are built so that what an instruction object of the suite might keep from one case is wrong for another:
    case 0 and case 1 define the symbols of the entry with two DIFFERENT valid values, case 2 defines one of them WRONGLY
    (not at all / wrong type / wrong relativity / unparsable), case 3 is random and (60%) sets status / actor / home /
    act-home in its own [conf].  30%: a second catalog entry (after the main one, so that it cannot mask it).
    Cases 0 and 1 have no [conf] of their own and are never the case whose preprocessing fails."""
    entries = [main]
    if rng.chance(0.3):
        e = rng.choice(CATALOG)
        order = ['before-assert', 'assert', 'cleanup']
        # ... only one whose instructions all come after those of the main entry: a failing instruction ends the phase (and,
        # outside cleanup, the case), so an earlier one could hide what the main entry does
        if e is not main and min(order.index(ph) for ph in e[1]) >= max(order.index(ph) for ph in main[1]):
            entries.append(e)
    suite = {}
    for _, phases, _ in entries:
        for ph, lines in phases.items():
            suite.setdefault(ph, []).extend(lines)
    a = rng.below(2)
    cases = []
    for i in range(4):
        defs = []
        for _, _, syms in entries:
            names = list(syms)
            wrong = rng.choice(names) if i == 2 or (i == 3 and rng.chance(0.3)) else None
            j = [a, 1 - a, a, rng.below(3)][i] if rng.chance(0.85) or i < 2 else rng.below(3)
            for name in names:
                valid, invalid = syms[name]
                d = rng.choice(invalid) if name == wrong else valid[min(j, len(valid) - 1)]
                if d is not None:
                    defs.append(d)
        conf = list(rng.choice(CAT_CONF)) if rng.chance([0, 0, 0.15, 0.6][i]) else []  # never on the two reference cases
        cases.append({'conf': conf, 'defs': defs})
    last = [0, 1, 2, 3]
    rng.shuffle(last)
    orders = [[0, 1, 2, 3], [3, 2, 1, 0], last + [last[0]]]
    fam = {'entries': [e[0] for e in entries], 'suite': suite, 'cases': cases, 'orders': orders}
    if rng.chance(0.3):
        # the suite sets a preprocessor (a filter over the case file that fails on a marked case); one case is marked
        fam['suite']['conf'] = [CAT_PREPROCESSOR]
        fam['entries'].append('preprocessor')
        cases[2 + rng.below(2)]['pp_fail'] = True  # never one of the two reference cases
    return fam


# integer arguments are Python expressions: an expression can BIND a name (assignment expression); a later case whose integer
# expression READS that name must not see it.  (Names that the evaluating function or its module might know - s, val, ... -
# are avoided: only c17-prefixed names; no globals() / builtins tricks, which reach real shared objects on any tree.)
INT_BINDERS = [
    ('setup', 'timeout = "(c17lim := 50)"'),
    ('setup', 'timeout = "(c17lim := 45) + (c17n := 1) - 1"'),
    ('assert', 'stdout num-lines >= "(c17n := 1)"'),
    ('assert', 'exit-code < "(c17code := 9)"'),
    ('assert', 'stdout any line : line-num == "(c17ln := 2)"'),
    ('assert', 'stderr num-lines == "[c17n := 1, c17code := 5][0]"'),
]
INT_READERS = [
    ('setup', 'timeout = c17lim'),
    ('setup', 'timeout = "c17lim if \'c17lim\' in dir() else 60"'),
    ('assert', 'stdout num-lines == "c17n if \'c17n\' in dir() else 3"'),
    ('assert', 'stdout num-lines >= c17n'),
    ('assert', 'exit-code == "c17code if \'c17code\' in dir() else 0"'),
    ('assert', 'exit-code != c17code'),
    ('assert', 'stdout every line : line-num <= "c17ln if \'c17ln\' in dir() else 3"'),
    ('assert', 'stdout any line : line-num == "c17ln + 1"'),
]


def gen_intexpr_family(rng):
    """2 cases whose integer expressions bind names, 2 whose integer expressions read them; no suite contents"""
    cases = []
    for pool, k in ((INT_BINDERS, 2), (INT_READERS, 2)):
        for _ in range(k):
            c = {'conf': [], 'defs': [], 'assert': []}
            for ph, line in rng.sample(pool, rng.randint(1, 2)):
                c['defs' if ph == 'setup' else 'assert'].append(line)
            cases.append(c)
    last = [0, 1, 2, 3]
    rng.shuffle(last)
    return {'entries': ['intexpr-names'], 'suite': {}, 'cases': cases, 'orders': [[0, 1, 2, 3], [3, 2, 1, 0], [2, 0, 3, 1], last + [last[0]]]}


CAT_PREPROCESSOR = ("preprocessor = sh -c 'if grep -q PP_FAIL \"$1\"; then echo marked >&2; exit 3; fi; sed s/PPTOKEN/gamma/ \"$@\"' pp")


def cat_suite_text(fam, cases):
    out = ['[cases]'] + list(cases)
    if fam['suite'].get('conf'):
        out = ['[conf]'] + fam['suite']['conf'] + out
    for ph in ('before-assert', 'assert', 'cleanup'):
        if fam['suite'].get(ph):
            out += ['[%s]' % ph] + fam['suite'][ph]
    return '\n'.join(out) + '\n'


def cat_case_text(c):
    sh = any(l.startswith('actor = source') for l in c['conf'])
    out = (['# PP_FAIL'] if c.get('pp_fail') else []) + (['[conf]'] + c['conf'] if c['conf'] else [])
    out += ['[setup]'] + CAT_FIXED_SETUP + c['defs']
    out += ['[act]', CAT_ACT if sh else '$ ' + CAT_ACT]
    if c.get('assert'):
        out += ['[assert]'] + c['assert']
    # what the case itself sees of the conf settings (its own, or - if they leaked - another case's)
    out += ['[cleanup]', '$ echo "home @[EXACTLY_HOME]@ act-home @[EXACTLY_ACT_HOME]@" ' + LOG]
    return '\n'.join(out) + '\n'


def _digest(ident, text):
    import zlib
    return (zlib.crc32(ident.encode()), [zlib.crc32(l.encode()) for l in text.split('\n') if l])


def observe_cat_family(fam, d, sbx):
    os.makedirs(os.path.join(d, 'hd'), exist_ok=True)
    n = len(fam['cases'])
    for i, c in enumerate(fam['cases']):
        with open(os.path.join(d, 'c%d.case' % i), 'w') as f:
            f.write(cat_case_text(c))
    with open(os.path.join(d, 'only.suite'), 'w') as f:
        f.write(cat_suite_text(fam, []))
    runner = os.path.join(common.REPO, 'src', 'default-main-program-runner.py')
    procs = []
    for i in range(n):
        tmp = os.path.join(d, 'tmp%d' % i)
        os.makedirs(tmp)
        log = os.path.join(d, 'alone%d.log' % i)
        env = dict(os.environ, PYTHONPATH=os.path.join(common.REPO, 'src'), PYTHONWARNINGS='ignore', TMPDIR=tmp, C17_LOG=log)
        procs.append((log, subprocess.Popen([sys.executable, runner, '--suite', 'only.suite', 'c%d.case' % i], cwd=d, env=env,
                                            stdout=subprocess.PIPE, stderr=subprocess.DEVNULL, text=True)))
    alone = []
    for log, p in procs:
        out, _ = p.communicate(timeout=180)
        ident = (out.strip().splitlines() or ['?'])[0]
        alone.append((ident, open(log).read() if os.path.exists(log) else ''))
    mp = impl.main_program(sbx)
    log = os.path.join(d, 'LOG')
    os.environ['C17_LOG'] = log
    scratch = os.path.join(d, 'scratch')
    os.makedirs(scratch, exist_ok=True)
    runs = []
    old = os.getcwd()
    try:
        for k, order in enumerate(fam['orders']):
            with open(os.path.join(d, 'o%d.suite' % k), 'w') as f:
                f.write(cat_suite_text(fam, ['c%d.case' % i for i in order]))
            if os.path.exists(log):
                os.remove(log)
            code, cases, out = run_suite(mp, 'o%d.suite' % k, d, log)
            os.chdir(old)
            runs.append({'order': order, 'mode': 'suite', 'obs': [(ident, text) for _, _, ident, text in cases],
                         'note': '' if len(cases) == len(order) else 'suite run reported %d cases: %s' % (len(cases), out[-300:])})
            obs = []
            for i in order:
                ident, text = run_alone(mp, ['--suite', 'o%d.suite' % k, 'c%d.case' % i], d, scratch, log)
                obs.append((ident, text))
            runs.append({'order': order, 'mode': 'standalone with --suite, one after the other', 'obs': obs, 'note': ''})
    finally:
        os.chdir(old)
        os.environ.pop('C17_LOG', None)
    return {'files': dict([('c%d.case' % i, cat_case_text(c)) for i, c in enumerate(fam['cases'])] +
                          [('SUITE (cases listed in the given order)', cat_suite_text(fam, []))]),
            'alone': alone, 'runs': runs}


def load_corpus():
    d = os.path.join(common.VERIF, 'harness', 'corpus', 'C17')
    out = []
    if os.path.isdir(d):
        for fn in sorted(os.listdir(d)):
            if fn.endswith('.json'):
                fam = json.load(open(os.path.join(d, fn)))
                fam['corpus'] = fn
                out.append(fam)
    return out


# ---------------------------------------------------------------------------------------------------------
# workers
# ---------------------------------------------------------------------------------------------------------
def _worker(job):
    work, kind, items = job
    root = tempfile.mkdtemp(prefix='c17-', dir=work)
    sbx = os.path.join(root, 'sandboxes')
    os.makedirs(sbx)
    old_tmp = tempfile.tempdir
    tempfile.tempdir = sbx  # `exactly suite` makes its sandboxes with tempfile.mkdtemp(prefix=...)
    out = []
    try:
        for n, item in enumerate(items):
            d = os.path.join(root, 'i%d' % n)
            os.makedirs(d)
            try:
                if kind == 'suite':
                    out.append(('ok', observe_suite_instance(item, d, sbx)))
                elif kind == 'stub':
                    out.append(('ok', observe_stub_history(item, d)))
                elif kind == 'real':
                    out.append(('ok', observe_real_family(item, d, sbx)))
                elif kind == 'cat':
                    out.append(('ok', observe_cat_family(item, d, sbx)))
                else:
                    raise ValueError(kind)
            except Exception as ex:  # fail-closed: reported as a harness error
                import traceback
                out.append(('error', traceback.format_exc()[-1500:]))
            shutil.rmtree(d, ignore_errors=True)
    finally:
        tempfile.tempdir = old_tmp
        shutil.rmtree(root, ignore_errors=True)
    return out


def run_parallel(ctx, kind, items, nproc=None):
    import exactly_lib.cli.main_program  # noqa: F401  (import before forking)
    nproc = nproc or max(1, min(common.NCPU, len(items)))
    chunks = [items[i::nproc] for i in range(nproc)]
    jobs = [(ctx.work, kind, ch) for ch in chunks if ch]
    if len(jobs) == 1:
        parts = [_worker(jobs[0])]
    else:
        with multiprocessing.get_context('fork').Pool(len(jobs)) as pool:
            parts = pool.map(_worker, jobs)
    # undo the round-robin split
    out = [None] * len(items)
    for k, part in enumerate(parts):
        for j, o in enumerate(part):
            out[k + j * nproc] = o
    return out


# ---------------------------------------------------------------------------------------------------------
def run(ctx, res, scale=1):
    rng = ctx.rng
    terms, meta = [], []
    n_suite = (80 if ctx.quick else 1500) * scale
    insts = [gen_suite_instance(rng) for _ in range(n_suite)]
    for inst, (st, obs) in zip(insts, run_parallel(ctx, 'suite', insts)):
        if st != 'ok':
            res.errors.append('suite-contents experiment failed to run: ' + obs)
            continue
        try:
            terms.append(suite_instance_term(inst, obs))
        except Exception as ex:
            res.errors.append('cannot classify observation %r: %s' % (ex, json.dumps(describe_suite_instance(inst, obs))[:1500]))
            continue
        d = describe_suite_instance(inst, obs)
        meta.append(d)
        n_suites = sum(1 for f in inst['files'].values() if f['kind'] == 'suite')
        res.count('exp1 suite files: %d' % n_suites)
        res.count('exp1 runs', 1 + len(obs['alone']))
        for x in obs['suite']:
            res.count('exp1 in-suite identifier ' + x[2])
        if any(any(f[p] for p in PHASES) or f['conf'] for f in inst['files'].values() if f['kind'] == 'suite'):
            res.nontrivial.add(json.dumps(d['files'], sort_keys=True))
    # ---- experiment 2
    n_fam = (14 if ctx.quick else 160) * scale
    fams = [gen_real_family(rng, ctx.quick, timeout_family=(i % 50 == 0)) for i in range(n_fam)]
    for fam, (st, obs) in zip(fams, run_parallel(ctx, 'real', fams)):
        if st != 'ok':
            res.errors.append('real-history experiment failed to run: ' + obs)
            continue
        for h in obs['hists']:
            d = {'experiment': 'real history', 'case_files': obs['case_files'], 'order': ['c%d.case' % i for i in h['order']],
                 'run as': h['mode'], 'observed': h['obs'], 'observed_alone_in_fresh_process': h['alone'], 'process_ok': h['proc_ok'],
                 'note': h['note']}
            try:
                terms.append(hist_term(h))
            except Exception as ex:
                # an identifier or probe output that cannot even be classified is a failure of the property, not of the harness
                res.prop_failures.append(Failure('property', d, 'unclassifiable observation: %r' % (ex,)))
                continue
            meta.append(d)
            res.count('exp2 runs as ' + h['mode'] + ('' if 'suite' not in fam else ', suite with contents in all phases that look at '
                      'what the case defined' if fam['suite'].get('observes') else ', suite with [setup] contents'))
            res.count('exp2 cases per history: %d' % len(h['order']))
            for o in h['obs']:
                res.count('exp2 identifier ' + o['result'])
            if any(sc['m2'] or sc['usages'] for sc in h['scripts']):
                res.nontrivial.add(json.dumps([obs['case_files'], h['order'], h['mode']], sort_keys=True))
    # ---- experiment 4 (the regression corpus first)
    # one family around EVERY entry of the catalog in quick, five in thorough (the walk through the catalog is shuffled)
    walk = list(CATALOG)
    rng.shuffle(walk)
    walk = walk * ((1 if ctx.quick else 5) * scale)
    cats = load_corpus() + [gen_cat_family(rng, e) for e in walk] + [gen_intexpr_family(rng) for _ in range((3 if ctx.quick else 20) * scale)]
    for fam, (st, obs) in zip(cats, run_parallel(ctx, 'cat', cats)):
        if st != 'ok':
            res.errors.append('catalog experiment failed to run: ' + obs)
            continue
        for r in obs['runs']:
            alone = [obs['alone'][i] for i in r['order']]
            d = {'experiment': 'suite catalog', 'corpus': fam.get('corpus'), 'catalog_entries': fam.get('entries'), 'files': obs['files'],
                 'order': ['c%d.case' % i for i in r['order']], 'run as': r['mode'],
                 'observed (identifier, probe lines)': r['obs'], 'alone with --suite in a fresh process': alone, 'note': r['note']}

            def c_pairs(l):
                return c_list(['(%s, %s)' % (cN(a), c_list([cN(x) for x in b], 'N')) for a, b in (_digest(*x) for x in l)],
                              '(N * list N)')

            terms.append('(KDiff (DiffCase %s %s))' % (c_pairs(r['obs']), c_pairs(alone)))
            meta.append(d)
            res.count('exp4 runs as ' + r['mode'])
            for e in fam.get('entries') or ['corpus']:
                res.count('exp4 catalog entry ' + e)
            for ident, _ in r['obs']:
                res.count('exp4 identifier ' + ident)
            res.nontrivial.add(json.dumps([obs['files'], r['order'], r['mode']], sort_keys=True))
    # ---- experiment 3
    n_stub = (360 if ctx.quick else 6000) * scale
    hists = [gen_stub_history(rng) for _ in range(n_stub)]
    for hist, (st, obs) in zip(hists, run_parallel(ctx, 'stub', hists)):
        if st != 'ok':
            res.errors.append('stub-history experiment failed to run: ' + obs)
            continue
        try:
            terms.append(hist_term(obs))
        except Exception as ex:
            res.errors.append('cannot classify observation %r: %s' % (ex, json.dumps(obs, default=str)[:1500]))
            continue
        d = dict(obs, experiment='stub history')
        meta.append(d)
        res.count('exp3 cases per history: %d' % len(hist['scripts']))
        res.count('exp3 shared environ dict: %s' % ('none' if hist['environ'] is None else 'yes'))
        for o in obs['obs']:
            res.count('exp3 result ' + o['result'])
        if any(sc['m2'] or sc['usages'] for sc in hist['scripts']):
            res.nontrivial.add(json.dumps([hist['scripts'], hist['environ'], hist['timeout']], sort_keys=True, default=str))
    res.rule = ('exp1: random hierarchies (root + sub-suites to depth 2, exactly.suite / other names / directory references, a case '
                'listed twice, 35% of the suites not named exactly.suite get a decoy exactly.suite with contents beside their cases) x suite contents in a random subset of {status, actor, preprocessor (1 or 2), setup, act, before-assert, '
                'assert, cleanup} (10% none, 10% all) x case contents in a random subset (same) x 35%: one failing marker instruction; '
                'each run as suite, each case with --suite, beside exactly.suite / plainly alone. non-trivial := some suite file has '
                'contents; distinct := distinct file texts. '
                'exp2: families of 2-4 real cases (1-2 that change settings with env [-of act|!act] [unset], timeout, cd, def, file in '
                'act/ and tmp/ and (35%) end with their current directory removed (dir scratch; cd scratch; rmdir "$(pwd)" in before-assert or '
                'as the last instructions of cleanup), the suite being given by a relative or an absolute path; 1-2 observers that refer to / define the symbols and print, through the shell, environment, current '
                'directory and the listing of act/ and tmp/ at the start of [setup], in the act program and in [cleanup]) in every order '
                '(6 orders sampled when there are more, in quick) + one order with a case run twice; 50%: the suite supplies [setup] '
                'contents, 80% of these also before-assert / assert / cleanup instructions (file = "@[W]@", shell probes, stdout equals '
                '<<EOF @[W]@ EOF) looking at a symbol W that every case defines with a value of its own and at env / cwd / files; each '
                'order run as a suite and as '
                'consecutive standalone runs of one MainProgram object; baseline = every case alone in a process of its own; one family '
                'per 50 with a 1 s timeout followed by a case that sleeps 1.4 s. non-trivial := some case changes a setting or uses a '
                'symbol; distinct := distinct (case files, order, mode). '
                'exp3: histories of 2-6 stub cases through one executor of processors.py on a shared environment dictionary (50%: None) '
                'and shared predefined symbols: stub instructions define / refer to symbols, chdir and put symbols before the sandbox '
                'exists, and in setup set / unset variables through InstructionSettings and SetupSettingsBuilder, set the timeout, put '
                'symbols, chdir in and out of the sandbox, create files; every view (environment, act environment, timeout, symbols, '
                'cwd, files) is recorded at validation, at the start of setup and in cleanup. non-trivial / distinct likewise. '
                'exp4: the regression corpus, then one family (five in thorough) around EVERY entry of a catalog of @N@ instruction shapes: '
                '4 cases under a suite whose before-assert / assert / cleanup contents are that entry (30%: plus a second one)  (stdout / stderr / exit-code / contents / exists / dir-contents / run / '
                '$ / % / def / file / dir / copy / env / cd / timeout; a symbol reference as integer expression, string, here-document, '
                'regex, glob, line-number range, path, -rel SYMBOL, list, program argument, -stdin, FILE-LIST entry, files-source, and as '
                'reference to a text-transformer / text-matcher / line-matcher / integer-matcher / file-matcher / files-matcher / program '
                '/ text-source symbol, as operand of && / || / ! / | in compound matchers and transformers, and two or more '
                'symbol-referencing arguments per instruction); cases 0 and 1 define the symbols with two different valid values, case 2 '
                'one of them wrongly (not at all, wrong type, wrong relativity, unparsable value), case 3 at random and (60%) with status '
                '/ actor / home / act-home in its own [conf]; 30%: the suite sets a preprocessor that fails on one marked case; 3 orders '
                '(forward, backward, shuffled with a repeated case); plus families without suite contents of 2 cases whose INTEGER arguments '
                '(timeout, num-lines, exit-code, line-num) are Python expressions that bind names with := and 2 cases whose integer '
                'expressions read those names (plainly, or NAME if NAME in dir() else K), 4 orders; each as suite run and as consecutive --suite runs of one MainProgram, against every case '
                'alone with --suite in a fresh process. all non-trivial; distinct := distinct (files, order, mode).').replace('@N@', str(len(CATALOG)))
    res.evaluations = len(terms)
    by_exp = {}
    for m in meta:
        by_exp.setdefault(m['experiment'], []).append(m)
    res.samples = [v[len(v) // 2] for v in by_exp.values()]
    cb, pb, errs = common.run_shards('C17', ['Model.Outcome', 'Model.Exec', 'Model.World', 'Model.Suite', 'Model.Cases', 'Spec.C17'],
                                     'check_c17', terms, shard_size=40)
    res.errors += errs
    for i in pb:
        res.prop_failures.append(Failure('property', meta[i], 'C17 violated on the observations: ' + WHAT[meta[i]['experiment']]))
    for i in cb:
        res.disagreements.append(Failure('correspondence', meta[i], 'model differs from the real program'))


WHAT = {'suite catalog': 'a case of a suite whose instructions refer to symbols / settings of the case did not get the identifier and '
                         'probe output, in the run, that it gets alone with --suite in a fresh process',
        'stub history': 'a case run after others (one executor, shared environment dictionary / predefined symbols) did not see or do '
                        'what it sees and does alone; or the shared objects, cwd or os.environ were not as before',
        'real history': 'a case run after others in one process did not write the probes / get the identifier it gets in a fresh process',
        'suite contents': 'a case run in the suite, alone with --suite and alone beside exactly.suite did not give the same identifier '
                          'and markers; or a marker of a file other than the case and its own suite was written; or suite markers '
                          'were not before the case\'s (after, in cleanup); or a passing case did not write every marker once; or the act '
                          'phase executed was not the suite\'s act lines followed by the case\'s (SYNTAX_ERROR when the actor in force '
                          'does not take that many); or the identifier is not one the status in force (suite\'s conf first, then the '
                          'case\'s) allows'}


def search(ctx, res):
    """failing-input search (a proof or the correspondence broke): all three experiments again, other seed, three times the
    quick sizes; returns the inputs on which the property predicate fails on the implementation's behaviour"""
    ctx2 = common.Ctx(ctx.prop, 'quick', ctx.seed + 17)
    r2 = common.Result()
    run(ctx2, r2, scale=3)
    return r2.prop_failures


def replay(ctx, payload):
    print(json.dumps(payload.get('case'), indent=1, default=str))
    return 0


def gen_tables(ctx):
    common.source_tie('C17')
