"""setup: regenerate every Gen table from /repo, then a full build of the Coq project."""
import importlib
import os
import sys
import traceback

import common

ok = True
for fn in sorted(os.listdir(os.path.dirname(os.path.abspath(__file__)))):
    if fn.startswith('c') and fn[1:3].isdigit() and fn.endswith('.py'):
        try:
            m = importlib.import_module(fn[:-3])
            if hasattr(m, 'gen_tables'):
                m.gen_tables(common.Ctx(fn[:-3].upper(), 'quick', 0))
        except Exception:
            traceback.print_exc()
            ok = False
b = common.coq_build(timeout=3000, keep_going=True)
print(b.log[-3000:])
if not b.ok:
    # a file that does not compile breaks only the checks whose dependency cone contains it: each check rebuilds its own
    # cone and reports a broken obligation itself (proof_broken), so setup does not fail as a whole
    print('BUILD INCOMPLETE (the checks concerned will report it):', b.broken)
if not ok:
    print('a tabulating translator failed during setup (the check concerned will report it)')
sys.exit(0)
